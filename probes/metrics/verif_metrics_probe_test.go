//go:build verif

package consumer

// Correspondence probe for the Coq model Burrow.Metrics (C17): "Probe E2E".  It lives in package consumer (which may import
// storage, evaluator and httpserver) so that the metadata tombstone goes through the REAL KafkaClient.
//
// A case is a whole history.  For every case the probe starts the REAL storage, evaluator and httpserver
// coordinators (the three structs core.Start builds) on one ApplicationContext, with the HTTP listener on
// 127.0.0.1:0, sends the ingest requests through App.StorageChannel (storage workers = 1, so every fetch is a
// barrier), and at every read phase speaks real HTTP: GET /metrics and every JSON list / detail / status
// endpoint.  The JSON bodies are parsed generically (documented key names are spelled out here, so a changed
// struct tag shows), the Prometheus text is parsed into family{labels} value.
//
// Case line:
//   sys <intervals> <expire> <mindist> <mincomplete float32 bits> <allowedlag> <ncl> <cluster ids> <ngroups> <ntopics> <nops> ops
// ops (every op carries the virtual clock in seconds as its first argument):
//   B now c t p cnt off | C now c g t p off order ts | O now c g t p owner client | X now c g
//   DT now c t     topic deletion as the cluster module does it: StorageSetDeleteTopic then httpserver.DeleteTopicMetrics
//   DG now c g t   HTTP DELETE /v3/kafka/c/consumer/g[/topic/t]   (t = 0: whole group)
//   GG now c g     metadata tombstone of group g fed to the real KafkaClient.processConsumerOffsetsMessage of a consumer
//                  module named "consumer-<cluster>" reading cluster c (decodeGroupMetadata: StorageSetDeleteGroup + DeleteConsumerMetrics)
//   R now          read phase: GET /metrics first, then every JSON endpoint
//   RJ now         read phase: every JSON endpoint first, then GET /metrics
//   RW now / RJW now   the same two read phases WITHOUT emptying the evaluator's result cache first (warm reads)
//   XC now secs    set evaluator expire-cache to secs (real seconds) and restart the evaluator (cache empty)
//   SL now ms      sleep ms real milliseconds (the evaluator cache runs on the real clock)
// R / RJ restart the evaluator first (empty cache).  A warm read is only meaningful while every entry filled since the last
// sleep / restart is still valid: the probe appends " TIMING" to the case output when a warm read ended later than 0.7 x
// expire-cache after that moment (the check discards such a case instead of judging it).
// The gauge vectors are process-global: the generator gives every case its own cluster ids, the probe only
// reports series whose cluster label belongs to the case, and it deletes the case's series afterwards.

import (
	"bufio"
	"bytes"
	"encoding/binary"
	"encoding/json"
	"fmt"
	"io"
	"math"
	"math/big"
	"net/http"
	"os"
	"sort"
	"strconv"
	"strings"
	"testing"
	"time"

	"github.com/IBM/sarama"
	"github.com/spf13/viper"
	"go.uber.org/zap"
	"go.uber.org/zap/zapcore"
	"go.uber.org/zap/zaptest/observer"

	"github.com/linkedin/Burrow/core/internal/evaluator"
	"github.com/linkedin/Burrow/core/internal/httpserver"
	"github.com/linkedin/Burrow/core/internal/storage"
	"github.com/linkedin/Burrow/core/protocol"
)

type vmToks struct {
	f []string
	i int
}

func (t *vmToks) next() string { s := t.f[t.i]; t.i++; return s }
func (t *vmToks) i64() int64 {
	v, err := strconv.ParseInt(t.next(), 10, 64)
	if err != nil {
		panic(err)
	}
	return v
}

func vmName(prefix string, id int64) string {
	if id == 0 {
		return ""
	}
	return prefix + strconv.FormatInt(id, 10)
}

func vmID(prefix, s string) string {
	if s == "" {
		return "0"
	}
	if !strings.HasPrefix(s, prefix) {
		return "?" + s
	}
	return strings.TrimPrefix(s, prefix)
}

var vmStatusNum = map[string]int{"NOTFOUND": 0, "OK": 1, "WARN": 2, "ERR": 3, "STOP": 4, "STALL": 5, "REWIND": 6}

type vmSys struct {
	app      *protocol.ApplicationContext
	st       *storage.Coordinator
	ev       *evaluator.Coordinator
	hs       *httpserver.Coordinator
	base     string
	client   *http.Client
	clusters []int64
	ngroups  int64
	ntopics  int64
	mine     map[string]bool
	segStart time.Time // last moment at which no cache entry filled before it can still be valid
	cacheSec int64
	late     bool
}

func (s *vmSys) setClock(now int64) {
	storage.VerifSetClock(now * 1000000000)
	evaluator.VerifSetClock(now * 1000000000)
}

func (s *vmSys) newEvaluator() {
	s.ev = &evaluator.Coordinator{App: s.app, Log: zap.NewNop()}
	s.ev.Configure()
	if err := s.ev.Start(); err != nil {
		panic(err)
	}
}

// flushEvaluatorCache: the evaluator's result cache runs on the real clock; a read phase starts from a fresh
// evaluator module (it has no other state), so what is read is the state of that moment (cache age is C05's subject).
func (s *vmSys) flushEvaluatorCache() {
	s.ev.Stop()
	s.newEvaluator()
	s.segStart = time.Now()
}

func (s *vmSys) send(r *protocol.StorageRequest) { s.app.StorageChannel <- r }

// barrier: a fetch answered by the single storage worker means everything sent before has been applied
func (s *vmSys) barrier() {
	r := &protocol.StorageRequest{RequestType: protocol.StorageFetchClusters, Reply: make(chan interface{})}
	s.app.StorageChannel <- r
	<-r.Reply
}

func (s *vmSys) get(method, path string) (int, []byte, error) {
	req, err := http.NewRequest(method, s.base+path, http.NoBody)
	if err != nil {
		return 0, nil, err
	}
	resp, err := s.client.Do(req)
	if err != nil {
		return 0, nil, err
	}
	defer resp.Body.Close()
	b, err := io.ReadAll(resp.Body)
	return resp.StatusCode, b, err
}

func (s *vmSys) getJSON(path string) (int, map[string]interface{}) {
	code, body, err := s.get("GET", path)
	if err != nil {
		return -1, nil
	}
	dec := json.NewDecoder(strings.NewReader(string(body)))
	dec.UseNumber()
	var m map[string]interface{}
	if err := dec.Decode(&m); err != nil {
		return code, nil
	}
	return code, m
}

func vmNum(v interface{}) string {
	if n, ok := v.(json.Number); ok {
		return n.String()
	}
	return "?"
}

func vmStr(v interface{}) (string, bool) {
	s, ok := v.(string)
	return s, ok
}

func vmIDList(prefix string, v interface{}) string {
	l, ok := v.([]interface{})
	if !ok {
		return "BAD"
	}
	ids := make([]string, len(l))
	for i, e := range l {
		s, _ := vmStr(e)
		ids[i] = vmID(prefix, s)
	}
	sort.Slice(ids, func(a, b int) bool {
		x, _ := strconv.Atoi(ids[a])
		y, _ := strconv.Atoi(ids[b])
		return x < y
	})
	return "L " + strconv.Itoa(len(ids)) + vmJoin(ids)
}

func vmJoin(l []string) string {
	if len(l) == 0 {
		return ""
	}
	return " " + strings.Join(l, " ")
}

// list endpoints: 200 with the key, 404 => NIL
func (s *vmSys) list(path, key, prefix string) string {
	code, m := s.getJSON(path)
	if code == 404 {
		return "NIL"
	}
	if code != 200 || m == nil {
		return "HTTP" + strconv.Itoa(code)
	}
	if e, ok := m["error"].(bool); !ok || e {
		return "ERRFLAG"
	}
	return vmIDList(prefix, m[key])
}

func (s *vmSys) topicDetail(c, t string) string {
	code, m := s.getJSON("/v3/kafka/" + c + "/topic/" + t)
	if code == 404 {
		return "NIL"
	}
	if code != 200 || m == nil {
		return "HTTP" + strconv.Itoa(code)
	}
	l, ok := m["offsets"].([]interface{})
	if !ok {
		return "BAD"
	}
	out := make([]string, len(l))
	for i, e := range l {
		out[i] = vmNum(e)
	}
	return "I " + strconv.Itoa(len(out)) + vmJoin(out)
}

// {"offset":..,"timestamp":..,"observedAt":..,"lag":..}
func vmOffset(v interface{}) string {
	if v == nil {
		return "nil"
	}
	m, ok := v.(map[string]interface{})
	if !ok {
		return "BAD"
	}
	lag := "n"
	if lv, present := m["lag"]; !present {
		lag = "MISSING"
	} else if lv != nil {
		lag = vmNum(lv)
	}
	if _, present := m["observedAt"]; !present {
		return "NOOBS"
	}
	return "(" + vmNum(m["offset"]) + "," + vmNum(m["timestamp"]) + "," + lag + ")"
}

func (s *vmSys) consumerDetail(c, g string) string {
	code, m := s.getJSON("/v3/kafka/" + c + "/consumer/" + g)
	if code == 404 {
		return "NIL"
	}
	if code != 200 || m == nil {
		return "HTTP" + strconv.Itoa(code)
	}
	topics, ok := m["topics"].(map[string]interface{})
	if !ok {
		return "BAD"
	}
	names := make([]string, 0, len(topics))
	for t := range topics {
		names = append(names, t)
	}
	sort.Slice(names, func(a, b int) bool {
		x, _ := strconv.Atoi(vmID("t", names[a]))
		y, _ := strconv.Atoi(vmID("t", names[b]))
		return x < y
	})
	var sb strings.Builder
	fmt.Fprintf(&sb, "K %d", len(names))
	for _, tn := range names {
		parts, _ := topics[tn].([]interface{})
		fmt.Fprintf(&sb, " %s %d", vmID("t", tn), len(parts))
		for _, pv := range parts {
			p, ok := pv.(map[string]interface{})
			if !ok {
				sb.WriteString(" BADPART")
				continue
			}
			owner, _ := vmStr(p["owner"])
			client, _ := vmStr(p["client_id"])
			offs, _ := p["offsets"].([]interface{})
			fmt.Fprintf(&sb, " %s %s %s %d", vmID("o", owner), vmID("c", client), vmNum(p["current-lag"]), len(offs))
			for _, o := range offs {
				sb.WriteString(" " + vmOffset(o))
			}
		}
	}
	return sb.String()
}

func vmF32Bits(v interface{}) string {
	n, ok := v.(json.Number)
	if !ok {
		return "?"
	}
	f, err := strconv.ParseFloat(n.String(), 32)
	if err != nil {
		return "?"
	}
	return strconv.FormatUint(uint64(math.Float32bits(float32(f))), 10)
}

func vmPartStatus(v interface{}) (key [2]int, text string) {
	p, ok := v.(map[string]interface{})
	if !ok {
		return [2]int{-1, -1}, "BADPART"
	}
	topic, _ := vmStr(p["topic"])
	owner, _ := vmStr(p["owner"])
	client, _ := vmStr(p["client_id"])
	st, _ := vmStr(p["status"])
	sn, ok := vmStatusNum[st]
	if !ok {
		sn = -1
	}
	tid, _ := strconv.Atoi(vmID("t", topic))
	pid, _ := strconv.Atoi(vmNum(p["partition"]))
	return [2]int{tid, pid}, fmt.Sprintf("%s %s %s %s %d %s %s %s %s", vmID("t", topic), vmNum(p["partition"]), vmID("o", owner),
		vmID("c", client), sn, vmOffset(p["start"]), vmOffset(p["end"]), vmNum(p["current_lag"]), vmF32Bits(p["complete"]))
}

func (s *vmSys) consumerStatus(c, g, leaf string) string {
	code, m := s.getJSON("/v3/kafka/" + c + "/consumer/" + g + "/" + leaf)
	if m == nil {
		return "HTTP" + strconv.Itoa(code)
	}
	stv, ok := m["status"].(map[string]interface{})
	if !ok {
		return "BAD"
	}
	st, _ := vmStr(stv["status"])
	sn, ok := vmStatusNum[st]
	if !ok {
		sn = -1
	}
	cl, _ := vmStr(stv["cluster"])
	gr, _ := vmStr(stv["group"])
	if cl != c || gr != g {
		return "WRONGGROUP"
	}
	maxlag := "n"
	if mv := stv["maxlag"]; mv != nil {
		if mm, ok := mv.(map[string]interface{}); ok {
			maxlag = vmNum(mm["current_lag"])
		} else {
			maxlag = "BAD"
		}
	}
	parts, _ := stv["partitions"].([]interface{})
	type kt struct {
		k [2]int
		t string
	}
	l := make([]kt, len(parts))
	for i, pv := range parts {
		k, t := vmPartStatus(pv)
		l[i] = kt{k, t}
	}
	sort.SliceStable(l, func(a, b int) bool {
		if l[a].k[0] != l[b].k[0] {
			return l[a].k[0] < l[b].k[0]
		}
		return l[a].k[1] < l[b].k[1]
	})
	var sb strings.Builder
	fmt.Fprintf(&sb, "S %d %d %s %s %s %s %d", code, sn, vmF32Bits(stv["complete"]), vmNum(stv["partition_count"]), vmNum(stv["totallag"]), maxlag, len(l))
	for _, e := range l {
		sb.WriteString(" " + e.t)
	}
	return sb.String()
}

var vmFamilies = map[string]string{
	"burrow_kafka_consumer_lag_total":      "TL",
	"burrow_kafka_consumer_status":         "ST",
	"burrow_kafka_consumer_partition_lag":  "PL",
	"burrow_kafka_consumer_current_offset": "PO",
	"burrow_kafka_topic_partition_status":  "PS",
	"burrow_kafka_topic_partition_offset":  "TO",
}

func vmFloatInt(txt string) string {
	f, err := strconv.ParseFloat(txt, 64)
	if err != nil || math.IsNaN(f) || math.IsInf(f, 0) || f != math.Trunc(f) {
		return "F" + txt
	}
	i, _ := new(big.Float).SetFloat64(f).Int(nil)
	return i.String()
}

func (s *vmSys) scrape() string {
	code, body, err := s.get("GET", "/metrics")
	if err != nil || code != 200 {
		// a panic inside the handler is recovered by net/http, which closes the connection without an answer
		return "M PANIC"
	}
	var series []string
	for _, ln := range strings.Split(string(body), "\n") {
		if !strings.HasPrefix(ln, "burrow_kafka_") {
			continue
		}
		ob := strings.IndexByte(ln, '{')
		cb := strings.LastIndexByte(ln, '}')
		if ob < 0 || cb < ob {
			continue
		}
		fam, ok := vmFamilies[ln[:ob]]
		if !ok {
			fam = "?" + ln[:ob]
		}
		labels := map[string]string{}
		for _, kv := range strings.Split(ln[ob+1:cb], ",") {
			eq := strings.IndexByte(kv, '=')
			if eq < 0 {
				continue
			}
			labels[kv[:eq]] = strings.Trim(kv[eq+1:], "\"")
		}
		if !s.mine[labels["cluster"]] {
			continue
		}
		known := 0
		for _, k := range []string{"cluster", "consumer_group", "topic", "partition"} {
			if _, ok := labels[k]; ok {
				known++
			}
		}
		extra := ""
		if known != len(labels) {
			extra = "+"
		}
		lab := func(k, prefix string) string {
			v, ok := labels[k]
			if !ok {
				return "-"
			}
			return vmID(prefix, v)
		}
		part := "-"
		if v, ok := labels["partition"]; ok {
			part = v
		}
		series = append(series, fmt.Sprintf("%s:%s:%s:%s:%s%s=%s", fam, lab("cluster", "k"), lab("consumer_group", "g"), lab("topic", "t"),
			part, extra, vmFloatInt(strings.TrimSpace(ln[cb+1:]))))
	}
	sort.Strings(series)
	return "M " + strconv.Itoa(len(series)) + vmJoin(series)
}

func (s *vmSys) readJSON() []string {
	var out []string
	_, m := s.getJSON("/v3/kafka")
	if m == nil {
		out = append(out, "CL BAD")
	} else {
		out = append(out, "CL "+vmIDList("k", m["clusters"]))
	}
	for _, c := range s.clusters {
		cn := vmName("k", c)
		cs := strconv.FormatInt(c, 10)
		out = append(out, "TL "+cs+" "+s.list("/v3/kafka/"+cn+"/topic", "topics", "t"))
		for t := int64(1); t <= s.ntopics; t++ {
			tn := vmName("t", t)
			out = append(out, fmt.Sprintf("TD %s %d %s", cs, t, s.topicDetail(cn, tn)))
			out = append(out, fmt.Sprintf("TC %s %d %s", cs, t, s.list("/v3/kafka/"+cn+"/topic/"+tn+"/consumers", "consumers", "g")))
		}
		out = append(out, "GL "+cs+" "+s.list("/v3/kafka/"+cn+"/consumer", "consumers", "g"))
		for g := int64(1); g <= s.ngroups; g++ {
			gn := vmName("g", g)
			out = append(out, fmt.Sprintf("GD %s %d %s", cs, g, s.consumerDetail(cn, gn)))
			out = append(out, fmt.Sprintf("GS %s %d %s", cs, g, s.consumerStatus(cn, gn, "status")))
			out = append(out, fmt.Sprintf("GA %s %d %s", cs, g, s.consumerStatus(cn, gn, "lag")))
		}
	}
	return out
}

func vmHistory(t *vmToks) (res string) {
	var out []string
	defer func() {
		if r := recover(); r != nil {
			out = append(out, fmt.Sprintf("PROBE-PANIC %v", r))
			res = strings.Join(out, " | ")
		}
	}()
	intervals, expire, mindist := t.i64(), t.i64(), t.i64()
	minComplete := math.Float32frombits(uint32(t.i64()))
	allowed := t.i64()
	s := &vmSys{mine: map[string]bool{}}
	ncl := int(t.i64())
	for i := 0; i < ncl; i++ {
		c := t.i64()
		s.clusters = append(s.clusters, c)
		s.mine[vmName("k", c)] = true
	}
	s.ngroups, s.ntopics = t.i64(), t.i64()

	viper.Reset()
	viper.Set("storage.verif.class-name", "inmemory")
	viper.Set("storage.verif.intervals", intervals)
	viper.Set("storage.verif.expire-group", expire)
	viper.Set("storage.verif.min-distance", mindist)
	viper.Set("storage.verif.workers", 1)
	viper.Set("evaluator.verif.class-name", "caching")
	s.cacheSec = 3600
	viper.Set("evaluator.verif.expire-cache", s.cacheSec)
	viper.Set("evaluator.verif.minimum-complete", float64(minComplete))
	viper.Set("evaluator.verif.allowed-lag", allowed)
	viper.Set("httpserver.verif.address", "127.0.0.1:0")
	for _, c := range s.clusters {
		viper.Set("cluster."+vmName("k", c)+".class-name", "kafka")
	}

	core, logs := observer.New(zapcore.InfoLevel)
	s.app = &protocol.ApplicationContext{
		Logger:           zap.NewNop(),
		StorageChannel:   make(chan *protocol.StorageRequest),
		EvaluatorChannel: make(chan *protocol.EvaluatorRequest),
	}
	s.st = &storage.Coordinator{App: s.app, Log: zap.NewNop()}
	s.st.Configure()
	if err := s.st.Start(); err != nil {
		panic(err)
	}
	defer s.st.Stop()
	s.newEvaluator()
	defer func() { s.ev.Stop() }()
	s.hs = &httpserver.Coordinator{App: s.app, Log: zap.New(core)}
	s.hs.Configure()
	if err := s.hs.Start(); err != nil {
		panic(err)
	}
	defer s.hs.Stop()
	for _, e := range logs.All() {
		if e.Message == "started listener" {
			s.base = "http://" + e.ContextMap()["listener"].(string)
		}
	}
	if s.base == "" {
		panic("listener address not logged")
	}
	s.client = &http.Client{Timeout: 20 * time.Second}
	defer s.client.CloseIdleConnections()
	defer s.setClock(0)
	defer func() {
		// leave no series of this case behind (best effort; the label space of the case is its own anyway)
		for _, c := range s.clusters {
			for g := int64(1); g <= s.ngroups; g++ {
				httpserver.DeleteConsumerMetrics(vmName("k", c), vmName("g", g))
			}
			for tp := int64(1); tp <= s.ntopics; tp++ {
				httpserver.DeleteTopicMetrics(vmName("k", c), vmName("t", tp))
			}
		}
	}()

	nops := int(t.i64())
	lastNow := int64(-1)
	for i := 0; i < nops; i++ {
		op := t.next()
		now := t.i64()
		if now != lastNow {
			// the storage worker reads the clock while it executes a request: nothing may be in flight when it moves
			s.barrier()
			s.setClock(now)
			lastNow = now
		}
		switch op {
		case "B":
			c, tp, p, cnt, off := t.i64(), t.i64(), t.i64(), t.i64(), t.i64()
			s.send(&protocol.StorageRequest{RequestType: protocol.StorageSetBrokerOffset, Cluster: vmName("k", c), Topic: vmName("t", tp),
				Partition: int32(p), TopicPartitionCount: int32(cnt), Offset: off, Timestamp: now * 1000})
		case "C":
			c, g, tp, p, off, order, ts := t.i64(), t.i64(), t.i64(), t.i64(), t.i64(), t.i64(), t.i64()
			s.send(&protocol.StorageRequest{RequestType: protocol.StorageSetConsumerOffset, Cluster: vmName("k", c), Group: vmName("g", g),
				Topic: vmName("t", tp), Partition: int32(p), Offset: off, Order: order, Timestamp: ts})
		case "O":
			c, g, tp, p, owner, client := t.i64(), t.i64(), t.i64(), t.i64(), t.i64(), t.i64()
			s.send(&protocol.StorageRequest{RequestType: protocol.StorageSetConsumerOwner, Cluster: vmName("k", c), Group: vmName("g", g),
				Topic: vmName("t", tp), Partition: int32(p), Owner: vmName("o", owner), ClientID: vmName("c", client)})
		case "X":
			c, g := t.i64(), t.i64()
			s.send(&protocol.StorageRequest{RequestType: protocol.StorageClearConsumerOwners, Cluster: vmName("k", c), Group: vmName("g", g)})
		case "DT":
			// cluster/kafka_cluster.go maybeUpdateMetadataAndDeleteTopics
			c, tp := t.i64(), t.i64()
			s.send(&protocol.StorageRequest{RequestType: protocol.StorageSetDeleteTopic, Cluster: vmName("k", c), Topic: vmName("t", tp)})
			httpserver.DeleteTopicMetrics(vmName("k", c), vmName("t", tp))
			s.barrier()
		case "GG":
			// a group metadata tombstone (key version 2, empty value) through the real consumer module
			c, g := t.i64(), t.i64()
			var key bytes.Buffer
			binary.Write(&key, binary.BigEndian, int16(2))
			binary.Write(&key, binary.BigEndian, int16(len(vmName("g", g))))
			key.WriteString(vmName("g", g))
			module := &KafkaClient{App: s.app, Log: zap.NewNop(), name: "consumer-" + vmName("k", c), cluster: vmName("k", c)}
			module.processConsumerOffsetsMessage(&sarama.ConsumerMessage{Topic: "__consumer_offsets", Partition: 0, Offset: int64(i), Key: key.Bytes(), Value: nil})
			s.barrier()
		case "DG":
			c, g, tp := t.i64(), t.i64(), t.i64()
			path := "/v3/kafka/" + vmName("k", c) + "/consumer/" + vmName("g", g)
			if tp != 0 {
				path += "/topic/" + vmName("t", tp)
			}
			code, _, err := s.get("DELETE", path)
			if err != nil || code != 200 {
				out = append(out, fmt.Sprintf("DELETE-FAILED %d", code))
			}
			s.barrier()
		case "XC":
			s.cacheSec = t.i64()
			viper.Set("evaluator.verif.expire-cache", s.cacheSec)
			s.flushEvaluatorCache()
		case "SL":
			ms := t.i64()
			s.barrier()
			time.Sleep(time.Duration(ms) * time.Millisecond)
			if ms > s.cacheSec*1000 {
				s.segStart = time.Now()
			}
		case "R", "RJ", "RW", "RJW":
			s.barrier()
			if op == "R" || op == "RJ" {
				s.flushEvaluatorCache()
			}
			var m string
			var js []string
			if op == "R" || op == "RW" {
				m = s.scrape()
				js = s.readJSON()
			} else {
				js = s.readJSON()
				m = s.scrape()
			}
			out = append(out, m+" ; "+strings.Join(js, " ; "))
			if (op == "RW" || op == "RJW") && s.cacheSec > 0 &&
				time.Since(s.segStart) > time.Duration(s.cacheSec)*700*time.Millisecond {
				s.late = true
			}
		default:
			panic("unknown op " + op)
		}
	}
	if s.late {
		return strings.Join(out, " | ") + " TIMING"
	}
	return strings.Join(out, " | ")
}

func TestVerifProbeMetrics(t *testing.T) {
	casesPath, outPath := os.Getenv("VERIF_CASES"), os.Getenv("VERIF_OUT")
	if casesPath == "" || outPath == "" {
		t.Skip("VERIF_CASES / VERIF_OUT not set")
	}
	in, err := os.Open(casesPath)
	if err != nil {
		t.Fatal(err)
	}
	defer in.Close()
	outf, err := os.Create(outPath)
	if err != nil {
		t.Fatal(err)
	}
	defer outf.Close()
	w := bufio.NewWriter(outf)
	defer w.Flush()
	sc := bufio.NewScanner(in)
	sc.Buffer(make([]byte, 1<<20), 1<<26)
	for sc.Scan() {
		line := strings.TrimSpace(sc.Text())
		if line == "" {
			continue
		}
		tk := &vmToks{f: strings.Fields(line)}
		if k := tk.next(); k != "sys" && k != "sys0" {
			t.Fatalf("unknown case kind %q", k)
		}
		fmt.Fprintln(w, vmHistory(tk))
		w.Flush()
	}
}
