//go:build verif

package consumer

// End-to-end correspondence probe for the composed Coq model Burrow.Pipeline (checks/pipe.py).
//
// One case = one life of a small Burrow: the REAL storage coordinator + inmemory module (1 worker) serve
// App.StorageChannel, the REAL evaluator coordinator + caching module (expire-cache 0) serve App.EvaluatorChannel, one
// REAL KafkaClient module per cluster decodes offsets-topic messages with processConsumerOffsetsMessage and sends what
// it decodes through helpers.TimeoutSendStorageRequest into that same channel.  Broker offsets and topic deletions are
// the requests the REAL cluster module emitted for the cycle (phase 1 of the check runs probes/cluster's getOffsets on
// the scripted environment and copies its U / D output behind the "@" of the Y event); they are sent as
// StorageSetDeleteTopic / StorageSetBrokerOffset requests through the channel, deletions first.
// Case and output formats: /verif/ocaml/drv_pipeline.ml.

import (
	"bufio"
	"encoding/hex"
	"fmt"
	"math"
	"os"
	"sort"
	"strconv"
	"strings"
	"sync"
	"sync/atomic"
	"testing"
	"time"

	"github.com/IBM/sarama"
	"github.com/spf13/viper"
	"go.uber.org/zap"

	"github.com/linkedin/Burrow/core/internal/evaluator"
	"github.com/linkedin/Burrow/core/internal/storage"
	"github.com/linkedin/Burrow/core/protocol"
)

// PIPE's own pattern pool (mirrors checks/pipegen.py PATTERNS and ocaml/drv_pipeline.ml): setting 0 = the list key is
// absent, 1..6 = a pattern, 7 = the key is PRESENT with the empty string as its value (no list: the modules test != "")
var vpPatterns = []string{"", "^a", "b$", ".*", "^$", "^(a|b)", "x", ""}

func vpSetList(key string, idx int) {
	if idx < 0 || idx >= len(vpPatterns) {
		panic("list setting " + strconv.Itoa(idx) + " outside the pipeline probe's pattern pool")
	}
	if idx != 0 {
		viper.Set(key, vpPatterns[idx])
	}
}

type vpToks struct {
	f []string
	i int
}

func (t *vpToks) next() string { s := t.f[t.i]; t.i++; return s }
func (t *vpToks) i64() int64 {
	v, err := strconv.ParseInt(t.next(), 10, 64)
	if err != nil {
		panic(err)
	}
	return v
}
func (t *vpToks) int() int { return int(t.i64()) }
func (t *vpToks) hexb() []byte {
	s := t.next()
	if s == "-" {
		return []byte{}
	}
	b, err := hex.DecodeString(s)
	if err != nil {
		panic(err)
	}
	return b
}

func vpHex(s string) string {
	if s == "" {
		return "-"
	}
	return hex.EncodeToString([]byte(s))
}

func vpCluster(id int64) string { return "k" + strconv.FormatInt(id, 10) }
func vpTopic(id int64) string   { return "t" + strconv.FormatInt(id, 10) }
func vpReader(id int64) string  { return "reader" + strconv.FormatInt(id, 10) }

type vpSys struct {
	app     *protocol.ApplicationContext
	st      *storage.Coordinator
	ev      *evaluator.Coordinator
	readers map[int64]*KafkaClient
	now     int64
}

func (s *vpSys) setClock(now int64) {
	s.now = now
	storage.VerifSetClock(now * 1000000000)
	evaluator.VerifSetClock(now * 1000000000)
	VerifSetClock(now * 1000000000)
}

// a fetch answered by the single storage worker: everything sent before has been applied
func (s *vpSys) barrier() {
	r := &protocol.StorageRequest{RequestType: protocol.StorageFetchClusters, Reply: make(chan interface{})}
	s.app.StorageChannel <- r
	<-r.Reply
}

func vpCoff(o *protocol.ConsumerOffset) string {
	if o == nil {
		return "n"
	}
	lag := "n"
	if o.Lag != nil {
		lag = strconv.FormatUint(o.Lag.Value, 10)
	}
	return fmt.Sprintf("%d.%d.%d.%s", o.Offset, o.Order, o.Timestamp, lag)
}

func vpPart(p *protocol.PartitionStatus) string {
	if p == nil {
		return "NILPART"
	}
	return strings.Join([]string{vpHex(p.Topic), strconv.FormatInt(int64(p.Partition), 10), p.Status.String(),
		strconv.FormatUint(p.CurrentLag, 10), strconv.FormatUint(uint64(math.Float32bits(p.Complete)), 10),
		vpHex(p.Owner), vpHex(p.ClientID), vpCoff(p.Start), vpCoff(p.End)}, ":")
}

func vpMax(full, g *protocol.ConsumerGroupStatus) string {
	if g.Maxlag == nil {
		return "-"
	}
	topics := map[string]bool{}
	if full != nil {
		for _, p := range full.Partitions {
			if p != nil && p.CurrentLag == g.Maxlag.CurrentLag {
				topics[p.Topic] = true
			}
		}
	}
	if len(topics) > 1 {
		return "T:" + strconv.FormatUint(g.Maxlag.CurrentLag, 10)
	}
	return vpHex(g.Maxlag.Topic) + ":" + strconv.FormatInt(int64(g.Maxlag.Partition), 10) + ":" + strconv.FormatUint(g.Maxlag.CurrentLag, 10)
}

func vpStatus(tag string, full, g *protocol.ConsumerGroupStatus, cluster, group string) string {
	if g == nil {
		return tag + " NILREPLY"
	}
	if g.Cluster != cluster || g.Group != group {
		return tag + " WRONG-ADDRESSEE " + vpHex(g.Cluster) + " " + vpHex(g.Group)
	}
	if g.Status == protocol.StatusNotFound {
		return tag + " NF"
	}
	parts := make([]*protocol.PartitionStatus, len(g.Partitions))
	copy(parts, g.Partitions)
	sort.SliceStable(parts, func(a, b int) bool {
		if parts[a] == nil || parts[b] == nil {
			return parts[a] == nil && parts[b] != nil
		}
		if parts[a].Topic != parts[b].Topic {
			return parts[a].Topic < parts[b].Topic
		}
		return parts[a].Partition < parts[b].Partition
	})
	if full == nil || full.Status == protocol.StatusNotFound {
		full = g
	}
	f := []string{tag, g.Status.String(), strconv.FormatUint(uint64(math.Float32bits(g.Complete)), 10),
		strconv.Itoa(g.TotalPartitions), strconv.FormatUint(g.TotalLag, 10), "M", vpMax(full, g), "P", strconv.Itoa(len(parts))}
	for _, p := range parts {
		f = append(f, vpPart(p))
	}
	return strings.Join(f, " ")
}

func (s *vpSys) status(cluster, group string, showall bool) *protocol.ConsumerGroupStatus {
	req := &protocol.EvaluatorRequest{Reply: make(chan *protocol.ConsumerGroupStatus, 1), Cluster: cluster, Group: group, ShowAll: showall}
	s.app.EvaluatorChannel <- req
	select {
	case r := <-req.Reply:
		return r
	case <-time.After(30 * time.Second):
		panic("no evaluator reply within 30 s")
	}
}

func vpSkipCycle(t *vpToks) {
	t.next() // tick
	t.next() // topics_ok
	for k := t.int(); k > 0; k-- {
		t.next()
	}
	for nt := t.int(); nt > 0; nt-- {
		t.next()
		t.next()
		for np := t.int(); np > 0; np-- {
			t.next()
			t.next()
			t.next()
			for no := t.int(); no > 0; no-- {
				t.next()
			}
		}
	}
	for nf := t.int(); nf > 0; nf-- {
		t.next()
	}
}

func vpCase(t *vpToks) (res string) {
	var out []string
	defer func() {
		if r := recover(); r != nil {
			out = append(out, "PROBE-PANIC "+strings.ReplaceAll(fmt.Sprint(r), "\n", " "))
			res = strings.Join(out, " | ")
		}
	}()
	intervals, expire, mindist := t.i64(), t.i64(), t.i64()
	minComplete := math.Float32frombits(uint32(t.i64()))
	allowed := t.i64()
	now0 := t.i64()
	sallow, sdeny := t.int(), t.int()
	type cl struct {
		id          int64
		allow, deny int
	}
	var clusters []cl
	for n := t.int(); n > 0; n-- {
		clusters = append(clusters, cl{t.i64(), t.int(), t.int()})
	}

	viper.Reset()
	viper.Set("client-profile..client-id", "testid")
	viper.Set("storage.verif.class-name", "inmemory")
	viper.Set("storage.verif.intervals", intervals)
	viper.Set("storage.verif.expire-group", expire)
	viper.Set("storage.verif.min-distance", mindist)
	viper.Set("storage.verif.workers", 1)
	vpSetList("storage.verif.group-allowlist", sallow)
	vpSetList("storage.verif.group-denylist", sdeny)
	viper.Set("evaluator.verif.class-name", "caching")
	viper.Set("evaluator.verif.expire-cache", 0)
	viper.Set("evaluator.verif.minimum-complete", float64(minComplete))
	viper.Set("evaluator.verif.allowed-lag", allowed)
	for _, c := range clusters {
		n := vpCluster(c.id)
		viper.Set("cluster."+n+".class-name", "kafka")
		viper.Set("cluster."+n+".servers", []string{"broker1.example.com:1234"})
		// the reader module's own name differs from the name of the cluster it reads for
		r := vpReader(c.id)
		viper.Set("consumer."+r+".class-name", "kafka")
		viper.Set("consumer."+r+".servers", []string{"broker1.example.com:1234"})
		viper.Set("consumer."+r+".cluster", n)
		vpSetList("consumer."+r+".group-allowlist", c.allow)
		vpSetList("consumer."+r+".group-denylist", c.deny)
	}

	s := &vpSys{readers: map[int64]*KafkaClient{}}
	s.app = &protocol.ApplicationContext{
		Logger:           zap.NewNop(),
		StorageChannel:   make(chan *protocol.StorageRequest),
		EvaluatorChannel: make(chan *protocol.EvaluatorRequest),
	}
	s.setClock(now0)
	defer s.setClock(0)
	s.st = &storage.Coordinator{App: s.app, Log: zap.NewNop()}
	s.st.Configure()
	if err := s.st.Start(); err != nil {
		panic(err)
	}
	defer s.st.Stop()
	s.ev = &evaluator.Coordinator{App: s.app, Log: zap.NewNop()}
	s.ev.Configure()
	if err := s.ev.Start(); err != nil {
		panic(err)
	}
	defer s.ev.Stop()
	for _, c := range clusters {
		m := &KafkaClient{App: s.app, Log: zap.NewNop()}
		m.Configure(vpReader(c.id), "consumer."+vpReader(c.id))
		s.readers[c.id] = m
	}

	for nev := t.int(); nev > 0; nev-- {
		switch ev := t.next(); ev {
		case "T":
			// the storage worker reads the clock while it executes a request: nothing may be in flight when it moves
			s.barrier()
			s.setClock(t.i64())
		case "K":
			c, order := t.i64(), t.i64()
			key, value := t.hexb(), t.hexb()
			m := s.readers[c]
			if m == nil {
				panic("message for a cluster without reader")
			}
			m.processConsumerOffsetsMessage(&sarama.ConsumerMessage{Topic: "__consumer_offsets", Partition: 0, Offset: order, Key: key, Value: value})
		case "Y":
			c := t.i64()
			vpSkipCycle(t)
			if at := t.next(); at != "@" {
				panic("expected @, got " + at)
			}
			for n := t.int(); n > 0; n-- {
				s.app.StorageChannel <- &protocol.StorageRequest{RequestType: protocol.StorageSetDeleteTopic, Cluster: vpCluster(c), Topic: vpTopic(t.i64())}
			}
			for n := t.int(); n > 0; n-- {
				tp, p, off, cnt := t.i64(), t.i64(), t.i64(), t.i64()
				s.app.StorageChannel <- &protocol.StorageRequest{RequestType: protocol.StorageSetBrokerOffset, Cluster: vpCluster(c), Topic: vpTopic(tp),
					Partition: int32(p), TopicPartitionCount: int32(cnt), Offset: off, Timestamp: s.now * 1000}
			}
		case "S":
			c := t.i64()
			g := string(t.hexb())
			order := t.int()
			s.barrier()
			if order == 0 {
				f := s.status(vpCluster(c), g, true)
				p := s.status(vpCluster(c), g, false)
				out = append(out, vpStatus("F", f, f, vpCluster(c), g), vpStatus("P", f, p, vpCluster(c), g))
			} else {
				p := s.status(vpCluster(c), g, false)
				f := s.status(vpCluster(c), g, true)
				out = append(out, vpStatus("P", f, p, vpCluster(c), g), vpStatus("F", f, f, vpCluster(c), g))
			}
		case "P":
			// one goroutine per list, all started together, each decoding its own messages in order (the per-partition
			// consumers of the offsets topic call processConsumerOffsetsMessage of the one module concurrently)
			c := t.i64()
			m := s.readers[c]
			if m == nil {
				panic("batch for a cluster without reader")
			}
			ngo := t.int()
			lists := make([][]*sarama.ConsumerMessage, ngo)
			for i := range lists {
				for n := t.int(); n > 0; n-- {
					order := t.i64()
					key, value := t.hexb(), t.hexb()
					lists[i] = append(lists[i], &sarama.ConsumerMessage{Topic: "__consumer_offsets", Partition: int32(i), Offset: order, Key: key, Value: value})
				}
			}
			start := make(chan struct{})
			var wg sync.WaitGroup
			var panicked atomic.Value
			for i := range lists {
				wg.Add(1)
				go func(msgs []*sarama.ConsumerMessage) {
					defer wg.Done()
					defer func() {
						if r := recover(); r != nil {
							panicked.Store(fmt.Sprint(r))
						}
					}()
					<-start
					for _, msg := range msgs {
						m.processConsumerOffsetsMessage(msg)
					}
				}(lists[i])
			}
			close(start)
			wg.Wait()
			if v := panicked.Load(); v != nil {
				panic("a decoding goroutine panicked: " + v.(string))
			}
			s.barrier()
		case "L":
			c := t.i64()
			r := &protocol.StorageRequest{RequestType: protocol.StorageFetchConsumers, Cluster: vpCluster(c), Reply: make(chan interface{})}
			s.app.StorageChannel <- r
			rep := <-r.Reply
			if rep == nil {
				out = append(out, "L NIL")
			} else {
				names := append([]string{}, rep.([]string)...)
				sort.Strings(names)
				f := []string{"L", strconv.Itoa(len(names))}
				for _, n := range names {
					f = append(f, vpHex(n))
				}
				out = append(out, strings.Join(f, " "))
			}
		default:
			panic("unknown event " + ev)
		}
	}
	s.barrier()
	return strings.Join(out, " | ")
}

func TestVerifProbePipeline(t *testing.T) {
	casesPath, outPath := os.Getenv("VERIF_CASES"), os.Getenv("VERIF_OUT")
	if casesPath == "" || outPath == "" {
		t.Skip("VERIF_CASES / VERIF_OUT not set")
	}
	in, err := os.Open(casesPath)
	if err != nil {
		t.Fatal(err)
	}
	defer in.Close()
	outf, err := os.Create(outPath)
	if err != nil {
		t.Fatal(err)
	}
	defer outf.Close()
	w := bufio.NewWriter(outf)
	defer w.Flush()
	sc := bufio.NewScanner(in)
	sc.Buffer(make([]byte, 1<<20), 1<<28)
	for sc.Scan() {
		line := strings.TrimSpace(sc.Text())
		if line == "" {
			continue
		}
		tk := &vpToks{f: strings.Fields(line)}
		if k := tk.next(); k != "pipe" {
			t.Fatalf("unknown case kind %q", k)
		}
		fmt.Fprintln(w, vpCase(tk))
		w.Flush()
	}
}
