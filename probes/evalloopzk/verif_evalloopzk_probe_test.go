//go:build verif

package zookeeper

// Correspondence probe for Burrow.EvalLoop.zk_session (C15): the session publisher.
//
//   zk <conn0> <n> {<s|n> <state>}*n    the real Coordinator.mainLoop is fed the scripted zk.Events (s = zk.EventSession,
//                                       n = a node event; state = exp con dis cing has ro); after each event the probe
//                                       prints App.ZookeeperConnected and whether ZookeeperExpired was Broadcast: <0|1><b|->

import (
	"bufio"
	"fmt"
	"os"
	"strings"
	"sync"
	"sync/atomic"
	"testing"
	"time"

	zk "github.com/linkedin/go-zk"
	"go.uber.org/zap"

	"github.com/linkedin/Burrow/core/protocol"
)

var vZkStates = map[string]zk.State{
	"exp": zk.StateExpired, "con": zk.StateConnected, "dis": zk.StateDisconnected, "cing": zk.StateConnecting,
	"has": zk.StateHasSession, "ro": zk.StateConnectedReadOnly,
}

func vZkCase(f []string) string {
	zc := &Coordinator{
		Log: zap.NewNop(),
		App: &protocol.ApplicationContext{
			Logger:             zap.NewNop(),
			ZookeeperConnected: f[0] == "1",
			ZookeeperExpired:   &sync.Cond{L: &sync.Mutex{}},
		},
	}
	ch := make(chan zk.Event)
	done := make(chan struct{})
	go func() {
		zc.mainLoop(ch)
		close(done)
	}()
	// a waiter that is always registered in Wait() when an event is delivered
	var woke atomic.Int64
	var ready atomic.Int64
	go func() {
		for {
			zc.App.ZookeeperExpired.L.Lock()
			ready.Add(1)
			zc.App.ZookeeperExpired.Wait()
			zc.App.ZookeeperExpired.L.Unlock()
			woke.Add(1)
		}
	}()
	waitReady := func(n int64) {
		for k := 0; k < 20000 && ready.Load() < n; k++ {
			time.Sleep(50 * time.Microsecond)
		}
		// ready is incremented with L held, just before Wait() releases it: taking L here means the waiter is parked
		zc.App.ZookeeperExpired.L.Lock()
		zc.App.ZookeeperExpired.L.Unlock() //nolint
	}
	var out []string
	n := 0
	fmt.Sscanf(f[1], "%d", &n)
	for k := 0; k < n; k++ {
		typ, st := f[2+2*k], f[3+2*k]
		state, ok := vZkStates[st]
		if !ok {
			return "BADSTATE:" + st
		}
		ev := zk.Event{Type: zk.EventSession, State: state}
		if typ == "n" {
			ev.Type = zk.EventNodeDataChanged
			ev.Path = "/burrow/notifier"
		}
		waitReady(woke.Load() + 1)
		before := woke.Load()
		ch <- ev
		// an ignored event: when it has been taken, the previous one has been processed completely
		ch <- zk.Event{Type: zk.EventNodeCreated, State: zk.StateHasSession}
		for j := 0; j < 40 && woke.Load() == before; j++ {
			time.Sleep(50 * time.Microsecond)
		}
		o := "0"
		if zc.App.ZookeeperConnected {
			o = "1"
		}
		if woke.Load() > before {
			o += "b"
		} else {
			o += "-"
		}
		out = append(out, o)
	}
	close(ch)
	select {
	case <-done:
	case <-time.After(2 * time.Second):
		out = append(out, "NOEXIT")
	}
	return strings.Join(out, " ")
}

func TestVerifProbeEvalloopzk(t *testing.T) {
	casesPath, outPath := os.Getenv("VERIF_CASES"), os.Getenv("VERIF_OUT")
	if casesPath == "" || outPath == "" {
		t.Skip("VERIF_CASES / VERIF_OUT not set")
	}
	in, err := os.Open(casesPath)
	if err != nil {
		t.Fatal(err)
	}
	defer in.Close()
	outf, err := os.Create(outPath)
	if err != nil {
		t.Fatal(err)
	}
	defer outf.Close()
	w := bufio.NewWriter(outf)
	defer w.Flush()
	sc := bufio.NewScanner(in)
	sc.Buffer(make([]byte, 1<<20), 1<<26)
	for sc.Scan() {
		l := strings.TrimSpace(sc.Text())
		if l == "" {
			continue
		}
		f := strings.Fields(l)
		if f[0] != "zk" {
			t.Fatalf("unknown case kind in %q", l)
		}
		fmt.Fprintln(w, vZkCase(f[1:]))
	}
}
