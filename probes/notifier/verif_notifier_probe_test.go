//go:build verif

package notifier

// Correspondence probe for the Coq model Burrow.Notifier (C13, C14, notifier half of C10).
// One case = one history: module configurations, group names with the expected outcome of each module's
// allow/deny regexps, (cluster, group) pairs, and a sequence of steps: evaluator responses (clock step, pair, status),
// group-list refreshes (cluster, list) and whole refresh cycles (cluster list + one group list per cluster).
// The real Coordinator is configured through Configure() from viper (allow/deny regexps compiled there, threshold /
// send-interval defaults set there); its modules are then wrapped by a recording implementation of Module; every
// response is pushed through the real responseLoop -> checkAndSendResponseToModules -> notifyModule, every group list
// through the real processConsumerList (reply channel), every refresh cycle through the real sendClusterRequest ->
// processClusterList -> processConsumerList with the probe answering the storage requests - or (step "s") not taking
// them off the storage channel, so that the real one-second send timeout expires - all with the virtual clock.  Output: per step the sorted set of Notify calls, then the cluster entries and every incident record.
// Format: see /verif/ocaml/drv_notifier.ml.

import (
	"bufio"
	"fmt"
	"os"
	"sort"
	"strconv"
	"strings"
	"sync"
	"sync/atomic"
	"testing"
	"text/template"
	"time"

	"github.com/spf13/viper"
	"go.uber.org/zap"

	"github.com/linkedin/Burrow/core/protocol"
)

type vnCall struct {
	module  int
	cluster string
	group   string
	status  int
	id      string
	start   time.Time
	good    bool
}

// vnGate makes the next Notify call of a history block until the probe releases it (step "b": a slow module).
type vnGate struct {
	armed   int32
	entered chan struct{}
	release chan struct{}
	mu      sync.Mutex
}

func (g *vnGate) arm() {
	g.entered = make(chan struct{})
	g.release = make(chan struct{})
	atomic.StoreInt32(&g.armed, 1)
}

// vnRecorder is the probe's Module: the lists and the name come from the module Configure() built, Notify records.
type vnRecorder struct {
	*NullNotifier
	index       int
	acceptGroup bool
	calls       *[]vnCall
	gate        *vnGate
}

func (m *vnRecorder) AcceptConsumerGroup(status *protocol.ConsumerGroupStatus) bool {
	return m.acceptGroup
}

func (m *vnRecorder) Notify(status *protocol.ConsumerGroupStatus, eventID string, startTime time.Time, stateGood bool) {
	if atomic.CompareAndSwapInt32(&m.gate.armed, 1, 0) {
		close(m.gate.entered)
		select {
		case <-m.gate.release:
		case <-time.After(60 * time.Second):
		}
	}
	m.gate.mu.Lock()
	defer m.gate.mu.Unlock()
	*m.calls = append(*m.calls, vnCall{module: m.index, cluster: status.Cluster, group: status.Group,
		status: int(status.Status), id: eventID, start: startTime, good: stateGood})
}

type vnCycle struct {
	clusterList []string
	lists       map[string][]string
	closedReply map[string]bool
}

type vnToks struct {
	f []string
	i int
}

func (t *vnToks) next() string { s := t.f[t.i]; t.i++; return s }
func (t *vnToks) i64() int64 {
	v, err := strconv.ParseInt(t.next(), 10, 64)
	if err != nil {
		panic(err)
	}
	return v
}
func (t *vnToks) int() int   { return int(t.i64()) }
func (t *vnToks) flag() bool { return t.next() == "1" }

func vnTime(x time.Time) string {
	if x.IsZero() {
		return "-"
	}
	return strconv.FormatInt(x.UnixNano(), 10)
}

func vnBit(b bool) byte {
	if b {
		return '1'
	}
	return '0'
}

// vnClone returns a Coordinator that shares every piece of state with nc except the WaitGroup and the storage channel.
func vnClone(nc *Coordinator) *Coordinator {
	c2 := &Coordinator{
		App:               &protocol.ApplicationContext{Logger: nc.App.Logger, StorageChannel: make(chan *protocol.StorageRequest)},
		Log:               nc.Log,
		modules:           nc.modules,
		minInterval:       nc.minInterval,
		groupRefresh:      nc.groupRefresh,
		evaluatorResponse: nc.evaluatorResponse,
		quitChannel:       make(chan struct{}),
		templateParseFunc: nc.templateParseFunc,
		clusters:          nc.clusters,
		clusterLock:       nc.clusterLock,
	}
	c2.notifyModuleFunc = c2.notifyModule
	return c2
}

func vnHistory(t *vnToks) (res string) {
	defer func() {
		if r := recover(); r != nil {
			res = fmt.Sprintf("CRASH %v", r)
		}
	}()
	defer VerifSetClock(0)

	t0 := t.i64()
	nm := t.int()
	viper.Reset()
	acceptGroup := make([]bool, nm)
	for i := 0; i < nm; i++ {
		root := "notifier.m" + strconv.Itoa(i+1)
		viper.Set(root+".class-name", "null")
		viper.Set(root+".template-open", "open")
		viper.Set(root+".template-close", "close")
		if thr := t.next(); thr != "d" {
			v, _ := strconv.Atoi(thr)
			viper.Set(root+".threshold", v)
		}
		if iv := t.next(); iv != "d" {
			v, _ := strconv.ParseInt(iv, 10, 64)
			viper.Set(root+".send-interval", v)
		}
		viper.Set(root+".send-once", t.flag())
		viper.Set(root+".send-close", t.flag())
		acceptGroup[i] = t.flag()
		if a := t.next(); a != "-" {
			viper.Set(root+".group-allowlist", a)
		}
		if d := t.next(); d != "-" {
			viper.Set(root+".group-denylist", d)
		}
	}

	nc := &Coordinator{Log: zap.NewNop()}
	nc.App = &protocol.ApplicationContext{Logger: zap.NewNop()}
	nc.templateParseFunc = func(filenames ...string) (*template.Template, error) {
		return template.New("verif").Parse("")
	}
	nc.Configure()
	if len(nc.modules) != nm {
		return fmt.Sprintf("BADCONFIG %d modules", len(nc.modules))
	}
	var calls []vnCall
	gate := &vnGate{}
	recs := make([]*vnRecorder, nm)
	for i := 0; i < nm; i++ {
		name := "m" + strconv.Itoa(i+1)
		null, ok := nc.modules[name].(*NullNotifier)
		if !ok {
			return "BADCONFIG module " + name
		}
		recs[i] = &vnRecorder{NullNotifier: null, index: i + 1, acceptGroup: acceptGroup[i], calls: &calls, gate: gate}
		nc.modules[name] = recs[i]
	}
	nc.notifyModuleFunc = nc.notifyModule

	// group names; the expected regexp outcomes of the case line are checked against the real regexps
	nn := t.int()
	names := make([]string, nn)
	nameIndex := make(map[string]int)
	rxdiff := ""
	for g := 0; g < nn; g++ {
		names[g] = t.next()
		nameIndex[names[g]] = g
		for i := 0; i < nm; i++ {
			want := t.next()
			al, dl := recs[i].GetGroupAllowlist(), recs[i].GetGroupDenylist()
			got := []byte{vnBit(al != nil), vnBit(al != nil && al.MatchString(names[g])),
				vnBit(dl != nil), vnBit(dl != nil && dl.MatchString(names[g]))}
			// match bits of an unset list are "don't care" in the case line and always 0 there
			if string(got) != want {
				rxdiff += fmt.Sprintf(" RXDIFF m%d g%d %s", i+1, g, got)
			}
		}
	}

	// (cluster, group) pairs the responses refer to.  Nothing is registered by the probe: cluster entries and group
	// records come into being only through the real processClusterList / processConsumerList (steps "c" and "g").
	np := t.int()
	type pair struct{ cluster, group string }
	pairs := make([]pair, np)
	for p := 0; p < np; p++ {
		pairs[p] = pair{"c" + strconv.Itoa(t.int()), names[t.int()]}
	}
	nc.App.StorageChannel = make(chan *protocol.StorageRequest)

	ids := make(map[string]int) // event ids numbered by first appearance in a group's incident record
	idOf := func(s string) string {
		if s == "" {
			return "-"
		}
		if n, ok := ids[s]; ok {
			return strconv.Itoa(n)
		}
		return "?" + s
	}
	groupList := func() (list []string, closed bool) {
		n := t.int()
		if n < 0 {
			return nil, true
		}
		list = make([]string, n)
		for i := 0; i < n; i++ {
			list[i] = names[t.int()]
		}
		return list, false
	}

	// the real processConsumerList, fed through its reply channel the way the storage module answers (the reply is ready:
	// the channel is buffered, or already closed)
	startGroupList := func(cluster string, list []string, closed bool) {
		reply := make(chan interface{}, 1)
		if closed {
			close(reply)
		} else {
			reply <- list
		}
		nc.running.Add(1)
		go nc.processConsumerList(cluster, reply)
	}
	readCycle := func() *vnCycle {
		n := t.int()
		spec := &vnCycle{clusterList: make([]string, n), lists: make(map[string][]string), closedReply: make(map[string]bool)}
		for i := 0; i < n; i++ {
			spec.clusterList[i] = "c" + strconv.Itoa(t.int())
			list, closed := groupList()
			if _, dup := spec.lists[spec.clusterList[i]]; !dup {
				spec.lists[spec.clusterList[i]] = list
				spec.closedReply[spec.clusterList[i]] = closed
			}
		}
		return spec
	}
	// a whole refresh cycle through the real sendClusterRequest -> processClusterList -> processConsumerList, with the
	// probe in the role of the storage module (as in TestCoordinator_sendClusterRequest); returns a channel closed when
	// every storage request has been answered
	startCycle := func(spec *vnCycle) chan struct{} {
		served := make(chan struct{})
		cur := nc
		go func() {
			defer close(served)
			request := <-cur.App.StorageChannel
			if request.RequestType != protocol.StorageFetchClusters {
				panic("verif: expected StorageFetchClusters")
			}
			request.Reply <- spec.clusterList
			for i := 0; i < len(spec.lists); i++ {
				request := <-cur.App.StorageChannel
				if request.RequestType != protocol.StorageFetchConsumers {
					panic("verif: expected StorageFetchConsumers")
				}
				if spec.closedReply[request.Cluster] {
					close(request.Reply)
				} else {
					request.Reply <- spec.lists[request.Cluster]
				}
			}
		}()
		go cur.sendClusterRequest()
		return served
	}

	renderCalls := func(cs []vnCall) string {
		out := make([]string, 0, len(cs))
		for _, c := range cs {
			// a call made while the incident record was already closed again still belongs to the id it carries
			if c.id != "" {
				if _, ok := ids[c.id]; !ok {
					ids[c.id] = len(ids) + 1
				}
			}
			g, ok := nameIndex[c.group]
			gs := strconv.Itoa(g)
			if !ok {
				gs = "?" + c.group
			}
			good := "0"
			if c.good {
				good = "1"
			}
			out = append(out, fmt.Sprintf("m%d:%s:g%s:%d:%s:%s:%s", c.module, c.cluster, gs, c.status, idOf(c.id), vnTime(c.start), good))
		}
		sort.Strings(out)
		if len(out) == 0 {
			return "-"
		}
		return strings.Join(out, ",")
	}
	noteID := func(cluster, group string) {
		if cl, ok := nc.clusters[cluster]; ok {
			if cg, ok := cl.Groups[group]; ok && cg.ID != "" {
				if _, ok := ids[cg.ID]; !ok {
					ids[cg.ID] = len(ids) + 1
				}
			}
		}
	}

	ns := t.int()
	clock := t0
	steps := make([]string, 0, ns)
	for s := 0; s < ns; s++ {
		kind := t.next()
		clock += t.i64()
		VerifSetClock(clock)
		calls = calls[:0]
		switch kind {
		case "r":
			p := pairs[t.int()]
			status := t.int()
			response := &protocol.ConsumerGroupStatus{Cluster: p.cluster, Group: p.group, Status: protocol.StatusConstant(status)}
			if _, ok := nc.clusters[p.cluster]; !ok {
				// checkAndSendResponseToModules dereferences the missing cluster entry (nil *clusterGroups) and would take
				// the whole test binary down from its goroutine.  The generators never ask for this (no evaluation is
				// requested for a cluster without entry); the model drops such a response.
				break
			}

			// One turn of the real responseLoop.  The nil response is a barrier: once it has been received the loop has
			// finished the previous iteration (running.Add + go checkAndSendResponseToModules); closing the quit channel
			// then ends the loop and running.Wait() returns when the handler goroutine is done.
			nc.quitChannel = make(chan struct{})
			nc.running.Add(1)
			go nc.responseLoop()
			nc.evaluatorResponse <- response
			nc.evaluatorResponse <- nil
			close(nc.quitChannel)
			nc.running.Wait()

			if cl, ok := nc.clusters[p.cluster]; ok {
				if cg, ok := cl.Groups[p.group]; ok && cg.ID != "" {
					if _, ok := ids[cg.ID]; !ok {
						ids[cg.ID] = len(ids) + 1
					}
				}
			}
		case "g":
			cluster := "c" + strconv.Itoa(t.int())
			list, closed := groupList()
			startGroupList(cluster, list, closed)
			nc.running.Wait()
		case "c":
			spec := readCycle()
			served := startCycle(spec)
			select {
			case <-served:
			case <-time.After(20 * time.Second):
				panic("verif: the refresh cycle did not send the expected storage requests")
			}
			nc.running.Wait()
		case "b":
			// A response whose first Notify call is slow (the recorder blocks), during which a real refresh arrives from
			// another goroutine and asks for the write lock; the module is released once the writer is pending.  In the
			// unchanged code the refresh simply waits for the response to be finished.  Every wait has a deadline: a
			// coordinator that does not finish the response is reported as STUCK.
			p := pairs[t.int()]
			status := t.int()
			sub := t.next()
			var gCluster string
			var gList []string
			var gClosed bool
			var spec *vnCycle
			if sub == "g" {
				gCluster = "c" + strconv.Itoa(t.int())
				gList, gClosed = groupList()
			} else {
				spec = readCycle()
			}
			refresh := func() chan struct{} {
				if sub == "g" {
					startGroupList(gCluster, gList, gClosed)
					return nil
				}
				return startCycle(spec)
			}
			const deadline = 2500 * time.Millisecond
			done := make(chan struct{})
			entered := false
			if _, ok := nc.clusters[p.cluster]; ok {
				response := &protocol.ConsumerGroupStatus{Cluster: p.cluster, Group: p.group, Status: protocol.StatusConstant(status)}
				gate.arm()
				nc.quitChannel = make(chan struct{})
				nc.running.Add(1)
				go nc.responseLoop()
				nc.evaluatorResponse <- response
				nc.evaluatorResponse <- nil
				close(nc.quitChannel)
				cur := nc
				go func() { cur.running.Wait(); close(done) }()
				select {
				case <-gate.entered:
					entered = true
				case <-done:
				case <-time.After(deadline):
					return fmt.Sprintf("STUCK step=%d the response was not handled within %v", s, deadline)
				}
				atomic.StoreInt32(&gate.armed, 0)
			} else {
				close(done)
			}
			var served chan struct{}
			if entered {
				// which lock the refresh will ask for in write mode
				// (the handler of the response holds clusterLock and its own cluster's Lock for reading)
				var lock *sync.RWMutex
				if sub == "g" {
					if cl, ok := nc.clusters[gCluster]; ok && gCluster == p.cluster {
						lock = cl.Lock
					}
				} else {
					lock = nc.clusterLock
				}
				served = refresh()
				if lock != nil {
					// until the writer is pending (a pending writer makes TryRLock fail)
					for until := time.Now().Add(500 * time.Millisecond); time.Now().Before(until); {
						if !lock.TryRLock() {
							break
						}
						lock.RUnlock()
						time.Sleep(20 * time.Microsecond)
					}
				} else {
					time.Sleep(200 * time.Microsecond)
				}
				close(gate.release)
				select {
				case <-done:
				case <-time.After(deadline):
					gate.mu.Lock()
					n := len(calls)
					gate.mu.Unlock()
					return fmt.Sprintf("STUCK step=%d the response (and the refresh that arrived during its first Notify call) did not finish within %v of the module returning; %d Notify calls had been made", s, deadline, n)
				}
			} else {
				<-done
				noteID(p.cluster, p.group) // (the refresh may delete the record that has just drawn an id)
				served = refresh()
			}
			if served != nil {
				select {
				case <-served:
				case <-time.After(deadline):
					return fmt.Sprintf("STUCK step=%d the refresh cycle did not finish within %v", s, deadline)
				}
			}
			fin := make(chan struct{})
			cur := nc
			go func() { cur.running.Wait(); close(fin) }()
			select {
			case <-fin:
			case <-time.After(deadline):
				return fmt.Sprintf("STUCK step=%d the refresh did not finish within %v", s, deadline)
			}
			if cl, ok := nc.clusters[p.cluster]; ok {
				if cg, ok := cl.Groups[p.group]; ok && cg.ID != "" {
					if _, ok := ids[cg.ID]; !ok {
						ids[cg.ID] = len(ids) + 1
					}
				}
			}
		case "o":
			// Two responses of ONE group in flight: the first Notify call of this response is slow (the recorder blocks)
			// and the NEXT step - a response for the same pair, same clock - is delivered through responseLoop meanwhile.
			// The probe waits until the call log has been quiet for 10 ms (at most 300 ms), releases the module and waits
			// for both responses.  The calls are attributed to the two steps by their status (the generators use two
			// different statuses).  If the response makes no Notify call the next step is handled on its own as usual.
			pi := t.int()
			p := pairs[pi]
			status := t.int()
			const deadline = 2500 * time.Millisecond
			if _, ok := nc.clusters[p.cluster]; !ok {
				break
			}
			deliver := func(st int) {
				response := &protocol.ConsumerGroupStatus{Cluster: p.cluster, Group: p.group, Status: protocol.StatusConstant(st)}
				nc.quitChannel = make(chan struct{})
				nc.running.Add(1)
				go nc.responseLoop()
				nc.evaluatorResponse <- response
				nc.evaluatorResponse <- nil
				close(nc.quitChannel)
			}
			gate.arm()
			deliver(status)
			done := make(chan struct{})
			cur := nc
			go func() { cur.running.Wait(); close(done) }()
			entered := false
			select {
			case <-gate.entered:
				entered = true
			case <-done:
			case <-time.After(deadline):
				return fmt.Sprintf("STUCK step=%d the response was not handled within %v", s, deadline)
			}
			atomic.StoreInt32(&gate.armed, 0)
			if !entered || s+1 >= ns {
				if entered {
					close(gate.release)
					<-done
				}
				noteID(p.cluster, p.group)
				break
			}
			// the next step must be a plain response for the same pair at the same clock
			if k := t.next(); k != "r" {
				panic("verif: an o step must be followed by an r step")
			}
			dt2, pi2, status2 := t.i64(), t.int(), t.int()
			if dt2 != 0 || pi2 != pi {
				panic("verif: the step after an o step must be for the same pair at the same clock")
			}
			deliver(status2)
			last, quiet := -1, 0
			for i := 0; i < 300 && quiet < 10; i++ {
				time.Sleep(time.Millisecond)
				gate.mu.Lock()
				n := len(calls)
				gate.mu.Unlock()
				if n == last {
					quiet++
				} else {
					last, quiet = n, 0
				}
			}
			close(gate.release)
			fin := make(chan struct{})
			go func() { cur.running.Wait(); close(fin) }()
			select {
			case <-fin:
			case <-time.After(deadline):
				return fmt.Sprintf("STUCK step=%d two responses of one group in flight did not finish within %v", s, deadline)
			}
			<-done // (both waiters have returned before the WaitGroup is used again)
			noteID(p.cluster, p.group)
			var first, second []vnCall
			for _, c := range calls {
				if c.status == status2 && status2 != status {
					second = append(second, c)
				} else {
					first = append(first, c)
				}
			}
			steps = append(steps, renderCalls(first))
			calls = second
			s++
		case "s":
			// A refresh whose storage request is not taken off App.StorageChannel within the second that
			// helpers.TimeoutSendStorageRequest waits (real time): n = -1 - the cluster-list request of sendClusterRequest;
			// n >= 0 - the cluster list is answered, then every group-list request of processClusterList.  The request is
			// offered on a channel nobody reads; the goroutine waiting for the reply that never comes stays blocked for ever
			// in the unchanged code (and keeps nc.running above zero), so the history goes on with a second Coordinator
			// that shares all state (modules, clusters map, locks) but has its own WaitGroup and storage channel.
			n := t.int()
			dead := make(chan *protocol.StorageRequest)
			live := nc.App.StorageChannel
			wait := 300 * time.Millisecond
			if n < 0 {
				nc.App.StorageChannel = dead
				nc.sendClusterRequest() // returns when the offer has timed out
			} else {
				clusterList := make([]string, n)
				distinct := make(map[string]bool)
				for i := 0; i < n; i++ {
					clusterList[i] = "c" + strconv.Itoa(t.int())
					distinct[clusterList[i]] = true
				}
				served := make(chan struct{})
				cur := nc
				go func() {
					defer close(served)
					request := <-live
					if request.RequestType != protocol.StorageFetchClusters {
						panic("verif: expected StorageFetchClusters")
					}
					cur.App.StorageChannel = dead // read by processClusterList only after it has received the list
					request.Reply <- clusterList
				}()
				nc.sendClusterRequest()
				select {
				case <-served:
				case <-time.After(20 * time.Second):
					panic("verif: the refresh cycle did not send the expected storage request")
				}
				wait += time.Duration(len(distinct)) * time.Second // processClusterList offers the requests one after the other
			}
			time.Sleep(wait) // whatever the code does when the offer times out has happened by now
			nc = vnClone(nc)
		default:
			panic("verif: unknown step kind " + kind)
		}

		steps = append(steps, renderCalls(calls))
	}

	// every cluster entry and every record that exists after the last step
	clusterNum := func(c string) int { n, _ := strconv.Atoi(strings.TrimPrefix(c, "c")); return n }
	known := make([]int, 0, len(nc.clusters))
	for c := range nc.clusters {
		known = append(known, clusterNum(c))
	}
	sort.Ints(known)
	final := make([]string, 0, 8)
	ks := make([]string, len(known))
	for i, c := range known {
		ks[i] = strconv.Itoa(c)
	}
	if len(ks) == 0 {
		final = append(final, "K:-")
	} else {
		final = append(final, "K:"+strings.Join(ks, ","))
	}
	for _, c := range known {
		cl := nc.clusters["c"+strconv.Itoa(c)]
		idx := make([]int, 0, len(cl.Groups))
		unknownName := ""
		for g := range cl.Groups {
			if i, ok := nameIndex[g]; ok {
				idx = append(idx, i)
			} else {
				unknownName += " ?" + g
			}
		}
		sort.Ints(idx)
		for _, gi := range idx {
			cg := cl.Groups[names[gi]]
			ln := make([]string, nm)
			for i := 0; i < nm; i++ {
				ln[i] = vnTime(cg.LastNotify["m"+strconv.Itoa(i+1)])
			}
			final = append(final, fmt.Sprintf("c%d/g%d=%s:%s:%s", c, gi, idOf(cg.ID), vnTime(cg.Start), strings.Join(ln, "/")))
		}
		if unknownName != "" {
			final = append(final, fmt.Sprintf("c%d/%s", c, unknownName))
		}
	}
	return strings.Join(steps, " | ") + " || " + strings.Join(final, " ; ") + rxdiff
}

// vnConfig: the coordinator's construction of the REAL module classes.  One case = a notifier configuration with modules of
// class email / http / null and their list keys (absent, present but empty, or a pattern), given to viper key by key
// ("set") or as a TOML document ("toml"); the real Configure() builds the modules through getModuleForClass.  For every
// module and group name the probe reads the constructed module's lists and AcceptConsumerGroup through the Module
// interface, and drives the real checkAndSendResponseToModules with notifyModuleFunc replaced by a recorder (the way the
// unit tests observe calls) to see which modules a result for that group is handed to.
//
//	case:   cfg set|toml NM { class allow|-|@e deny|-|@e send_close }*NM NN { name { rx4 }*NM }*NN
//	output: m<i>:<class built>:<name> g<j>=<a_set a_match d_set d_match>/<AcceptConsumerGroup>/<handed to notifyModule> ... ; m<i+1>...
func vnConfig(t *vnToks) (res string) {
	defer func() {
		if r := recover(); r != nil {
			res = fmt.Sprintf("CRASH %v", r)
		}
	}()
	mode := t.next()
	nm := t.int()
	viper.Reset()
	var doc strings.Builder
	val := func(tok string) (string, bool) { // -> value, key present
		if tok == "-" {
			return "", false
		}
		if tok == "@e" {
			return "", true
		}
		return tok, true
	}
	for i := 0; i < nm; i++ {
		name := "m" + strconv.Itoa(i+1)
		class := t.next()
		allow, hasAllow := val(t.next())
		deny, hasDeny := val(t.next())
		sendClose := t.flag()
		kv := [][2]string{{"class-name", class}, {"template-open", "open"}, {"template-close", "close"}}
		switch class {
		case "email":
			kv = append(kv, [2]string{"server", "localhost"}, [2]string{"from", "burrow@verif.invalid"}, [2]string{"to", "nobody@verif.invalid"})
		case "http":
			kv = append(kv, [2]string{"url-open", "http://127.0.0.1:9/open"}, [2]string{"url-close", "http://127.0.0.1:9/close"})
		}
		if hasAllow {
			kv = append(kv, [2]string{"group-allowlist", allow})
		}
		if hasDeny {
			kv = append(kv, [2]string{"group-denylist", deny})
		}
		if mode == "toml" {
			fmt.Fprintf(&doc, "[notifier.%s]\n", name)
			for _, e := range kv {
				fmt.Fprintf(&doc, "%s = '%s'\n", e[0], e[1])
			}
			fmt.Fprintf(&doc, "send-close = %v\n", sendClose)
			if class == "email" {
				fmt.Fprintf(&doc, "port = 25\n")
			}
		} else {
			for _, e := range kv {
				viper.Set("notifier."+name+"."+e[0], e[1])
			}
			viper.Set("notifier."+name+".send-close", sendClose)
			if class == "email" {
				viper.Set("notifier."+name+".port", 25)
			}
		}
	}
	if mode == "toml" {
		viper.SetConfigType("toml")
		if err := viper.ReadConfig(strings.NewReader(doc.String())); err != nil {
			return "BADCONFIG toml: " + err.Error()
		}
	}

	nc := &Coordinator{Log: zap.NewNop()}
	nc.App = &protocol.ApplicationContext{Logger: zap.NewNop()}
	nc.templateParseFunc = func(filenames ...string) (*template.Template, error) {
		return template.New("verif").Parse("")
	}
	nc.Configure()
	if len(nc.modules) != nm {
		return fmt.Sprintf("BADCONFIG %d modules", len(nc.modules))
	}
	var handed []string
	nc.notifyModuleFunc = func(module Module, status *protocol.ConsumerGroupStatus, startTime time.Time, eventID string) {
		defer nc.running.Done()
		handed = append(handed, module.GetName())
	}
	nc.clusters["c1"] = &clusterGroups{Lock: &sync.RWMutex{}, Groups: make(map[string]*consumerGroup)}

	nn := t.int()
	out := make([]string, nm)
	for i := 0; i < nm; i++ {
		name := "m" + strconv.Itoa(i+1)
		class := "?"
		switch nc.modules[name].(type) {
		case *EmailNotifier:
			class = "email"
		case *HTTPNotifier:
			class = "http"
		case *NullNotifier:
			class = "null"
		}
		out[i] = fmt.Sprintf("m%d:%s:%s", i+1, class, nc.modules[name].(Module).GetName())
	}
	for g := 0; g < nn; g++ {
		group := t.next()
		for i := 0; i < nm; i++ {
			t.next() // the expected outcome (for the model)
		}
		nc.clusters["c1"].Groups[group] = &consumerGroup{LastNotify: make(map[string]time.Time)}
		response := &protocol.ConsumerGroupStatus{Cluster: "c1", Group: group, Status: protocol.StatusError}
		handed = handed[:0]
		nc.running.Add(1)
		nc.checkAndSendResponseToModules(response)
		for i := 0; i < nm; i++ {
			name := "m" + strconv.Itoa(i+1)
			module := nc.modules[name].(Module)
			al, dl := module.GetGroupAllowlist(), module.GetGroupDenylist()
			got := []byte{vnBit(al != nil), vnBit(al != nil && al.MatchString(group)),
				vnBit(dl != nil), vnBit(dl != nil && dl.MatchString(group))}
			n := 0
			for _, h := range handed {
				if h == name {
					n++
				}
			}
			out[i] += fmt.Sprintf(" g%d=%s/%c/%d", g, got, vnBit(module.AcceptConsumerGroup(response)), n)
		}
	}
	return strings.Join(out, " ; ")
}

func TestVerifProbeNotifier(t *testing.T) {
	casesPath, outPath := os.Getenv("VERIF_CASES"), os.Getenv("VERIF_OUT")
	if casesPath == "" || outPath == "" {
		t.Skip("VERIF_CASES / VERIF_OUT not set")
	}
	in, err := os.Open(casesPath)
	if err != nil {
		t.Fatal(err)
	}
	defer in.Close()
	outf, err := os.Create(outPath)
	if err != nil {
		t.Fatal(err)
	}
	defer outf.Close()
	w := bufio.NewWriter(outf)
	defer w.Flush()

	sc := bufio.NewScanner(in)
	sc.Buffer(make([]byte, 1<<20), 1<<26)
	for sc.Scan() {
		line := strings.TrimSpace(sc.Text())
		if line == "" {
			continue
		}
		tk := &vnToks{f: strings.Fields(line)}
		switch tk.next() {
		case "hist", "hist0":
			fmt.Fprintln(w, vnHistory(tk))
		case "cfg":
			fmt.Fprintln(w, vnConfig(tk))
		default:
			t.Fatalf("unknown case kind in %q", line)
		}
	}
}
