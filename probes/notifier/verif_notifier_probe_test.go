//go:build verif

package notifier

// Correspondence probe for the Coq model Burrow.Notifier (C13, C14, notifier half of C10).
// One case = one history: module configurations, group names with the expected outcome of each module's
// allow/deny regexps, (cluster, group) pairs, and a sequence of steps: evaluator responses (clock step, pair, status),
// group-list refreshes (cluster, list) and whole refresh cycles (cluster list + one group list per cluster).
// The real Coordinator is configured through Configure() from viper (allow/deny regexps compiled there, threshold /
// send-interval defaults set there); its modules are then wrapped by a recording implementation of Module; every
// response is pushed through the real responseLoop -> checkAndSendResponseToModules -> notifyModule, every group list
// through the real processConsumerList (reply channel), every refresh cycle through the real sendClusterRequest ->
// processClusterList -> processConsumerList with the probe answering the storage requests - or (step "s") not taking
// them off the storage channel, so that the real one-second send timeout expires - all with the virtual clock.  Output: per step the sorted set of Notify calls, then the cluster entries and every incident record.
// Format: see /verif/ocaml/drv_notifier.ml.

import (
	"bufio"
	"fmt"
	"os"
	"sort"
	"strconv"
	"strings"
	"testing"
	"text/template"
	"time"

	"github.com/spf13/viper"
	"go.uber.org/zap"

	"github.com/linkedin/Burrow/core/protocol"
)

type vnCall struct {
	module  int
	cluster string
	group   string
	status  int
	id      string
	start   time.Time
	good    bool
}

// vnRecorder is the probe's Module: the lists and the name come from the module Configure() built, Notify records.
type vnRecorder struct {
	*NullNotifier
	index       int
	acceptGroup bool
	calls       *[]vnCall
}

func (m *vnRecorder) AcceptConsumerGroup(status *protocol.ConsumerGroupStatus) bool {
	return m.acceptGroup
}

func (m *vnRecorder) Notify(status *protocol.ConsumerGroupStatus, eventID string, startTime time.Time, stateGood bool) {
	*m.calls = append(*m.calls, vnCall{module: m.index, cluster: status.Cluster, group: status.Group,
		status: int(status.Status), id: eventID, start: startTime, good: stateGood})
}

type vnToks struct {
	f []string
	i int
}

func (t *vnToks) next() string { s := t.f[t.i]; t.i++; return s }
func (t *vnToks) i64() int64 {
	v, err := strconv.ParseInt(t.next(), 10, 64)
	if err != nil {
		panic(err)
	}
	return v
}
func (t *vnToks) int() int   { return int(t.i64()) }
func (t *vnToks) flag() bool { return t.next() == "1" }

func vnTime(x time.Time) string {
	if x.IsZero() {
		return "-"
	}
	return strconv.FormatInt(x.UnixNano(), 10)
}

func vnBit(b bool) byte {
	if b {
		return '1'
	}
	return '0'
}

// vnClone returns a Coordinator that shares every piece of state with nc except the WaitGroup and the storage channel.
func vnClone(nc *Coordinator) *Coordinator {
	c2 := &Coordinator{
		App:               &protocol.ApplicationContext{Logger: nc.App.Logger, StorageChannel: make(chan *protocol.StorageRequest)},
		Log:               nc.Log,
		modules:           nc.modules,
		minInterval:       nc.minInterval,
		groupRefresh:      nc.groupRefresh,
		evaluatorResponse: nc.evaluatorResponse,
		quitChannel:       make(chan struct{}),
		templateParseFunc: nc.templateParseFunc,
		clusters:          nc.clusters,
		clusterLock:       nc.clusterLock,
	}
	c2.notifyModuleFunc = c2.notifyModule
	return c2
}

func vnHistory(t *vnToks) (res string) {
	defer func() {
		if r := recover(); r != nil {
			res = fmt.Sprintf("CRASH %v", r)
		}
	}()
	defer VerifSetClock(0)

	t0 := t.i64()
	nm := t.int()
	viper.Reset()
	acceptGroup := make([]bool, nm)
	for i := 0; i < nm; i++ {
		root := "notifier.m" + strconv.Itoa(i+1)
		viper.Set(root+".class-name", "null")
		viper.Set(root+".template-open", "open")
		viper.Set(root+".template-close", "close")
		if thr := t.next(); thr != "d" {
			v, _ := strconv.Atoi(thr)
			viper.Set(root+".threshold", v)
		}
		if iv := t.next(); iv != "d" {
			v, _ := strconv.ParseInt(iv, 10, 64)
			viper.Set(root+".send-interval", v)
		}
		viper.Set(root+".send-once", t.flag())
		viper.Set(root+".send-close", t.flag())
		acceptGroup[i] = t.flag()
		if a := t.next(); a != "-" {
			viper.Set(root+".group-allowlist", a)
		}
		if d := t.next(); d != "-" {
			viper.Set(root+".group-denylist", d)
		}
	}

	nc := &Coordinator{Log: zap.NewNop()}
	nc.App = &protocol.ApplicationContext{Logger: zap.NewNop()}
	nc.templateParseFunc = func(filenames ...string) (*template.Template, error) {
		return template.New("verif").Parse("")
	}
	nc.Configure()
	if len(nc.modules) != nm {
		return fmt.Sprintf("BADCONFIG %d modules", len(nc.modules))
	}
	var calls []vnCall
	recs := make([]*vnRecorder, nm)
	for i := 0; i < nm; i++ {
		name := "m" + strconv.Itoa(i+1)
		null, ok := nc.modules[name].(*NullNotifier)
		if !ok {
			return "BADCONFIG module " + name
		}
		recs[i] = &vnRecorder{NullNotifier: null, index: i + 1, acceptGroup: acceptGroup[i], calls: &calls}
		nc.modules[name] = recs[i]
	}
	nc.notifyModuleFunc = nc.notifyModule

	// group names; the expected regexp outcomes of the case line are checked against the real regexps
	nn := t.int()
	names := make([]string, nn)
	nameIndex := make(map[string]int)
	rxdiff := ""
	for g := 0; g < nn; g++ {
		names[g] = t.next()
		nameIndex[names[g]] = g
		for i := 0; i < nm; i++ {
			want := t.next()
			al, dl := recs[i].GetGroupAllowlist(), recs[i].GetGroupDenylist()
			got := []byte{vnBit(al != nil), vnBit(al != nil && al.MatchString(names[g])),
				vnBit(dl != nil), vnBit(dl != nil && dl.MatchString(names[g]))}
			// match bits of an unset list are "don't care" in the case line and always 0 there
			if string(got) != want {
				rxdiff += fmt.Sprintf(" RXDIFF m%d g%d %s", i+1, g, got)
			}
		}
	}

	// (cluster, group) pairs the responses refer to.  Nothing is registered by the probe: cluster entries and group
	// records come into being only through the real processClusterList / processConsumerList (steps "c" and "g").
	np := t.int()
	type pair struct{ cluster, group string }
	pairs := make([]pair, np)
	for p := 0; p < np; p++ {
		pairs[p] = pair{"c" + strconv.Itoa(t.int()), names[t.int()]}
	}
	nc.App.StorageChannel = make(chan *protocol.StorageRequest)

	ids := make(map[string]int) // event ids numbered by first appearance in a group's incident record
	idOf := func(s string) string {
		if s == "" {
			return "-"
		}
		if n, ok := ids[s]; ok {
			return strconv.Itoa(n)
		}
		return "?" + s
	}
	groupList := func() (list []string, closed bool) {
		n := t.int()
		if n < 0 {
			return nil, true
		}
		list = make([]string, n)
		for i := 0; i < n; i++ {
			list[i] = names[t.int()]
		}
		return list, false
	}

	ns := t.int()
	clock := t0
	steps := make([]string, 0, ns)
	for s := 0; s < ns; s++ {
		kind := t.next()
		clock += t.i64()
		VerifSetClock(clock)
		calls = calls[:0]
		switch kind {
		case "r":
			p := pairs[t.int()]
			status := t.int()
			response := &protocol.ConsumerGroupStatus{Cluster: p.cluster, Group: p.group, Status: protocol.StatusConstant(status)}
			if _, ok := nc.clusters[p.cluster]; !ok {
				// checkAndSendResponseToModules dereferences the missing cluster entry (nil *clusterGroups) and would take
				// the whole test binary down from its goroutine.  The generators never ask for this (no evaluation is
				// requested for a cluster without entry); the model drops such a response.
				break
			}

			// One turn of the real responseLoop.  The nil response is a barrier: once it has been received the loop has
			// finished the previous iteration (running.Add + go checkAndSendResponseToModules); closing the quit channel
			// then ends the loop and running.Wait() returns when the handler goroutine is done.
			nc.quitChannel = make(chan struct{})
			nc.running.Add(1)
			go nc.responseLoop()
			nc.evaluatorResponse <- response
			nc.evaluatorResponse <- nil
			close(nc.quitChannel)
			nc.running.Wait()

			if cl, ok := nc.clusters[p.cluster]; ok {
				if cg, ok := cl.Groups[p.group]; ok && cg.ID != "" {
					if _, ok := ids[cg.ID]; !ok {
						ids[cg.ID] = len(ids) + 1
					}
				}
			}
		case "g":
			// the real processConsumerList, fed through its reply channel the way the storage module answers
			cluster := "c" + strconv.Itoa(t.int())
			list, closed := groupList()
			reply := make(chan interface{})
			nc.running.Add(1)
			go nc.processConsumerList(cluster, reply)
			if closed {
				close(reply)
			} else {
				select {
				case reply <- list:
				case <-time.After(20 * time.Second):
					panic("verif: processConsumerList did not read its reply channel")
				}
			}
			nc.running.Wait()
		case "c":
			// a whole refresh cycle through the real sendClusterRequest -> processClusterList -> processConsumerList,
			// with the probe in the role of the storage module (as in TestCoordinator_sendClusterRequest)
			n := t.int()
			clusterList := make([]string, n)
			lists := make(map[string][]string)
			closedReply := make(map[string]bool)
			for i := 0; i < n; i++ {
				clusterList[i] = "c" + strconv.Itoa(t.int())
				list, closed := groupList()
				if _, dup := lists[clusterList[i]]; !dup {
					lists[clusterList[i]] = list
					closedReply[clusterList[i]] = closed
				}
			}
			served := make(chan struct{})
			go func() {
				defer close(served)
				request := <-nc.App.StorageChannel
				if request.RequestType != protocol.StorageFetchClusters {
					panic("verif: expected StorageFetchClusters")
				}
				request.Reply <- clusterList
				for i := 0; i < len(lists); i++ {
					request := <-nc.App.StorageChannel
					if request.RequestType != protocol.StorageFetchConsumers {
						panic("verif: expected StorageFetchConsumers")
					}
					if closedReply[request.Cluster] {
						close(request.Reply)
					} else {
						request.Reply <- lists[request.Cluster]
					}
				}
			}()
			nc.sendClusterRequest()
			select {
			case <-served:
			case <-time.After(20 * time.Second):
				panic("verif: the refresh cycle did not send the expected storage requests")
			}
			nc.running.Wait()
		case "s":
			// A refresh whose storage request is not taken off App.StorageChannel within the second that
			// helpers.TimeoutSendStorageRequest waits (real time): n = -1 - the cluster-list request of sendClusterRequest;
			// n >= 0 - the cluster list is answered, then every group-list request of processClusterList.  The request is
			// offered on a channel nobody reads; the goroutine waiting for the reply that never comes stays blocked for ever
			// in the unchanged code (and keeps nc.running above zero), so the history goes on with a second Coordinator
			// that shares all state (modules, clusters map, locks) but has its own WaitGroup and storage channel.
			n := t.int()
			dead := make(chan *protocol.StorageRequest)
			live := nc.App.StorageChannel
			wait := 300 * time.Millisecond
			if n < 0 {
				nc.App.StorageChannel = dead
				nc.sendClusterRequest() // returns when the offer has timed out
			} else {
				clusterList := make([]string, n)
				distinct := make(map[string]bool)
				for i := 0; i < n; i++ {
					clusterList[i] = "c" + strconv.Itoa(t.int())
					distinct[clusterList[i]] = true
				}
				served := make(chan struct{})
				cur := nc
				go func() {
					defer close(served)
					request := <-live
					if request.RequestType != protocol.StorageFetchClusters {
						panic("verif: expected StorageFetchClusters")
					}
					cur.App.StorageChannel = dead // read by processClusterList only after it has received the list
					request.Reply <- clusterList
				}()
				nc.sendClusterRequest()
				select {
				case <-served:
				case <-time.After(20 * time.Second):
					panic("verif: the refresh cycle did not send the expected storage request")
				}
				wait += time.Duration(len(distinct)) * time.Second // processClusterList offers the requests one after the other
			}
			time.Sleep(wait) // whatever the code does when the offer times out has happened by now
			nc = vnClone(nc)
		default:
			panic("verif: unknown step kind " + kind)
		}

		out := make([]string, 0, len(calls))
		for _, c := range calls {
			// a call made while the incident record was already closed again still belongs to the id it carries
			if c.id != "" {
				if _, ok := ids[c.id]; !ok {
					ids[c.id] = len(ids) + 1
				}
			}
			g, ok := nameIndex[c.group]
			gs := strconv.Itoa(g)
			if !ok {
				gs = "?" + c.group
			}
			good := "0"
			if c.good {
				good = "1"
			}
			out = append(out, fmt.Sprintf("m%d:%s:g%s:%d:%s:%s:%s", c.module, c.cluster, gs, c.status, idOf(c.id), vnTime(c.start), good))
		}
		sort.Strings(out)
		if len(out) == 0 {
			steps = append(steps, "-")
		} else {
			steps = append(steps, strings.Join(out, ","))
		}
	}

	// every cluster entry and every record that exists after the last step
	clusterNum := func(c string) int { n, _ := strconv.Atoi(strings.TrimPrefix(c, "c")); return n }
	known := make([]int, 0, len(nc.clusters))
	for c := range nc.clusters {
		known = append(known, clusterNum(c))
	}
	sort.Ints(known)
	final := make([]string, 0, 8)
	ks := make([]string, len(known))
	for i, c := range known {
		ks[i] = strconv.Itoa(c)
	}
	if len(ks) == 0 {
		final = append(final, "K:-")
	} else {
		final = append(final, "K:"+strings.Join(ks, ","))
	}
	for _, c := range known {
		cl := nc.clusters["c"+strconv.Itoa(c)]
		idx := make([]int, 0, len(cl.Groups))
		unknownName := ""
		for g := range cl.Groups {
			if i, ok := nameIndex[g]; ok {
				idx = append(idx, i)
			} else {
				unknownName += " ?" + g
			}
		}
		sort.Ints(idx)
		for _, gi := range idx {
			cg := cl.Groups[names[gi]]
			ln := make([]string, nm)
			for i := 0; i < nm; i++ {
				ln[i] = vnTime(cg.LastNotify["m"+strconv.Itoa(i+1)])
			}
			final = append(final, fmt.Sprintf("c%d/g%d=%s:%s:%s", c, gi, idOf(cg.ID), vnTime(cg.Start), strings.Join(ln, "/")))
		}
		if unknownName != "" {
			final = append(final, fmt.Sprintf("c%d/%s", c, unknownName))
		}
	}
	return strings.Join(steps, " | ") + " || " + strings.Join(final, " ; ") + rxdiff
}

func TestVerifProbeNotifier(t *testing.T) {
	casesPath, outPath := os.Getenv("VERIF_CASES"), os.Getenv("VERIF_OUT")
	if casesPath == "" || outPath == "" {
		t.Skip("VERIF_CASES / VERIF_OUT not set")
	}
	in, err := os.Open(casesPath)
	if err != nil {
		t.Fatal(err)
	}
	defer in.Close()
	outf, err := os.Create(outPath)
	if err != nil {
		t.Fatal(err)
	}
	defer outf.Close()
	w := bufio.NewWriter(outf)
	defer w.Flush()

	sc := bufio.NewScanner(in)
	sc.Buffer(make([]byte, 1<<20), 1<<26)
	for sc.Scan() {
		line := strings.TrimSpace(sc.Text())
		if line == "" {
			continue
		}
		tk := &vnToks{f: strings.Fields(line)}
		switch tk.next() {
		case "hist", "hist0":
			fmt.Fprintln(w, vnHistory(tk))
		default:
			t.Fatalf("unknown case kind in %q", line)
		}
	}
}
