//go:build verif

package cluster

// Correspondence probe for the Coq model Burrow.ClusterMod (C11, C12).  Reads generated scenarios (1..6 consecutive
// refresh cycles with a scripted Sarama client and scripted brokers), runs the real getOffsets on them (the function
// mainLoop calls on every offset tick; it calls maybeUpdateMetadataAndDeleteTopics and generateOffsetRequests itself)
// and prints per cycle: whether metadata was re-read, the fetchMetadata flag afterwards, the blocks of every
// OffsetRequest a broker received, and every StorageRequest sent to App.StorageChannel.
//
// Case:   scn|scnx <ncycles> { <tick> <topics_ok> <k> <topic>*k
//                              <nT> { <topic> <parts_ok> <np> { <pid> <leader|-1> <kerror> <noffs> <off>* } }
//                              <nF> <failing broker>* }
// Output: cycles joined by " | "; a cycle is
//           M<refresh attempted> F<fetchMetadata after> R <b:t:p,..|-> U <t:p:off:count,..|-> D <t,..|->
//         or CRASH (the process died in that cycle).  `scnx` cases (those that may panic inside a goroutine of
//         getOffsets, which no recover can catch) are run in a child process.

import (
	"bufio"
	"errors"
	"fmt"
	"os"
	"os/exec"
	"reflect"
	"sort"
	"strconv"
	"strings"
	"sync"
	"testing"
	"time"

	"github.com/IBM/sarama"
	"go.uber.org/zap"

	"github.com/linkedin/Burrow/core/internal/helpers"
	"github.com/linkedin/Burrow/core/protocol"
)

type vcToks struct {
	f []string
	i int
}

func (t *vcToks) next() string { s := t.f[t.i]; t.i++; return s }
func (t *vcToks) i64() int64 {
	v, err := strconv.ParseInt(t.next(), 10, 64)
	if err != nil {
		panic(err)
	}
	return v
}
func (t *vcToks) int() int { return int(t.i64()) }

type vcProw struct {
	leader int64 // -1: Leader() fails
	kerr   int16
	offs   []int64
}

type vcTrow struct {
	ok    bool
	parts []int32
	rows  map[int32]*vcProw
}

type vcEnv struct {
	tick     bool
	topicsOK bool
	topics   []string
	table    map[string]*vcTrow
	failing  map[int32]bool
}

// mayPanic: some scripted answer has ErrNoError and no offsets (timing hint for the child process only)
func (e *vcEnv) mayPanic() bool {
	for _, row := range e.table {
		for _, pr := range row.rows {
			if pr.kerr == 0 && len(pr.offs) == 0 {
				return true
			}
		}
	}
	return false
}

func vcTopicName(id int64) string { return "t" + strconv.FormatInt(id, 10) }
func vcTopicID(s string) int64 {
	v, err := strconv.ParseInt(strings.TrimPrefix(s, "t"), 10, 64)
	if err != nil {
		return -999
	}
	return v
}

func vcReadEnv(t *vcToks) *vcEnv {
	e := &vcEnv{table: map[string]*vcTrow{}, failing: map[int32]bool{}}
	e.tick = t.int() == 1
	e.topicsOK = t.int() == 1
	for k := t.int(); k > 0; k-- {
		e.topics = append(e.topics, vcTopicName(t.i64()))
	}
	for nT := t.int(); nT > 0; nT-- {
		name := vcTopicName(t.i64())
		row := &vcTrow{rows: map[int32]*vcProw{}}
		row.ok = t.int() == 1
		for np := t.int(); np > 0; np-- {
			p := int32(t.i64())
			pr := &vcProw{}
			pr.leader = t.i64()
			pr.kerr = int16(t.i64())
			for no := t.int(); no > 0; no-- {
				pr.offs = append(pr.offs, t.i64())
			}
			row.parts = append(row.parts, p)
			if _, dup := row.rows[p]; !dup { // first row wins, as in the model's find_prow
				row.rows[p] = pr
			}
		}
		if _, dup := e.table[name]; !dup {
			e.table[name] = row
		}
	}
	for nF := t.int(); nF > 0; nF-- {
		e.failing[int32(t.i64())] = true
	}
	return e
}

// ---- scripted Sarama client and brokers ------------------------------------------------------

type vcAsk struct {
	broker, part int32
	topic        int64
	bad          bool // block does not ask for (OffsetNewest, 1)
}

type vcWorld struct {
	mu          sync.Mutex
	env         *vcEnv
	asks        []vcAsk
	topicsCalls int
	brokers     map[int32]*vcBroker
}

// Only the methods the module calls are implemented; any other call hits the nil embedded interface and panics.
type vcClient struct {
	helpers.SaramaClient
	w *vcWorld
}

func (c *vcClient) RefreshMetadata(topics ...string) error { return nil }

func (c *vcClient) Topics() ([]string, error) {
	c.w.mu.Lock()
	defer c.w.mu.Unlock()
	c.w.topicsCalls++
	if !c.w.env.topicsOK {
		return nil, errors.New("scripted: topic list failure")
	}
	return append([]string(nil), c.w.env.topics...), nil
}

func (c *vcClient) Partitions(topic string) ([]int32, error) {
	row, ok := c.w.env.table[topic]
	if !ok || !row.ok {
		return nil, errors.New("scripted: partition list failure")
	}
	return append([]int32(nil), row.parts...), nil
}

func (c *vcClient) Leader(topic string, partitionID int32) (helpers.SaramaBroker, error) {
	row, ok := c.w.env.table[topic]
	if ok {
		if pr, ok := row.rows[partitionID]; ok && pr.leader >= 0 {
			c.w.mu.Lock()
			defer c.w.mu.Unlock()
			id := int32(pr.leader)
			b, ok := c.w.brokers[id]
			if !ok {
				b = &vcBroker{id: id, w: c.w}
				c.w.brokers[id] = b
			}
			return b, nil
		}
	}
	var nilBroker *vcBroker
	return nilBroker, errors.New("scripted: no leader")
}

type vcBroker struct {
	id int32
	w  *vcWorld
}

func (b *vcBroker) ID() int32    { return b.id }
func (b *vcBroker) Close() error { return nil }

// GetAvailableOffsets records the blocks of the request (read by reflection: sarama keeps them unexported) and
// answers exactly the blocks asked, from the script.
func (b *vcBroker) GetAvailableOffsets(request *sarama.OffsetRequest) (*sarama.OffsetResponse, error) {
	b.w.mu.Lock()
	defer b.w.mu.Unlock()
	type tp struct {
		topic string
		part  int32
	}
	var asked []tp
	blocks := reflect.ValueOf(request).Elem().FieldByName("blocks")
	if !blocks.IsValid() || blocks.Kind() != reflect.Map {
		b.w.asks = append(b.w.asks, vcAsk{broker: b.id, topic: -998, bad: true})
		return nil, errors.New("probe: cannot read request blocks")
	}
	for _, tk := range blocks.MapKeys() {
		inner := blocks.MapIndex(tk)
		for _, pk := range inner.MapKeys() {
			blk := inner.MapIndex(pk).Elem()
			bad := false
			if f := blk.FieldByName("timestamp"); f.IsValid() && f.Int() != sarama.OffsetNewest {
				bad = true
			}
			if f := blk.FieldByName("maxNumOffsets"); f.IsValid() && f.Int() != 1 {
				bad = true
			}
			asked = append(asked, tp{tk.String(), int32(pk.Int())})
			b.w.asks = append(b.w.asks, vcAsk{broker: b.id, topic: vcTopicID(tk.String()), part: int32(pk.Int()), bad: bad})
		}
	}
	if b.w.env.failing[b.id] {
		var nilResp *sarama.OffsetResponse
		return nilResp, errors.New("scripted: broker call failure")
	}
	resp := &sarama.OffsetResponse{Version: request.Version, Blocks: map[string]map[int32]*sarama.OffsetResponseBlock{}}
	for _, a := range asked {
		blk := &sarama.OffsetResponseBlock{Err: sarama.ErrUnknownTopicOrPartition}
		if row, ok := b.w.env.table[a.topic]; ok {
			if pr, ok := row.rows[a.part]; ok {
				blk = &sarama.OffsetResponseBlock{Err: sarama.KError(pr.kerr), Offsets: append([]int64(nil), pr.offs...)}
				if len(pr.offs) > 0 {
					blk.Offset = pr.offs[0]
				}
			}
		}
		if resp.Blocks[a.topic] == nil {
			resp.Blocks[a.topic] = map[int32]*sarama.OffsetResponseBlock{}
		}
		resp.Blocks[a.topic][a.part] = blk
	}
	return resp, nil
}

// ---- one scenario -------------------------------------------------------------------------------

func vcCsv(items [][]int64) string {
	if len(items) == 0 {
		return "-"
	}
	sort.Slice(items, func(i, j int) bool {
		a, b := items[i], items[j]
		for k := 0; k < len(a) && k < len(b); k++ {
			if a[k] != b[k] {
				return a[k] < b[k]
			}
		}
		return len(a) < len(b)
	})
	parts := make([]string, len(items))
	for i, it := range items {
		fs := make([]string, len(it))
		for k, v := range it {
			fs[k] = strconv.FormatInt(v, 10)
		}
		parts[i] = strings.Join(fs, ":")
	}
	return strings.Join(parts, ",")
}

func vcB01(b bool) string {
	if b {
		return "1"
	}
	return "0"
}

// vcScenario runs the cycles on a fresh module; emit is called with each finished cycle's text.
func vcScenario(t *vcToks, child bool, emit func(string)) {
	n := t.int()
	envs := make([]*vcEnv, n)
	for i := range envs {
		envs[i] = vcReadEnv(t)
	}
	module := &KafkaCluster{Log: zap.NewNop(), name: "verifcluster"}
	module.App = &protocol.ApplicationContext{
		Logger:         zap.NewNop(),
		StorageChannel: make(chan *protocol.StorageRequest, 4096),
	}
	module.fetchMetadata = true // as Start() does before the first getOffsets
	w := &vcWorld{brokers: map[int32]*vcBroker{}}
	client := &vcClient{w: w}
	for _, e := range envs {
		w.env = e
		w.asks = nil
		w.topicsCalls = 0
		if e.tick {
			module.fetchMetadata = true // case <-module.metadataTicker.C
		}
		module.getOffsets(client) // case <-module.offsetTicker.C
		if child && e.mayPanic() {
			// A panicking goroutine of getOffsets runs its deferred wg.Done() before the runtime kills the process, so
			// getOffsets may return here while the process is dying: wait for the death before reporting the cycle.
			time.Sleep(150 * time.Millisecond)
		}
		var ups, dels, asks [][]int64
		other := 0
	drain:
		for {
			select {
			case r := <-module.App.StorageChannel:
				switch {
				case r.Cluster != "verifcluster":
					other++
				case r.RequestType == protocol.StorageSetBrokerOffset:
					ups = append(ups, []int64{vcTopicID(r.Topic), int64(r.Partition), r.Offset, int64(r.TopicPartitionCount)})
				case r.RequestType == protocol.StorageSetDeleteTopic:
					dels = append(dels, []int64{vcTopicID(r.Topic)})
				default:
					other++
				}
			default:
				break drain
			}
		}
		bad := 0
		for _, a := range w.asks {
			asks = append(asks, []int64{int64(a.broker), a.topic, int64(a.part)})
			if a.bad {
				bad++
			}
		}
		s := fmt.Sprintf("M%s F%s R %s U %s D %s", vcB01(w.topicsCalls > 0), vcB01(module.fetchMetadata), vcCsv(asks), vcCsv(ups), vcCsv(dels))
		if other > 0 || bad > 0 || w.topicsCalls > 1 {
			s += fmt.Sprintf(" X other=%d badblocks=%d topicscalls=%d", other, bad, w.topicsCalls)
		}
		emit(s)
	}
}

func TestVerifProbeCluster(t *testing.T) {
	casesPath, outPath := os.Getenv("VERIF_CASES"), os.Getenv("VERIF_OUT")
	if casesPath == "" || outPath == "" {
		t.Skip("VERIF_CASES / VERIF_OUT not set")
	}
	in, err := os.Open(casesPath)
	if err != nil {
		t.Fatal(err)
	}
	defer in.Close()
	outf, err := os.Create(outPath)
	if err != nil {
		t.Fatal(err)
	}
	defer outf.Close()
	w := bufio.NewWriter(outf)
	defer w.Flush()
	child := os.Getenv("VERIF_CLUSTER_CHILD") == "1"

	sc := bufio.NewScanner(in)
	sc.Buffer(make([]byte, 1<<20), 1<<26)
	caseNo := 0
	for sc.Scan() {
		line := strings.TrimSpace(sc.Text())
		if line == "" {
			continue
		}
		caseNo++
		tk := &vcToks{f: strings.Fields(line)}
		kind := tk.next()
		switch {
		case kind == "scn" || (kind == "scnx" && child):
			first := true
			vcScenario(tk, child, func(s string) {
				if !first {
					w.WriteString(" | ")
				}
				first = false
				w.WriteString(s)
				if child {
					w.Flush() // what was finished before a crash must be on disk
				}
			})
			w.WriteString("\n")
		case kind == "scnx":
			w.WriteString(vcRunChild(t, line, caseNo) + "\n")
		default:
			t.Fatalf("unknown case kind in %q", line)
		}
	}
}

// vcRunChild runs one scenario in a child process (this test binary again).  A panic in a goroutine of getOffsets
// kills the child; the cycles it finished are kept and the dying cycle is reported as CRASH.
func vcRunChild(t *testing.T, line string, caseNo int) string {
	dir, err := os.MkdirTemp("", "verifcluster")
	if err != nil {
		t.Fatal(err)
	}
	defer os.RemoveAll(dir)
	cpath, opath := dir+"/case.txt", dir+"/out.txt"
	if err := os.WriteFile(cpath, []byte(line+"\n"), 0o644); err != nil {
		t.Fatal(err)
	}
	cmd := exec.Command(os.Args[0], "-test.run", "^TestVerifProbeCluster$", "-test.count=1", "-test.timeout", "60s")
	cmd.Env = append(os.Environ(), "VERIF_CASES="+cpath, "VERIF_OUT="+opath, "VERIF_CLUSTER_CHILD=1")
	runErr := cmd.Run()
	data, _ := os.ReadFile(opath)
	out := strings.TrimRight(string(data), "\n")
	if runErr == nil {
		return out
	}
	if out == "" {
		return "CRASH"
	}
	return out + " | CRASH"
}
