//go:build verif

package cluster

// Correspondence probe for the Coq model Burrow.ClusterMod (C11, C12).  Reads generated scenarios (1..6 consecutive
// refresh cycles of one Kafka cluster module), runs the real module on them and prints per cycle: whether metadata was
// re-read, the fetchMetadata flag afterwards, the blocks of every OffsetRequest a broker received, and every
// StorageRequest the STORAGE SIDE RECEIVED from App.StorageChannel.
//
// How a scenario is run (one engine for all kinds):
//   * the module is configured by the real Configure (viper: cluster + client-profile with the case's kafka-version),
//     so name, saramaConfig (Version!) and the refresh settings are what production code has;
//   * cycle 0 is what Start() does (fetchMetadata = true; getOffsets(client)); every later cycle goes through the real
//     mainLoop: scripted tickers (time.Ticker{C: chan}) deliver a metadata tick (if the case says so) and an offset tick;
//     a groups-reaper tick is the barrier (mainLoop takes it only after getOffsets has returned);
//   * the storage side is a goroutine reading App.StorageChannel.  Kinds scn/scnx/sc2/sc2x use a buffered channel
//     (4096); kind sc2s uses an UNBUFFERED channel and a scripted reader: `sd` = the reader takes nothing for 1.5 s
//     from the start of the cycle (or until the first broker is asked), `su` = the reader takes nothing from the moment
//     the first broker is asked until getOffsets has returned (every TimeoutSendStorageRequest(…, 1) of the cycle runs
//     into its timeout).  sc2s scenarios run in parallel (they mostly sleep);
//   * the client is scripted (vcClient / vcBroker).  The scripted broker answers like a real broker behind sarama for
//     the request version it receives: a version the configured kafka-version does not have is refused
//     (ErrUnsupportedVersion, as sarama's Broker.send does), a v0 answer has only Offsets (at most maxNumOffsets),
//     a v1+ answer has Offset/Timestamp and Offsets = [Offset] (what sarama's decoder leaves);
//   * kind sc2w: the client is the real helpers.BurrowSaramaClient on a real sarama.Client talking the wire protocol
//     to sarama.MockBroker instances programmed from the script (restricted scripts: see checks/clustergen.py).
//     In this kind the <sd> slot holds <mv>: the id of a broker that, before the cycle, goes away at its address and
//     re-registers under a new one (a new MockBroker; the metadata answer announces the id there; the old listener is
//     closed) -- only the listener that holds the id NOW counts as "asked".  rp = 1: after the cycle the real
//     reapNonExistingGroups runs with the real ListConsumerGroups (sarama cluster admin on the module's only client,
//     MockListGroupsResponse); the cycles after it must still ask and record.
//
// Case:   scn|scnx <ncycles> { <cycle> }                                    (kafka-version unset, no storage script)
//         sc2|sc2x|sc2s|sc2w <kafka-version index> <ncycles> { <sd> <su> <rp> <rm> <cycle> }
//         <cycle> = <tick> <topics_ok> <k> <topic>*k
//                   <nT> { <topic> <parts_ok> <np> { <pid> <leader|-1> <kerror> <noffs> <off>* } }
//                   <nF> <failing broker>*
//         rp: the reaper tick after the cycle finds a working ListConsumerGroups; rm: RefreshMetadata returns an error
//         sc3|sc3x: as sc2 with partition rows { <pid> <leader at refresh|-1> <leader in generateOffsetRequests|-1> <omit>
//                   <kerror> <noffs> <off>* } and, after the failing brokers, <nX> { <broker> <topic> <pid> <kerror> <noffs>
//                   <off>* }: Leader may answer differently at its two call sites of a cycle (the scripted client counts
//                   the Leader calls the refresh makes: one per listed partition up to the first failing Partitions), a
//                   broker may omit an asked block and add blocks nobody asked for (ClusterMod.xenv).
// Output: cycles joined by " | "; a cycle is
//           M<refresh attempted> F<fetchMetadata after> R <b:t:p,..|-> U <t:p:off:count,..|-> D <t,..|-> [X anomalies]
//         or CRASH (the process died in that cycle) or HANG (the module did not take a tick within 45 s).
//         x-kinds (may panic inside a goroutine of getOffsets, which no recover can catch) run in a child process.

import (
	"bufio"
	"errors"
	"fmt"
	"os"
	"os/exec"
	"reflect"
	"sort"
	"strconv"
	"strings"
	"sync"
	"testing"
	"time"

	"github.com/IBM/sarama"
	"github.com/spf13/viper"
	"go.uber.org/zap"

	"github.com/linkedin/Burrow/core/internal/helpers"
	"github.com/linkedin/Burrow/core/protocol"
)

// legal client-profile kafka-version strings (helpers.parseKafkaVersion); index 0 = not configured (default)
var vcKafkaVersions = []string{"", "0.8", "0.8.2", "0.8.2.2", "0.9", "0.9.0.1", "0.10", "0.10.0.1", "0.10.1", "0.10.1.0",
	"0.10.2.1", "0.11.0.2", "1.0.0", "1.1.1", "2.0.0", "2.1.0", "2.4.0", "2.8.0", "3.6.0"}

type vcToks struct {
	f []string
	i int
}

func (t *vcToks) next() string { s := t.f[t.i]; t.i++; return s }
func (t *vcToks) i64() int64 {
	v, err := strconv.ParseInt(t.next(), 10, 64)
	if err != nil {
		panic(err)
	}
	return v
}
func (t *vcToks) int() int { return int(t.i64()) }

type vcProw struct {
	leader    int64 // -1: Leader() fails (during the refresh)
	leaderReq int64 // the same in generateOffsetRequests (sc3: may differ)
	omit      bool  // the broker's response lacks this block although it was asked
	kerr      int16
	offs      []int64
}

type vcExtra struct {
	broker int32
	topic  string
	part   int32
	kerr   int16
	offs   []int64
}

type vcTrow struct {
	ok    bool
	parts []int32
	rows  map[int32]*vcProw
}

type vcEnv struct {
	sd, su, rp, rm bool
	mv             int32
	tick           bool
	topicsOK       bool
	topics         []string
	table          map[string]*vcTrow
	failing        map[int32]bool
	extras         []vcExtra
}

// mayPanic: some scripted answer has ErrNoError and no offsets (timing hint for the child process only)
func (e *vcEnv) mayPanic() bool {
	for _, row := range e.table {
		for _, pr := range row.rows {
			if pr.kerr == 0 && len(pr.offs) == 0 {
				return true
			}
		}
	}
	for _, x := range e.extras {
		if x.kerr == 0 && len(x.offs) == 0 {
			return true
		}
	}
	return false
}

func vcTopicName(id int64) string { return "t" + strconv.FormatInt(id, 10) }
func vcTopicID(s string) int64 {
	v, err := strconv.ParseInt(strings.TrimPrefix(s, "t"), 10, 64)
	if err != nil {
		return -999
	}
	return v
}

func vcReadEnv(t *vcToks, format int) *vcEnv {
	scripted := format >= 2
	e := &vcEnv{table: map[string]*vcTrow{}, failing: map[int32]bool{}}
	if scripted {
		sdv := t.int() // sc2w: the id of a broker that re-registers under a new address before this cycle (0: none)
		e.sd = sdv == 1
		e.mv = int32(sdv)
		e.su = t.int() == 1
		e.rp = t.int() == 1
		e.rm = t.int() == 1
	}
	e.tick = t.int() == 1
	e.topicsOK = t.int() == 1
	for k := t.int(); k > 0; k-- {
		e.topics = append(e.topics, vcTopicName(t.i64()))
	}
	for nT := t.int(); nT > 0; nT-- {
		name := vcTopicName(t.i64())
		row := &vcTrow{rows: map[int32]*vcProw{}}
		row.ok = t.int() == 1
		for np := t.int(); np > 0; np-- {
			p := int32(t.i64())
			pr := &vcProw{}
			pr.leader = t.i64()
			pr.leaderReq = pr.leader
			if format >= 3 {
				pr.leaderReq = t.i64()
				pr.omit = t.int() == 1
			}
			pr.kerr = int16(t.i64())
			for no := t.int(); no > 0; no-- {
				pr.offs = append(pr.offs, t.i64())
			}
			row.parts = append(row.parts, p)
			if _, dup := row.rows[p]; !dup { // first row wins, as in the model's find_prow
				row.rows[p] = pr
			}
		}
		if _, dup := e.table[name]; !dup {
			e.table[name] = row
		}
	}
	for nF := t.int(); nF > 0; nF-- {
		e.failing[int32(t.i64())] = true
	}
	if format >= 3 {
		for nX := t.int(); nX > 0; nX-- {
			x := vcExtra{broker: int32(t.i64())}
			x.topic = vcTopicName(t.i64())
			x.part = int32(t.i64())
			x.kerr = int16(t.i64())
			for no := t.int(); no > 0; no-- {
				x.offs = append(x.offs, t.i64())
			}
			e.extras = append(e.extras, x)
		}
	}
	return e
}

// ---- the storage side --------------------------------------------------------------------------

const (
	vcOpBegin  = iota // a cycle begins: sd / su of the cycle
	vcOpPhase         // the first broker is being asked: deletions are over, broker-offset updates may follow
	vcOpResume        // getOffsets has returned: read again
	vcOpEnd           // hand over what was received in the cycle
)

type vcRec struct {
	ups, dels  [][]int64
	groups     []string // StorageSetDeleteGroup
	fetches    int      // StorageFetchConsumers
	other      int
	replyStuck int
}

type vcCtl struct {
	op     int
	sd, su bool
	reply  chan vcRec
}

type vcStore struct {
	ch   chan *protocol.StorageRequest
	ctl  chan vcCtl
	name string
}

func (s *vcStore) call(op int, sd, su bool) vcRec {
	c := vcCtl{op: op, sd: sd, su: su, reply: make(chan vcRec, 1)}
	s.ctl <- c
	return <-c.reply
}

func (s *vcStore) record(rec *vcRec, r *protocol.StorageRequest) {
	switch {
	case r.Cluster != s.name:
		rec.other++
	case r.RequestType == protocol.StorageSetBrokerOffset:
		rec.ups = append(rec.ups, []int64{vcTopicID(r.Topic), int64(r.Partition), r.Offset, int64(r.TopicPartitionCount)})
	case r.RequestType == protocol.StorageSetDeleteTopic:
		rec.dels = append(rec.dels, []int64{vcTopicID(r.Topic)})
	case r.RequestType == protocol.StorageSetDeleteGroup:
		rec.groups = append(rec.groups, r.Group)
	case r.RequestType == protocol.StorageFetchConsumers && r.Reply != nil:
		rec.fetches++
		select {
		case r.Reply <- []string{"g1", "g2", "burrow-" + s.name}:
		case <-time.After(5 * time.Second):
			rec.replyStuck++
		}
	default:
		rec.other++
	}
}

// loop is the storage module as far as the cluster module can tell: somebody who takes requests from the channel,
// promptly or (scripted) not.
func (s *vcStore) loop() {
	var rec vcRec
	in := s.ch
	su := false
	var wake <-chan time.Time
	for {
		select {
		case r := <-in:
			s.record(&rec, r)
		case <-wake:
			wake = nil
			in = s.ch
		case c, ok := <-s.ctl:
			if !ok {
				return
			}
			switch c.op {
			case vcOpBegin:
				su = c.su
				in, wake = s.ch, nil
				if c.sd {
					in, wake = nil, time.After(1500*time.Millisecond)
				}
			case vcOpPhase:
				in, wake = s.ch, nil
				if su {
					// nobody home while the brokers' answers are turned into requests; the watchdog ends the stall if the
					// module is still offering requests after 10 s (HEAD gives up after 1 s per request)
					in, wake = nil, time.After(10*time.Second)
				}
			case vcOpResume:
				in, wake, su = s.ch, nil, false
			case vcOpEnd:
				in, wake, su = s.ch, nil, false
			drain:
				for {
					select {
					case r := <-s.ch:
						s.record(&rec, r)
					default:
						break drain
					}
				}
				c.reply <- rec
				rec = vcRec{}
				continue
			}
			c.reply <- vcRec{}
		}
	}
}

// ---- scripted Sarama client and brokers ------------------------------------------------------

type vcAsk struct {
	broker, part int32
	topic        int64
	bad          bool // block does not ask for OffsetNewest
}

type vcWorld struct {
	mu          sync.Mutex
	env         *vcEnv
	asks        []vcAsk
	topicsCalls int
	lcgTokens   int // how many of the next ListConsumerGroups calls succeed
	refreshLeft int // Leader calls still to come from the running refresh (set by Topics())
	phase       *sync.Once
	store       *vcStore
	cfg         *sarama.Config
	brokers     map[int32]*vcBroker
}

func (w *vcWorld) begin(e *vcEnv) {
	w.mu.Lock()
	defer w.mu.Unlock()
	w.env = e
	w.asks = nil
	w.topicsCalls = 0
	w.lcgTokens = 0
	w.refreshLeft = 0
	w.phase = new(sync.Once)
}

func (w *vcWorld) setLcg(tokens int) {
	w.mu.Lock()
	w.lcgTokens = tokens
	w.mu.Unlock()
}

// Only the methods the module calls are implemented; any other call hits the nil embedded interface and panics.
type vcClient struct {
	helpers.SaramaClient
	w *vcWorld
}

func (c *vcClient) RefreshMetadata(topics ...string) error {
	if c.w.env.rm {
		return errors.New("scripted: metadata refresh failure")
	}
	return nil
}

func (c *vcClient) Topics() ([]string, error) {
	c.w.mu.Lock()
	defer c.w.mu.Unlock()
	c.w.topicsCalls++
	c.w.refreshLeft = 0
	if !c.w.env.topicsOK {
		return nil, errors.New("scripted: topic list failure")
	}
	// the refresh asks Leader once per listed partition, topic by topic, and gives up at the first failing Partitions
	for _, name := range c.w.env.topics {
		row, ok := c.w.env.table[name]
		if !ok || !row.ok {
			break
		}
		c.w.refreshLeft += len(row.parts)
	}
	return append([]string(nil), c.w.env.topics...), nil
}

func (c *vcClient) Partitions(topic string) ([]int32, error) {
	row, ok := c.w.env.table[topic]
	if !ok || !row.ok {
		return nil, errors.New("scripted: partition list failure")
	}
	return append([]int32(nil), row.parts...), nil
}

func (c *vcClient) Leader(topic string, partitionID int32) (helpers.SaramaBroker, error) {
	c.w.mu.Lock()
	defer c.w.mu.Unlock()
	atRefresh := c.w.refreshLeft > 0
	if atRefresh {
		c.w.refreshLeft--
	}
	row, ok := c.w.env.table[topic]
	if ok {
		if pr, ok := row.rows[partitionID]; ok {
			ld := pr.leaderReq
			if atRefresh {
				ld = pr.leader
			}
			if ld < 0 {
				var nilBroker *vcBroker
				return nilBroker, errors.New("scripted: no leader")
			}
			id := int32(ld)
			b, ok := c.w.brokers[id]
			if !ok {
				b = &vcBroker{id: id, w: c.w}
				c.w.brokers[id] = b
			}
			return b, nil
		}
	}
	var nilBroker *vcBroker
	return nilBroker, errors.New("scripted: no leader")
}

func (c *vcClient) ListConsumerGroups() (map[string]string, error) {
	c.w.mu.Lock()
	defer c.w.mu.Unlock()
	if c.w.lcgTokens <= 0 {
		return nil, errors.New("scripted: consumer group list failure")
	}
	c.w.lcgTokens--
	return map[string]string{"g1": "consumer"}, nil
}

type vcBroker struct {
	id int32
	w  *vcWorld
}

func (b *vcBroker) ID() int32    { return b.id }
func (b *vcBroker) Close() error { return nil }

// what sarama's OffsetRequest.requiredVersion says
func vcRequiredVersion(v int16) sarama.KafkaVersion {
	switch v {
	case 0:
		return sarama.V0_8_2_0
	case 1:
		return sarama.V0_10_1_0
	case 2:
		return sarama.V0_11_0_0
	case 3:
		return sarama.V2_0_0_0
	case 4:
		return sarama.V2_1_0_0
	}
	return sarama.V2_0_0_0
}

type vcBlockAsk struct {
	topic string
	part  int32
	maxN  int64
	bad   bool
}

// vcRequestBlocks reads the blocks of a request (by reflection: sarama keeps them unexported)
func vcRequestBlocks(request *sarama.OffsetRequest) ([]vcBlockAsk, bool) {
	var asked []vcBlockAsk
	blocks := reflect.ValueOf(request).Elem().FieldByName("blocks")
	if !blocks.IsValid() || blocks.Kind() != reflect.Map {
		return nil, false
	}
	for _, tk := range blocks.MapKeys() {
		inner := blocks.MapIndex(tk)
		for _, pk := range inner.MapKeys() {
			blk := inner.MapIndex(pk).Elem()
			a := vcBlockAsk{topic: tk.String(), part: int32(pk.Int()), maxN: 1}
			if f := blk.FieldByName("timestamp"); f.IsValid() && f.Int() != sarama.OffsetNewest {
				a.bad = true // not the end offset
			}
			if f := blk.FieldByName("maxNumOffsets"); f.IsValid() {
				a.maxN = f.Int()
			}
			asked = append(asked, a)
		}
	}
	return asked, true
}

// vcAnswerBlock: the response block as the module sees it after sarama decoded a real broker's answer of that version
func vcAnswerBlock(version int16, maxN int64, kerr int16, offs []int64) *sarama.OffsetResponseBlock {
	blk := &sarama.OffsetResponseBlock{Err: sarama.KError(kerr)}
	if version == 0 {
		n := int64(len(offs))
		if maxN < n {
			n = maxN
		}
		if n < 0 {
			n = 0
		}
		blk.Offsets = append([]int64{}, offs[:n]...)
		return blk
	}
	off := int64(-1)
	if len(offs) > 0 {
		off = offs[0]
	}
	blk.Offset = off
	blk.Timestamp = -1
	blk.Offsets = []int64{off}
	return blk
}

// GetAvailableOffsets records the blocks of the request and answers exactly the blocks asked, from the script.
func (b *vcBroker) GetAvailableOffsets(request *sarama.OffsetRequest) (*sarama.OffsetResponse, error) {
	b.w.mu.Lock()
	once := b.w.phase
	b.w.mu.Unlock()
	// the storage reader is told, and has acknowledged, that deletions are over before any broker answers
	once.Do(func() { b.w.store.call(vcOpPhase, false, false) })

	b.w.mu.Lock()
	defer b.w.mu.Unlock()
	asked, ok := vcRequestBlocks(request)
	if !ok {
		b.w.asks = append(b.w.asks, vcAsk{broker: b.id, topic: -998, bad: true})
		return nil, errors.New("probe: cannot read request blocks")
	}
	for _, a := range asked {
		b.w.asks = append(b.w.asks, vcAsk{broker: b.id, topic: vcTopicID(a.topic), part: a.part, bad: a.bad})
	}
	var nilResp *sarama.OffsetResponse
	if b.w.cfg != nil && !b.w.cfg.Version.IsAtLeast(vcRequiredVersion(request.Version)) {
		return nilResp, sarama.ErrUnsupportedVersion // sarama's Broker.send refuses the request before any I/O
	}
	if b.w.env.failing[b.id] {
		return nilResp, errors.New("scripted: broker call failure")
	}
	resp := &sarama.OffsetResponse{Blocks: map[string]map[int32]*sarama.OffsetResponseBlock{}}
	put := func(topic string, part int32, blk *sarama.OffsetResponseBlock) {
		if resp.Blocks[topic] == nil {
			resp.Blocks[topic] = map[int32]*sarama.OffsetResponseBlock{}
		}
		resp.Blocks[topic][part] = blk
	}
	type key struct {
		topic string
		part  int32
	}
	askedKeys := map[key]bool{}
	for _, a := range asked {
		askedKeys[key{a.topic, a.part}] = true
		blk := vcAnswerBlock(request.Version, a.maxN, int16(sarama.ErrUnknownTopicOrPartition), nil)
		if row, ok := b.w.env.table[a.topic]; ok {
			if pr, ok := row.rows[a.part]; ok {
				if pr.omit {
					continue // the response lacks the block
				}
				blk = vcAnswerBlock(request.Version, a.maxN, pr.kerr, pr.offs)
			}
		}
		put(a.topic, a.part, blk)
	}
	for _, x := range b.w.env.extras {
		if x.broker == b.id && !askedKeys[key{x.topic, x.part}] {
			put(x.topic, x.part, vcAnswerBlock(request.Version, 1, x.kerr, x.offs)) // a block nobody asked for
		}
	}
	return resp, nil
}

// ---- one scenario -------------------------------------------------------------------------------

func vcCsv(items [][]int64) string {
	if len(items) == 0 {
		return "-"
	}
	sort.Slice(items, func(i, j int) bool {
		a, b := items[i], items[j]
		for k := 0; k < len(a) && k < len(b); k++ {
			if a[k] != b[k] {
				return a[k] < b[k]
			}
		}
		return len(a) < len(b)
	})
	parts := make([]string, len(items))
	for i, it := range items {
		fs := make([]string, len(it))
		for k, v := range it {
			fs[k] = strconv.FormatInt(v, 10)
		}
		parts[i] = strings.Join(fs, ":")
	}
	return strings.Join(parts, ",")
}

func vcB01(b bool) string {
	if b {
		return "1"
	}
	return "0"
}

type vcScn struct {
	idx    int
	kind   string
	kv     int
	envs   []*vcEnv
	module *KafkaCluster
	out    []string
}

var vcConfigOnce sync.Once

// vcSetupConfig: one client-profile and one cluster section per kafka-version of the table
func vcSetupConfig() {
	viper.Reset()
	for i, v := range vcKafkaVersions {
		prof := "kv" + strconv.Itoa(i)
		viper.Set("client-profile."+prof+".client-id", "verif")
		if v != "" {
			viper.Set("client-profile."+prof+".kafka-version", v)
		}
		viper.Set("cluster."+prof+".class-name", "kafka")
		viper.Set("cluster."+prof+".servers", []string{"broker1.example.com:9092"})
		viper.Set("cluster."+prof+".client-profile", prof)
	}
}

// vcParse reads a case line and configures the module (real Configure; viper is global, so this is done serially)
func vcParse(line string, caseNo int) *vcScn {
	tk := &vcToks{f: strings.Fields(line)}
	sc := &vcScn{kind: tk.next()}
	format := 1
	switch {
	case strings.HasPrefix(sc.kind, "sc2"):
		format = 2
	case strings.HasPrefix(sc.kind, "sc3"):
		format = 3
	case sc.kind != "scn" && sc.kind != "scnx":
		panic("unknown case kind in " + line)
	}
	scripted := format >= 2
	if scripted {
		sc.kv = tk.int()
		if sc.kv < 0 || sc.kv >= len(vcKafkaVersions) {
			panic("kafka-version index out of range in " + line)
		}
	}
	n := tk.int()
	for i := 0; i < n; i++ {
		sc.envs = append(sc.envs, vcReadEnv(tk, format))
	}
	if tk.i != len(tk.f) {
		panic("trailing tokens in " + line)
	}
	vcConfigOnce.Do(vcSetupConfig)
	capacity := 4096
	if sc.kind == "sc2s" {
		capacity = 0
	}
	sc.module = &KafkaCluster{Log: zap.NewNop()}
	sc.module.App = &protocol.ApplicationContext{
		Logger:         zap.NewNop(),
		StorageChannel: make(chan *protocol.StorageRequest, capacity),
	}
	sc.module.Configure("verifcluster"+strconv.Itoa(caseNo), "cluster.kv"+strconv.Itoa(sc.kv))
	return sc
}

func vcTick(ch chan time.Time) bool {
	select {
	case ch <- time.Now():
		return true
	case <-time.After(45 * time.Second):
		return false
	}
}

// run executes the cycles; emit is called with each finished cycle's text.
func (sc *vcScn) run(child bool, emit func(string)) {
	if sc.kind == "sc2w" {
		sc.runWire(emit)
		return
	}
	module := sc.module
	w := &vcWorld{brokers: map[int32]*vcBroker{}, cfg: module.saramaConfig}
	st := &vcStore{ch: module.App.StorageChannel, ctl: make(chan vcCtl), name: module.name}
	w.store = st
	go st.loop()
	defer close(st.ctl)
	client := &vcClient{w: w}
	var offC, metaC, reapC chan time.Time
	started := false
	for i, e := range sc.envs {
		w.begin(e)
		st.call(vcOpBegin, e.sd, e.su)
		rp := false
		if i == 0 {
			// Start(): module.fetchMetadata = true; module.getOffsets(helperClient)
			module.fetchMetadata = true
			module.getOffsets(client)
		} else {
			if !started {
				// Start(): tickers, then go module.mainLoop(helperClient).  The tickers are scripted.
				offC, metaC, reapC = make(chan time.Time), make(chan time.Time), make(chan time.Time)
				module.offsetTicker = &time.Ticker{C: offC}
				module.metadataTicker = &time.Ticker{C: metaC}
				module.groupsReaperTicker = &time.Ticker{C: reapC}
				go module.mainLoop(client)
				started = true
			}
			rp = e.rp
			ok := true
			if e.tick {
				ok = vcTick(metaC)
			}
			ok = ok && vcTick(offC)
			if rp {
				w.setLcg(1) // the reaper run of the barrier tick finds a working ListConsumerGroups, the next one does not
			}
			ok = ok && vcTick(reapC) // taken by mainLoop only after getOffsets has returned
			if !ok {
				emit("HANG")
				return
			}
		}
		if child && e.mayPanic() {
			// A panicking goroutine of getOffsets runs its deferred wg.Done() before the runtime kills the process, so
			// getOffsets may return here while the process is dying: wait for the death before reporting the cycle.
			time.Sleep(150 * time.Millisecond)
		}
		flag := module.fetchMetadata
		st.call(vcOpResume, false, false)
		if rp {
			// the reaper run triggered by the barrier tick talks to storage; a second (failing) reaper tick is taken
			// only when it is through
			if !vcTick(reapC) {
				emit("HANG")
				return
			}
		}
		rec := st.call(vcOpEnd, false, false)
		var asks [][]int64
		bad := 0
		w.mu.Lock()
		for _, a := range w.asks {
			asks = append(asks, []int64{int64(a.broker), a.topic, int64(a.part)})
			if a.bad {
				bad++
			}
		}
		topicsCalls := w.topicsCalls
		w.mu.Unlock()
		s := fmt.Sprintf("M%s F%s R %s U %s D %s", vcB01(topicsCalls > 0), vcB01(flag), vcCsv(asks), vcCsv(rec.ups), vcCsv(rec.dels))
		reaperOK := (!rp && rec.fetches == 0 && len(rec.groups) == 0) ||
			(rp && rec.fetches == 1 && len(rec.groups) == 1 && rec.groups[0] == "g2")
		if rec.other > 0 || bad > 0 || topicsCalls > 1 || !reaperOK || rec.replyStuck > 0 {
			s += fmt.Sprintf(" X other=%d badblocks=%d topicscalls=%d reaper=%d/%s/%d", rec.other, bad, topicsCalls,
				rec.fetches, strings.Join(rec.groups, "+"), rec.replyStuck)
		}
		emit(s)
	}
	if started {
		module.Stop()
	}
}

// ---- kind sc2w: real sarama client, sarama.MockBroker, the wire protocol -------------------------

type vcReporter struct {
	mu   sync.Mutex
	errs []string
}

func (r *vcReporter) add(s string) {
	r.mu.Lock()
	r.errs = append(r.errs, s)
	r.mu.Unlock()
}
func (r *vcReporter) Error(a ...interface{})            { r.add(fmt.Sprint(a...)) }
func (r *vcReporter) Errorf(f string, a ...interface{}) { r.add(fmt.Sprintf(f, a...)) }
func (r *vcReporter) Fatal(a ...interface{})            { r.add(fmt.Sprint(a...)) }
func (r *vcReporter) Fatalf(f string, a ...interface{}) { r.add(fmt.Sprintf(f, a...)) }
func (r *vcReporter) Helper()                           {}
func (r *vcReporter) take() int {
	r.mu.Lock()
	defer r.mu.Unlock()
	n := len(r.errs)
	r.errs = nil
	return n
}

func (sc *vcScn) runWire(emit func(string)) {
	module := sc.module
	rep := &vcReporter{}
	ids := map[int32]bool{1: true}
	for _, e := range sc.envs {
		for _, row := range e.table {
			for _, pr := range row.rows {
				if pr.leader >= 0 {
					ids[int32(pr.leader)] = true
				}
			}
		}
	}
	mocks := map[int32]*sarama.MockBroker{} // the listener that holds the id now
	var all []*sarama.MockBroker             // every listener there ever was (retired ones are closed)
	current := func(mb *sarama.MockBroker) bool { return mocks[mb.BrokerID()] == mb }
	seen := map[*sarama.MockBroker]int{}
	for id := range ids {
		mocks[id] = sarama.NewMockBroker(rep, id)
		all = append(all, mocks[id])
	}
	defer func() {
		for _, mb := range all {
			if current(mb) {
				mb.Close()
			}
		}
	}()
	program := func(e *vcEnv) {
		md := sarama.NewMockMetadataResponse(rep).SetController(1)
		for id, mb := range mocks {
			md.SetBroker(mb.Addr(), id)
		}
		ofs := sarama.NewMockOffsetResponse(rep)
		for _, name := range e.topics {
			row := e.table[name]
			for _, p := range row.parts {
				pr := row.rows[p]
				md.SetLeader(name, p, int32(pr.leader)) // -1: the partition exists and has no leader
				if len(pr.offs) > 0 {
					ofs.SetOffset(name, p, sarama.OffsetNewest, pr.offs[0])
				}
			}
		}
		for _, mb := range mocks {
			mb.SetHandlerByMap(map[string]sarama.MockResponse{
				"ApiVersionsRequest": sarama.NewMockApiVersionsResponse(rep),
				"MetadataRequest":    md,
				"OffsetRequest":      ofs,
				"ListGroupsRequest":  sarama.NewMockListGroupsResponse(rep).AddGroup("g1", "consumer"),
			})
		}
	}
	metaCount := func() int {
		n := 0
		for _, mb := range all {
			for _, rr := range mb.History() {
				if _, ok := rr.Request.(*sarama.MetadataRequest); ok {
					n++
				}
			}
		}
		return n
	}
	program(sc.envs[0])
	real, err := sarama.NewClient([]string{mocks[1].Addr()}, module.saramaConfig)
	if err != nil {
		emit("M0 F0 R - U - D - X newclient=" + strings.ReplaceAll(err.Error(), " ", "_"))
		return
	}
	defer real.Close()
	client := &helpers.BurrowSaramaClient{Client: real}
	st := &vcStore{ch: module.App.StorageChannel, ctl: make(chan vcCtl), name: module.name}
	go st.loop()
	defer close(st.ctl)
	for i, e := range sc.envs {
		if i > 0 && e.mv > 1 && mocks[e.mv] != nil {
			// broker e.mv comes back under a new address: nobody listens at the old one any more
			old := mocks[e.mv]
			mocks[e.mv] = sarama.NewMockBroker(rep, e.mv)
			all = append(all, mocks[e.mv])
			old.Close()
		}
		program(e)
		st.call(vcOpBegin, false, false)
		metaBefore := metaCount()
		if i == 0 || e.tick {
			module.fetchMetadata = true // Start() / case <-module.metadataTicker.C
		}
		module.getOffsets(client) // case <-module.offsetTicker.C
		flag := module.fetchMetadata
		if e.rp {
			module.reapNonExistingGroups(client) // case <-module.groupsReaperTicker.C
		}
		rec := st.call(vcOpEnd, false, false)
		var asks [][]int64
		bad, stale := 0, 0
		for _, mb := range all {
			hist := mb.History()
			for _, rr := range hist[seen[mb]:] {
				if rq, ok := rr.Request.(*sarama.OffsetRequest); ok {
					if !current(mb) {
						stale++ // an OffsetRequest went to a listener that no longer holds the id
						continue
					}
					blocks, ok := vcRequestBlocks(rq)
					if !ok {
						bad++
					}
					for _, a := range blocks {
						asks = append(asks, []int64{int64(mb.BrokerID()), vcTopicID(a.topic), int64(a.part)})
						if a.bad {
							bad++
						}
					}
				}
			}
			seen[mb] = len(hist)
		}
		s := fmt.Sprintf("M%s F%s R %s U %s D %s", vcB01(metaCount() > metaBefore), vcB01(flag), vcCsv(asks), vcCsv(rec.ups), vcCsv(rec.dels))
		reaperOK := (!e.rp && rec.fetches == 0 && len(rec.groups) == 0) ||
			(e.rp && rec.fetches == 1 && len(rec.groups) == 1 && rec.groups[0] == "g2")
		if n := rep.take(); rec.other > 0 || bad > 0 || stale > 0 || n > 0 || !reaperOK || rec.replyStuck > 0 {
			s += fmt.Sprintf(" X other=%d badblocks=%d stale=%d mockerrors=%d reaper=%d/%s/%d", rec.other, bad, stale, n,
				rec.fetches, strings.Join(rec.groups, "+"), rec.replyStuck)
		}
		emit(s)
	}
}

// ---- the test -----------------------------------------------------------------------------------

func TestVerifProbeCluster(t *testing.T) {
	casesPath, outPath := os.Getenv("VERIF_CASES"), os.Getenv("VERIF_OUT")
	if casesPath == "" || outPath == "" {
		t.Skip("VERIF_CASES / VERIF_OUT not set")
	}
	in, err := os.Open(casesPath)
	if err != nil {
		t.Fatal(err)
	}
	defer in.Close()
	outf, err := os.Create(outPath)
	if err != nil {
		t.Fatal(err)
	}
	defer outf.Close()
	w := bufio.NewWriter(outf)
	defer w.Flush()
	child := os.Getenv("VERIF_CLUSTER_CHILD") == "1"

	var lines []string
	sc := bufio.NewScanner(in)
	sc.Buffer(make([]byte, 1<<20), 1<<26)
	for sc.Scan() {
		if line := strings.TrimSpace(sc.Text()); line != "" {
			lines = append(lines, line)
		}
	}

	if child {
		// one scenario, streamed: what was finished before a crash must be on disk
		for i, line := range lines {
			s := vcParse(line, i)
			first := true
			s.run(true, func(txt string) {
				if !first {
					w.WriteString(" | ")
				}
				first = false
				w.WriteString(txt)
				w.Flush()
			})
			w.WriteString("\n")
		}
		return
	}

	// viper is not safe for concurrent use and the real Configure writes defaults into it: every Configure is called
	// from this goroutine.  Pass 1 prepares the scenarios that run in parallel (real time), pass 2 runs the others
	// one at a time while those are under way (the running scenarios never touch viper).
	parallel := func(line string) bool { return strings.HasPrefix(line, "sc2s ") || strings.HasPrefix(line, "sc2w ") }
	results := make([]string, len(lines))
	var wg sync.WaitGroup
	gate := make(chan struct{}, 256)
	var par []*vcScn
	for i, line := range lines {
		if parallel(line) {
			s := vcParse(line, i)
			s.idx = i
			par = append(par, s)
		}
	}
	for _, s := range par {
		wg.Add(1)
		go func(s *vcScn) {
			defer wg.Done()
			gate <- struct{}{}
			defer func() { <-gate }()
			s.run(false, func(txt string) { s.out = append(s.out, txt) })
			results[s.idx] = strings.Join(s.out, " | ")
		}(s)
	}
	for i, line := range lines {
		switch {
		case parallel(line):
		case strings.HasPrefix(line, "scnx ") || strings.HasPrefix(line, "sc2x ") || strings.HasPrefix(line, "sc3x "):
			results[i] = vcRunChild(t, line, i)
		default:
			s := vcParse(line, i)
			s.run(false, func(txt string) { s.out = append(s.out, txt) })
			results[i] = strings.Join(s.out, " | ")
		}
	}
	wg.Wait()
	for _, r := range results {
		w.WriteString(r + "\n")
	}
}

// vcRunChild runs one scenario in a child process (this test binary again).  A panic in a goroutine of getOffsets
// kills the child; the cycles it finished are kept and the dying cycle is reported as CRASH.
func vcRunChild(t *testing.T, line string, caseNo int) string {
	dir, err := os.MkdirTemp("", "verifcluster")
	if err != nil {
		t.Fatal(err)
	}
	defer os.RemoveAll(dir)
	cpath, opath := dir+"/case.txt", dir+"/out.txt"
	if err := os.WriteFile(cpath, []byte(line+"\n"), 0o644); err != nil {
		t.Fatal(err)
	}
	cmd := exec.Command(os.Args[0], "-test.run", "^TestVerifProbeCluster$", "-test.count=1", "-test.timeout", "120s")
	cmd.Env = append(os.Environ(), "VERIF_CASES="+cpath, "VERIF_OUT="+opath, "VERIF_CLUSTER_CHILD=1")
	runErr := cmd.Run()
	data, _ := os.ReadFile(opath)
	out := strings.TrimRight(string(data), "\n")
	if runErr == nil {
		return out
	}
	if out == "" {
		return "CRASH"
	}
	return out + " | CRASH"
}
