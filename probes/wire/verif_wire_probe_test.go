//go:build verif

package consumer

// Correspondence probe for the Coq models Burrow.Wire / Burrow.WireEnc (C06, C07, reader half of C10).
//
// The parent test process reads the generated cases and hands them to a CHILD process (this same test binary,
// re-executed under `ulimit -v` with VERIF_WIRE_CHILD=1).  The child appends the index of a case to a journal
// BEFORE it runs it and the result after; a child that dies (fatal "out of memory", watchdog) therefore means
// "the implementation crashed / ballooned on case N": the parent records that and restarts behind N.
//
// With VERIF_WIRE_CONC=<G> the parent itself (no child: only well-formed messages are used) pushes all vo / vm cases
// through ONE module from G goroutines at once (VERIF_WIRE_ROUNDS times) and attributes the emitted requests to the cases by
// their group names, which the generator makes unique: the decoder has to be re-entrant, as the per-partition
// partitionConsumer goroutines call it concurrently.
//
// Case and output line formats: see /verif/ocaml/drv_wire.ml.  Besides the model's observables the msg lines end in
// "| A <TotalAlloc delta> <len(key)+len(value)>"; the checks compare that with the property's bound, not the model.

import (
	"bufio"
	"bytes"
	"encoding/binary"
	"encoding/hex"
	"fmt"
	"io"
	"os"
	"os/exec"
	"regexp"
	"runtime"
	"sort"
	"strconv"
	"strings"
	"sync"
	"testing"
	"time"

	"github.com/IBM/sarama"
	"github.com/spf13/viper"
	"go.uber.org/zap"
	"go.uber.org/zap/zapcore"

	"github.com/linkedin/Burrow/core/protocol"
)

// pattern pool; index 0 = the list is not configured at all, index 7 = the key is present with the empty string as its value
// (as the shipped config/burrow.toml writes group-allowlist=""), which means "no list" as well
var vwPatterns = []string{"", "^a", "b$", ".*", "^$", "^(a|b)", "x", ""}

const vwChildMemKB = 4 * 1024 * 1024
const vwCaseTimeout = 20 * time.Second
const vwBound = 64 * 1024 // the property's allocation bound above the message size

func vwReadLines(path string) ([]string, error) {
	f, err := os.Open(path)
	if err != nil {
		return nil, err
	}
	defer f.Close()
	var lines []string
	sc := bufio.NewScanner(f)
	sc.Buffer(make([]byte, 1<<20), 1<<28)
	for sc.Scan() {
		l := strings.TrimSpace(sc.Text())
		if l != "" {
			lines = append(lines, l)
		}
	}
	return lines, sc.Err()
}

func TestVerifProbeWire(t *testing.T) {
	if os.Getenv("VERIF_WIRE_CHILD") == "1" {
		vwChild(t)
		return
	}
	casesPath, outPath := os.Getenv("VERIF_CASES"), os.Getenv("VERIF_OUT")
	if casesPath == "" || outPath == "" {
		t.Skip("VERIF_CASES / VERIF_OUT not set")
	}
	lines, err := vwReadLines(casesPath)
	if err != nil {
		t.Fatal(err)
	}
	if g := os.Getenv("VERIF_WIRE_CONC"); g != "" {
		workers, _ := strconv.Atoi(g)
		vwConcurrent(t, lines, workers, outPath)
		return
	}
	n := len(lines)
	results := make([]string, n)
	have := make([]bool, n)
	journal, childOut := outPath+".journal", outPath+".child"
	start := 0
	restarts := 0
	for start < n {
		os.Remove(journal)
		os.Remove(childOut)
		sh := fmt.Sprintf("ulimit -v %d; exec '%s' -test.run '^TestVerifProbeWire$' -test.count=1 -test.timeout 0", vwChildMemKB, os.Args[0])
		cmd := exec.Command("/bin/sh", "-c", sh)
		cmd.Env = append(os.Environ(), "VERIF_WIRE_CHILD=1", "VERIF_WIRE_START="+strconv.Itoa(start),
			"VERIF_WIRE_JOURNAL="+journal, "VERIF_WIRE_CHILDOUT="+childOut)
		out, runErr := cmd.CombinedOutput()
		if cl, err := vwReadLines(childOut); err == nil {
			for _, l := range cl {
				tab := strings.IndexByte(l, '\t')
				if tab < 0 {
					continue
				}
				idx, err := strconv.Atoi(l[:tab])
				if err == nil && idx >= 0 && idx < n {
					results[idx], have[idx] = l[tab+1:], true
				}
			}
		}
		last := -1
		if jl, err := vwReadLines(journal); err == nil && len(jl) > 0 {
			last, _ = strconv.Atoi(jl[len(jl)-1])
		}
		if last == n-1 && have[n-1] && runErr == nil {
			break
		}
		if last < start {
			t.Fatalf("child made no progress from case %d: %v\n%s", start, runErr, vwTail(out))
		}
		if have[last] {
			// the child died between two cases: harness trouble, not an observation
			t.Fatalf("child stopped after case %d without starting the next: %v\n%s", last, runErr, vwTail(out))
		}
		results[last], have[last] = "CRASH | died: "+vwDeathReason(runErr, out), true
		start = last + 1
		restarts++
		if restarts > 2000 {
			t.Fatalf("too many child restarts")
		}
	}
	os.Remove(journal)
	os.Remove(childOut)
	outf, err := os.Create(outPath)
	if err != nil {
		t.Fatal(err)
	}
	w := bufio.NewWriter(outf)
	for i := 0; i < n; i++ {
		if !have[i] {
			t.Fatalf("no result for case %d", i)
		}
		fmt.Fprintln(w, results[i])
	}
	w.Flush()
	outf.Close()
}

func vwTail(out []byte) string {
	if len(out) > 2000 {
		out = out[len(out)-2000:]
	}
	return string(out)
}

func vwDeathReason(runErr error, out []byte) string {
	reason := "exit"
	if runErr != nil {
		reason = strings.ReplaceAll(runErr.Error(), " ", "_")
	}
	for _, l := range strings.Split(string(out), "\n") {
		if strings.HasPrefix(l, "fatal error:") || strings.HasPrefix(l, "runtime: out of memory") || strings.HasPrefix(l, "verif-watchdog") {
			reason += " " + strings.ReplaceAll(strings.TrimSpace(l), " ", "_")
			break
		}
	}
	return reason
}

// ---------------------------------------------------------------------------------------------------------------
// child
// ---------------------------------------------------------------------------------------------------------------

type vwModKey struct {
	name, cluster, mode string
	allow, deny         int
}

type vwEnv struct {
	ch      chan *protocol.StorageRequest
	modules map[vwModKey]*KafkaClient
}

// module builds (once per configuration) a consumer module called `name` that reads for cluster `cluster`, the way
// fixtureModule() + Configure do.  The two names are different strings in most cases.  mode "S": every key is put with
// viper.Set; mode "T": the whole configuration is a TOML document read with viper.ReadConfig (what Burrow does with its
// configuration file; viper.IsSet and friends see the two differently).  A "Z" after the letter gives the module a real zap
// core (JSON encoder, info level, output discarded) instead of the nop logger: with a real core logger.With(...) encodes
// its fields eagerly, which is part of what processing a message allocates in production.
func (e *vwEnv) module(name, cluster, mode string, allow, deny int) *KafkaClient {
	k := vwModKey{name, cluster, mode, allow, deny}
	if m, ok := e.modules[k]; ok {
		return m
	}
	module := &KafkaClient{Log: zap.NewNop()}
	if strings.HasSuffix(mode, "Z") {
		module.Log = zap.New(zapcore.NewCore(zapcore.NewJSONEncoder(zap.NewProductionEncoderConfig()), zapcore.AddSync(io.Discard), zap.InfoLevel))
	}
	module.App = &protocol.ApplicationContext{StorageChannel: e.ch}
	viper.Reset()
	if strings.HasPrefix(mode, "T") {
		var doc strings.Builder
		fmt.Fprintf(&doc, "[cluster.%s]\nclass-name=\"kafka\"\nservers=[ \"broker1.example.com:1234\" ]\n\n", cluster)
		fmt.Fprintf(&doc, "[consumer.%s]\nclass-name=\"kafka\"\nservers=[ \"broker1.example.com:1234\" ]\ncluster=\"%s\"\n", name, cluster)
		if allow != 0 {
			fmt.Fprintf(&doc, "group-allowlist='%s'\n", vwPatterns[allow])
		}
		if deny != 0 {
			fmt.Fprintf(&doc, "group-denylist='%s'\n", vwPatterns[deny])
		}
		viper.SetConfigType("toml")
		if err := viper.ReadConfig(strings.NewReader(doc.String())); err != nil {
			panic("verif probe: TOML configuration: " + err.Error())
		}
	} else {
		viper.Set("client-profile..client-id", "testid")
		viper.Set("cluster."+cluster+".class-name", "kafka")
		viper.Set("cluster."+cluster+".servers", []string{"broker1.example.com:1234"})
		viper.Set("consumer."+name+".class-name", "kafka")
		viper.Set("consumer."+name+".servers", []string{"broker1.example.com:1234"})
		viper.Set("consumer."+name+".cluster", cluster)
		if allow != 0 {
			viper.Set("consumer."+name+".group-allowlist", vwPatterns[allow])
		}
		if deny != 0 {
			viper.Set("consumer."+name+".group-denylist", vwPatterns[deny])
		}
	}
	module.Configure(name, "consumer."+name)
	e.modules[k] = module
	return module
}

func vwChild(t *testing.T) {
	lines, err := vwReadLines(os.Getenv("VERIF_CASES"))
	if err != nil {
		t.Fatal(err)
	}
	start, _ := strconv.Atoi(os.Getenv("VERIF_WIRE_START"))
	jf, err := os.OpenFile(os.Getenv("VERIF_WIRE_JOURNAL"), os.O_CREATE|os.O_WRONLY|os.O_APPEND, 0o644)
	if err != nil {
		t.Fatal(err)
	}
	of, err := os.OpenFile(os.Getenv("VERIF_WIRE_CHILDOUT"), os.O_CREATE|os.O_WRONLY|os.O_APPEND, 0o644)
	if err != nil {
		t.Fatal(err)
	}
	env := &vwEnv{ch: make(chan *protocol.StorageRequest, 1<<16), modules: map[vwModKey]*KafkaClient{}}
	for i := start; i < len(lines); i++ {
		jf.WriteString(strconv.Itoa(i) + "\n")
		idx := i
		wd := time.AfterFunc(vwCaseTimeout, func() {
			os.Stderr.WriteString("verif-watchdog: case " + strconv.Itoa(idx) + " exceeded its time limit\n")
			os.Exit(3)
		})
		res := vwRunCase(env, lines[i])
		wd.Stop()
		of.WriteString(strconv.Itoa(i) + "\t" + res + "\n")
	}
	jf.Close()
	of.Close()
}

type vwToks struct {
	f []string
	i int
}

func (t *vwToks) next() string { s := t.f[t.i]; t.i++; return s }
func (t *vwToks) int() int {
	v, err := strconv.Atoi(t.next())
	if err != nil {
		panic(err)
	}
	return v
}
func (t *vwToks) i64() int64 {
	v, err := strconv.ParseInt(t.next(), 10, 64)
	if err != nil {
		panic(err)
	}
	return v
}
func (t *vwToks) i32() int32 { return int32(t.i64()) }
func (t *vwToks) hexb() []byte {
	s := t.next()
	if s == "-" {
		return []byte{}
	}
	b, err := hex.DecodeString(s)
	if err != nil {
		panic(err)
	}
	return b
}

// nullable string / bytes token: N = null
func (t *vwToks) opt() *[]byte {
	if t.f[t.i] == "N" {
		t.i++
		return nil
	}
	b := t.hexb()
	return &b
}

func vwHex(s string) string {
	if s == "" {
		return "-"
	}
	return hex.EncodeToString([]byte(s))
}

func vwFmtReq(r *protocol.StorageRequest) string {
	kind := "type" + strconv.Itoa(int(r.RequestType))
	switch r.RequestType {
	case protocol.StorageSetConsumerOffset:
		kind = "offset"
	case protocol.StorageSetConsumerOwner:
		kind = "owner"
	case protocol.StorageClearConsumerOwners:
		kind = "clear"
	case protocol.StorageSetDeleteGroup:
		kind = "delete"
	}
	return fmt.Sprintf("%s %s %s %s %d %d %d %d %s %s", kind, vwHex(r.Cluster), vwHex(r.Group), vwHex(r.Topic), r.Partition,
		r.Offset, r.Timestamp, r.Order, vwHex(r.Owner), vwHex(r.ClientID))
}

// vwProcess runs the real processConsumerOffsetsMessage on one message and projects what it did.
func vwProcess(env *vwEnv, name, cluster, mode string, allow, deny int, order int64, key, value []byte) (res string) {
	module := env.module(name, cluster, mode, allow, deny)
	for len(env.ch) > 0 {
		<-env.ch
	}
	msg := &sarama.ConsumerMessage{Topic: "__consumer_offsets", Partition: 0, Offset: order, Key: key, Value: value}
	var m0, m1 runtime.MemStats
	defer func() {
		if r := recover(); r != nil {
			for len(env.ch) > 0 {
				<-env.ch
			}
			res = "CRASH | panic: " + strings.ReplaceAll(fmt.Sprint(r), "\n", " ")
		}
	}()
	runtime.ReadMemStats(&m0)
	module.processConsumerOffsetsMessage(msg)
	runtime.ReadMemStats(&m1)
	if m1.TotalAlloc-m0.TotalAlloc > uint64(len(key)+len(value)+vwBound) {
		// Measured above the property's bound: measure once more and keep the smaller value.  The regexp package keeps its
		// matching machines (tens of kilobytes each) in a sync.Pool that every garbage collection empties; the first match
		// after a collection re-allocates them, which says nothing about the message.
		n := len(env.ch)
		var r0, r1 runtime.MemStats
		runtime.ReadMemStats(&r0)
		module.processConsumerOffsetsMessage(msg)
		runtime.ReadMemStats(&r1)
		for len(env.ch) > n {
			<-env.ch
		}
		if r1.TotalAlloc-r0.TotalAlloc < m1.TotalAlloc-m0.TotalAlloc {
			m0, m1 = r0, r1
		}
	}
	reqs := make([]string, 0, len(env.ch))
	for len(env.ch) > 0 {
		reqs = append(reqs, vwFmtReq(<-env.ch))
	}
	sort.Strings(reqs)
	var sb strings.Builder
	sb.WriteString("OK " + strconv.Itoa(len(reqs)))
	if len(reqs) > 0 {
		sb.WriteString(" " + strings.Join(reqs, " ; "))
	}
	fmt.Fprintf(&sb, " | A %d %d", m1.TotalAlloc-m0.TotalAlloc, len(key)+len(value))
	return sb.String()
}

func vwBit(b bool) string {
	if b {
		return "1"
	}
	return "0"
}

// vwStripInfo drops the measured-allocation part of a result line.
func vwStripInfo(res string) string {
	if i := strings.Index(res, " | "); i >= 0 {
		return res[:i]
	}
	return res
}

func vwRunCase(env *vwEnv, line string) string {
	tk := &vwToks{f: strings.Fields(line)}
	switch tk.next() {
	case "msg":
		name, cluster, mode := string(tk.hexb()), string(tk.hexb()), tk.next()
		allow, deny := tk.int(), tk.int()
		order := tk.i64()
		key, value := tk.hexb(), tk.hexb()
		return vwProcess(env, name, cluster, mode, allow, deny, order, key, value)
	case "vo":
		name, cluster, mode := string(tk.hexb()), string(tk.hexb()), tk.next()
		allow, deny := tk.int(), tk.int()
		order := tk.i64()
		key, value := vwEncOffset(tk)
		return "K " + vwHex(string(key)) + " V " + vwHex(string(value)) + " => " + vwProcess(env, name, cluster, mode, allow, deny, order, key, value)
	case "vm":
		name, cluster, mode := string(tk.hexb()), string(tk.hexb()), tk.next()
		allow, deny := tk.int(), tk.int()
		order := tk.i64()
		key, value := vwEncMeta(tk)
		return "K " + vwHex(string(key)) + " V " + vwHex(string(value)) + " => " + vwProcess(env, name, cluster, mode, allow, deny, order, key, value)
	case "re":
		// the module's accept decision, observed through the pinned entry point only: a well-formed offset commit for
		// the group yields its update exactly when the lists accept the group
		allow, deny := tk.int(), tk.int()
		g := tk.hexb()
		var k, v vwWriter
		k.i16(1)
		k.str(&g)
		k.str(&[]byte{'t'})
		k.i32(0)
		v.i16(0)
		v.i64(1)
		v.str(nil)
		v.i64(2)
		if strings.HasPrefix(vwProcess(env, "test", "test", "S", allow, deny, 0, k.Bytes(), v.Bytes()), "OK 1 ") {
			return "ACC 1"
		}
		return "ACC 0"
	case "c10":
		// C10, reader half: what the real regexp package answers for the configured patterns on the group (four
		// booleans), what the module forwards for the message with the lists, and what it forwards without any list
		name, cluster, mode := string(tk.hexb()), string(tk.hexb()), tk.next()
		allow, deny := tk.int(), tk.int()
		order := tk.i64()
		g := tk.hexb()
		key, value := tk.hexb(), tk.hexb()
		// a list is "set" when its key holds a non-empty pattern text: an absent key and an empty string both mean no list
		aSet, dSet := allow != 0 && vwPatterns[allow] != "", deny != 0 && vwPatterns[deny] != ""
		aM := aSet && regexp.MustCompile(vwPatterns[allow]).MatchString(string(g))
		dM := dSet && regexp.MustCompile(vwPatterns[deny]).MatchString(string(g))
		with := vwStripInfo(vwProcess(env, name, cluster, mode, allow, deny, order, key, value))
		without := vwStripInfo(vwProcess(env, name, cluster, mode, 0, 0, order, key, value))
		return fmt.Sprintf("B %s %s %s %s => %s || %s", vwBit(aSet), vwBit(aM), vwBit(dSet), vwBit(dM), with, without)
	}
	return "BADCASE"
}

// ---------------------------------------------------------------------------------------------------------------
// Concurrent stream
// ---------------------------------------------------------------------------------------------------------------

type vwConcCase struct {
	group      string
	order      int64
	key, value []byte
}

func vwFmtReqs(reqs []string) string {
	sort.Strings(reqs)
	out := "OK " + strconv.Itoa(len(reqs))
	if len(reqs) > 0 {
		out += " " + strings.Join(reqs, " ; ")
	}
	return out
}

func vwConcurrent(t *testing.T, lines []string, workers int, outPath string) {
	if workers < 2 {
		workers = 2
	}
	rounds := 3
	if r, err := strconv.Atoi(os.Getenv("VERIF_WIRE_ROUNDS")); err == nil && r > 0 {
		rounds = r
	}
	env := &vwEnv{ch: make(chan *protocol.StorageRequest, 1<<12), modules: map[vwModKey]*KafkaClient{}}
	cases := make([]vwConcCase, len(lines))
	byGroup := map[string]int{}
	var module *KafkaClient
	for i, line := range lines {
		tk := &vwToks{f: strings.Fields(line)}
		kind := tk.next()
		name, cluster, mode := string(tk.hexb()), string(tk.hexb()), tk.next()
		allow, deny := tk.int(), tk.int()
		if module == nil {
			module = env.module(name, cluster, mode, allow, deny) // one module for the whole batch
		}
		c := vwConcCase{order: tk.i64()}
		switch kind {
		case "vo":
			c.group = string(vwPeekOpt(tk, 1))
			c.key, c.value = vwEncOffset(tk)
		case "vm":
			c.group = string(vwPeekOpt(tk, 0))
			c.key, c.value = vwEncMeta(tk)
		default:
			t.Fatalf("concurrent stream: case %d is not a vo / vm case", i)
		}
		if _, dup := byGroup[c.group]; dup {
			t.Fatalf("concurrent stream: group of case %d is not unique", i)
		}
		byGroup[c.group] = i
		cases[i] = c
	}
	results := make([][]string, rounds)
	strays := make([][]string, rounds)
	for r := 0; r < rounds; r++ {
		var collected []*protocol.StorageRequest
		stop, collDone := make(chan struct{}), make(chan struct{})
		go func() {
			defer close(collDone)
			for {
				select {
				case req := <-env.ch:
					collected = append(collected, req)
				case <-stop:
					for {
						select {
						case req := <-env.ch:
							collected = append(collected, req)
						default:
							return
						}
					}
				}
			}
		}()
		start := make(chan struct{})
		var wg sync.WaitGroup
		for w := 0; w < workers; w++ {
			wg.Add(1)
			go func(w int) {
				defer wg.Done()
				<-start
				for i := w; i < len(cases); i += workers {
					c := cases[i]
					module.processConsumerOffsetsMessage(&sarama.ConsumerMessage{Topic: "__consumer_offsets", Partition: int32(w),
						Offset: c.order, Key: c.key, Value: c.value})
				}
			}(w)
		}
		close(start)
		wg.Wait()
		close(stop)
		<-collDone
		per := make([][]string, len(cases))
		for _, req := range collected {
			if i, ok := byGroup[req.Group]; ok {
				per[i] = append(per[i], vwFmtReq(req))
			} else {
				strays[r] = append(strays[r], vwFmtReq(req))
			}
		}
		results[r] = make([]string, len(cases))
		for i := range cases {
			results[r][i] = vwFmtReqs(per[i])
		}
	}
	outf, err := os.Create(outPath)
	if err != nil {
		t.Fatal(err)
	}
	w := bufio.NewWriter(outf)
	for i, c := range cases {
		line := "K " + vwHex(string(c.key)) + " V " + vwHex(string(c.value)) + " => " + results[0][i]
		for r := 1; r < rounds; r++ {
			if results[r][i] != results[0][i] {
				line += " ## round " + strconv.Itoa(r) + ": " + results[r][i]
			}
		}
		if i == 0 {
			for r := 0; r < rounds; r++ {
				if len(strays[r]) > 0 {
					line += " ## round " + strconv.Itoa(r) + " sent " + strconv.Itoa(len(strays[r])) +
						" request(s) for groups that are in no message, e.g. " + strays[r][0]
				}
			}
		}
		fmt.Fprintln(w, line)
	}
	w.Flush()
	outf.Close()
}

// vwPeekOpt returns the nullable string token `ahead` tokens past the current one without consuming anything.
func vwPeekOpt(tk *vwToks, ahead int) []byte {
	s := tk.f[tk.i+ahead]
	if s == "N" || s == "-" {
		return nil
	}
	b, err := hex.DecodeString(s)
	if err != nil {
		panic(err)
	}
	return b
}

// ---------------------------------------------------------------------------------------------------------------
// Independent encoder, written from the Kafka message schemas (OffsetCommitKey/Value, GroupMetadataKey/Value,
// ConsumerProtocolAssignment); it shares no code with WireEnc.v or with the Python generator.
// ---------------------------------------------------------------------------------------------------------------

type vwWriter struct{ bytes.Buffer }

func (w *vwWriter) i16(v int16) { binary.Write(&w.Buffer, binary.BigEndian, v) }
func (w *vwWriter) i32(v int32) { binary.Write(&w.Buffer, binary.BigEndian, v) }
func (w *vwWriter) i64(v int64) { binary.Write(&w.Buffer, binary.BigEndian, v) }
func (w *vwWriter) str(s *[]byte) {
	if s == nil {
		w.i16(-1)
		return
	}
	w.i16(int16(len(*s)))
	w.Write(*s)
}
func (w *vwWriter) byt(s *[]byte) {
	if s == nil {
		w.i32(-1)
		return
	}
	w.i32(int32(len(*s)))
	w.Write(*s)
}

func vwEncOffset(tk *vwToks) (key, value []byte) {
	var k, v vwWriter
	k.i16(int16(tk.i64()))
	k.str(tk.opt())
	k.str(tk.opt())
	k.i32(tk.i32())
	vv := tk.next()
	offset, epoch := tk.i64(), tk.i32()
	md := tk.opt()
	ts, expire := tk.i64(), tk.i64()
	if vv == "T" {
		return k.Bytes(), []byte{}
	}
	ver, _ := strconv.Atoi(vv)
	v.i16(int16(ver))
	v.i64(offset)
	if ver == 3 {
		v.i32(epoch)
	}
	v.str(md)
	v.i64(ts)
	if ver == 1 {
		v.i64(expire)
	}
	return k.Bytes(), v.Bytes()
}

func vwEncAssignment(tk *vwToks) *[]byte {
	switch tk.next() {
	case "N":
		return nil
	case "E":
		return &[]byte{}
	}
	var a vwWriter
	a.i16(int16(tk.i64()))
	nt := tk.int()
	a.i32(int32(nt))
	for i := 0; i < nt; i++ {
		a.str(tk.opt())
		np := tk.int()
		a.i32(int32(np))
		for j := 0; j < np; j++ {
			a.i32(tk.i32())
		}
	}
	a.byt(tk.opt())
	b := a.Bytes()
	return &b
}

func vwEncMeta(tk *vwToks) (key, value []byte) {
	var k, v vwWriter
	k.i16(2)
	k.str(tk.opt())
	vv := tk.next()
	ptype := tk.opt()
	gen := tk.i32()
	proto, leader := tk.opt(), tk.opt()
	statets := tk.i64()
	nm := tk.int()
	ver, _ := strconv.Atoi(vv)
	v.i16(int16(ver))
	v.str(ptype)
	v.i32(gen)
	v.str(proto)
	v.str(leader)
	if ver >= 2 {
		v.i64(statets)
	}
	v.i32(int32(nm))
	for i := 0; i < nm; i++ {
		id, inst, cid, host := tk.opt(), tk.opt(), tk.opt(), tk.opt()
		reb, sess := tk.i32(), tk.i32()
		sub := tk.opt()
		asg := vwEncAssignment(tk)
		v.str(id)
		if ver == 3 {
			v.str(inst)
		}
		v.str(cid)
		v.str(host)
		if ver >= 1 {
			v.i32(reb)
		}
		v.i32(sess)
		v.byt(sub)
		v.byt(asg)
	}
	if vv == "T" {
		return k.Bytes(), []byte{}
	}
	return k.Bytes(), v.Bytes()
}
