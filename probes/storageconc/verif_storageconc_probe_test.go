//go:build verif

package storage

// Schedule probe for the Coq model Burrow.StorageConc (C08).
//
// The check module maps a rewritten copy of inmemory.go over the original (overlay only): every
// x.Lock()/RLock()/Unlock()/RUnlock() on brokerLock / consumerLock / consumerGroup.lock is replaced, token for token,
// by verifLockOp(x, op).  With the scheduler off the wrapper calls straight through.  With it on, a handler goroutine
// parks in the wrapper in front of every lock ACQUISITION until the probe grants its worker the next step, so a
// schedule is a list of worker ids exactly as in StorageConc.sched_run: a step of a worker runs it from where it is
// parked (or from the start of its next request) up to its next acquisition or the end of the handler.  A worker
// whose wanted lock is held incompatibly by a parked worker is reported as blocked.

import (
	"bufio"
	"fmt"
	"math/rand"
	"os"
	"sort"
	"strconv"
	"strings"
	"sync"
	"testing"
	"time"

	"github.com/spf13/viper"
	"go.uber.org/zap"

	"github.com/linkedin/Burrow/core/protocol"
)

// ---------------------------------------------------------------------------------------------
// the scheduler
// ---------------------------------------------------------------------------------------------

const (
	vOpLock = iota
	vOpRLock
	vOpUnlock
	vOpRUnlock
)

type vEvent struct {
	kind  int // 0 park, 1 done, 2 crash
	m     *sync.RWMutex
	write bool
	msg   string
}

type vLockState struct {
	writer  int
	readers map[int]int
}

type vWorker struct {
	queue   []*vReq
	running *vReq
	parked  bool
	wantM   *sync.RWMutex
	wantW   bool
	grant   chan struct{}
	views   []string      // fetchConsumer only: what the broker map held for the reply's topics at delivery ("" otherwise)
	replies []string      // formatted at delivery
	objs    []interface{} // the delivered reply objects (re-formatted at the end: alias check)
	kinds   []string
}

type vReq struct {
	op  string
	req *protocol.StorageRequest
	run func(*protocol.StorageRequest, *zap.Logger)
}

type vSched struct {
	on       bool
	cur      int
	events   chan vEvent
	locks    map[*sync.RWMutex]*vLockState
	workers  []*vWorker
	crashed  bool
	hang     bool
	panicMsg string
}

var verifSched *vSched

func verifLockOp(m *sync.RWMutex, op int) {
	s := verifSched
	if s == nil || !s.on {
		switch op {
		case vOpLock:
			m.Lock()
		case vOpRLock:
			m.RLock()
		case vOpUnlock:
			m.Unlock()
		case vOpRUnlock:
			m.RUnlock()
		}
		return
	}
	w := s.cur
	switch op {
	case vOpLock, vOpRLock:
		s.events <- vEvent{kind: 0, m: m, write: op == vOpLock}
		<-s.workers[w].grant // the scheduler has entered the lock into its table
		if op == vOpLock {
			m.Lock()
		} else {
			m.RLock()
		}
	case vOpUnlock:
		st := s.locks[m]
		if st == nil || st.writer != w {
			panic("verif: Unlock of a lock not write-held by this worker")
		}
		st.writer = -1
		m.Unlock()
	case vOpRUnlock:
		st := s.locks[m]
		if st == nil || st.readers[w] == 0 {
			panic("verif: RUnlock of a lock not read-held by this worker")
		}
		st.readers[w]--
		if st.readers[w] == 0 {
			delete(st.readers, w)
		}
		m.RUnlock()
	}
}

func (s *vSched) enabled(w int) bool {
	wk := s.workers[w]
	if wk.running == nil {
		return len(wk.queue) > 0
	}
	st := s.locks[wk.wantM]
	if st == nil {
		return true
	}
	if st.writer != -1 {
		return false
	}
	if wk.wantW && len(st.readers) > 0 {
		return false
	}
	return true
}

func (s *vSched) unfinished() bool {
	for _, wk := range s.workers {
		if wk.running != nil || len(wk.queue) > 0 {
			return true
		}
	}
	return false
}

// step advances worker w by one step and returns its trace token.
func (s *vSched) step(w int, module *InMemoryStorage) string {
	if s.crashed || s.hang {
		return fmt.Sprintf("%d.x", w)
	}
	wk := s.workers[w]
	if wk.running == nil && len(wk.queue) == 0 {
		return fmt.Sprintf("%d.i", w)
	}
	if !s.enabled(w) {
		return fmt.Sprintf("%d.b", w)
	}
	acq := "-"
	s.cur = w
	if wk.running == nil {
		r := wk.queue[0]
		wk.queue = wk.queue[1:]
		wk.running = r
		go func() {
			defer func() {
				if p := recover(); p != nil {
					s.events <- vEvent{kind: 2, msg: fmt.Sprint(p)}
				}
			}()
			r.run(r.req, zap.NewNop())
			s.events <- vEvent{kind: 1}
		}()
	} else {
		acq = s.lockName(module, wk.wantM, wk.wantW)
		st := s.locks[wk.wantM]
		if st == nil {
			st = &vLockState{writer: -1, readers: map[int]int{}}
			s.locks[wk.wantM] = st
		}
		if wk.wantW {
			st.writer = w
		} else {
			st.readers[w]++
		}
		wk.parked = false
		wk.grant <- struct{}{}
	}
	select {
	case ev := <-s.events:
		switch ev.kind {
		case 0:
			wk.parked, wk.wantM, wk.wantW = true, ev.m, ev.write
			return fmt.Sprintf("%d.%s/P", w, acq)
		case 1:
			r := wk.running
			wk.running = nil
			if r.req.Reply != nil {
				var v interface{}
				select {
				case v = <-r.req.Reply:
				default:
				}
				wk.objs = append(wk.objs, v)
				wk.kinds = append(wk.kinds, r.op)
				wk.replies = append(wk.replies, vfmtReply(r.op, v))
				wk.views = append(wk.views, vbrokerView(module, r, v))
			}
			return fmt.Sprintf("%d.%s/D", w, acq)
		default:
			s.crashed = true
			s.panicMsg = ev.msg
			return fmt.Sprintf("%d.%s/X", w, acq)
		}
	case <-time.After(5 * time.Second):
		s.hang = true
		return fmt.Sprintf("%d.%s/HANG", w, acq)
	}
}

func (s *vSched) lockName(module *InMemoryStorage, m *sync.RWMutex, write bool) string {
	mode := "r"
	if write {
		mode = "w"
	}
	for c, cm := range module.offsets {
		if cm.brokerLock == m {
			return fmt.Sprintf("B%d%s", vid("k", c), mode)
		}
		if cm.consumerLock == m {
			return fmt.Sprintf("C%d%s", vid("k", c), mode)
		}
		for g, grp := range cm.consumer {
			if grp.lock == m {
				return fmt.Sprintf("G%d.%d%s", vid("k", c), vid("g", g), mode)
			}
		}
	}
	return "G?" + mode
}

// ---------------------------------------------------------------------------------------------
// formatting (same conventions as the storage probe: names are prefix+id, id 0 = "")
// ---------------------------------------------------------------------------------------------

type vtoks struct {
	f []string
	i int
}

func (t *vtoks) next() string { s := t.f[t.i]; t.i++; return s }
func (t *vtoks) i64() int64 {
	v, err := strconv.ParseInt(t.next(), 10, 64)
	if err != nil {
		panic(err)
	}
	return v
}

func vname(prefix string, id int64) string {
	if id == 0 {
		return ""
	}
	return prefix + strconv.FormatInt(id, 10)
}

func vid(prefix, s string) int64 {
	if s == "" {
		return 0
	}
	v, _ := strconv.ParseInt(strings.TrimPrefix(s, prefix), 10, 64)
	return v
}

func vfmtOff(o *protocol.ConsumerOffset) string {
	if o == nil {
		return "nil"
	}
	lag := "n"
	if o.Lag != nil {
		lag = strconv.FormatUint(o.Lag.Value, 10)
	}
	return fmt.Sprintf("(%d,%d,%d,%s)", o.Offset, o.Order, o.Timestamp, lag)
}

func vfmtStrings(prefix string, r interface{}) string {
	if r == nil {
		return "NIL"
	}
	l := r.([]string)
	ids := make([]int64, len(l))
	for i, s := range l {
		ids[i] = vid(prefix, s)
	}
	sort.Slice(ids, func(a, b int) bool { return ids[a] < ids[b] })
	var sb strings.Builder
	fmt.Fprintf(&sb, "L %d", len(ids))
	for _, v := range ids {
		fmt.Fprintf(&sb, " %d", v)
	}
	return sb.String()
}

func vfmtConsumer(r interface{}) string {
	if r == nil {
		return "NIL"
	}
	topics := r.(protocol.ConsumerTopics)
	ids := make([]int64, 0, len(topics))
	for t := range topics {
		ids = append(ids, vid("t", t))
	}
	sort.Slice(ids, func(a, b int) bool { return ids[a] < ids[b] })
	var sb strings.Builder
	fmt.Fprintf(&sb, "K %d", len(ids))
	for _, id := range ids {
		parts := topics[vname("t", id)]
		fmt.Fprintf(&sb, " %d %d", id, len(parts))
		for _, p := range parts {
			fmt.Fprintf(&sb, " %d %d %d %d", vid("o", p.Owner), vid("c", p.ClientID), p.CurrentLag, len(p.BrokerOffsets))
			for _, b := range p.BrokerOffsets {
				fmt.Fprintf(&sb, " %d", b)
			}
			fmt.Fprintf(&sb, " %d", len(p.Offsets))
			for _, o := range p.Offsets {
				sb.WriteString(" " + vfmtOff(o))
			}
		}
	}
	return sb.String()
}

// vbrokerView: for a fetchConsumer reply, the broker side as it is when the reply is delivered (the last step of
// fetchConsumer reads it under the broker lock and nothing has run since): for every topic of the reply and every
// partition index of that topic in the reply, `x` = the broker map has no such topic / partition, `n` = no broker offset
// recorded yet, otherwise the newest broker offset.  Used by the check's oracle only (the model does not print it).
func vbrokerView(module *InMemoryStorage, r *vReq, v interface{}) string {
	if r.op != "FX" || v == nil {
		return ""
	}
	topics := v.(protocol.ConsumerTopics)
	cm := module.offsets[r.req.Cluster]
	ids := make([]int64, 0, len(topics))
	for t := range topics {
		ids = append(ids, vid("t", t))
	}
	sort.Slice(ids, func(a, b int) bool { return ids[a] < ids[b] })
	var sb strings.Builder
	fmt.Fprintf(&sb, "V %d", len(ids))
	for _, id := range ids {
		parts := topics[vname("t", id)]
		fmt.Fprintf(&sb, " %d %d", id, len(parts))
		bl, ok := cm.broker[vname("t", id)]
		for p := range parts {
			switch {
			case !ok || p >= len(bl):
				sb.WriteString(" x")
			case bl[p].Value == nil:
				sb.WriteString(" n")
			default:
				fmt.Fprintf(&sb, " %d", bl[p].Value.(*brokerOffset).Offset)
			}
		}
	}
	return sb.String()
}

func vfmtReply(op string, v interface{}) string {
	switch op {
	case "FC":
		return vfmtStrings("k", v)
	case "FG", "FU":
		return vfmtStrings("g", v)
	case "FT":
		return vfmtStrings("t", v)
	case "FX":
		return vfmtConsumer(v)
	case "FO":
		if v == nil {
			return "NIL"
		}
		l := v.([]int64)
		s := "I " + strconv.Itoa(len(l))
		for _, x := range l {
			s += " " + strconv.FormatInt(x, 10)
		}
		return s
	}
	return "?"
}

// full dump of the module's maps (the probe is the only goroutine running)
func vdump(module *InMemoryStorage) string {
	var sb strings.Builder
	var cids []int64
	for c := range module.offsets {
		cids = append(cids, vid("k", c))
	}
	sort.Slice(cids, func(a, b int) bool { return cids[a] < cids[b] })
	fmt.Fprintf(&sb, "S %d", len(cids))
	for _, c := range cids {
		cm := module.offsets[vname("k", c)]
		var tids []int64
		for t := range cm.broker {
			tids = append(tids, vid("t", t))
		}
		sort.Slice(tids, func(a, b int) bool { return tids[a] < tids[b] })
		fmt.Fprintf(&sb, " c%d bt %d", c, len(tids))
		for _, t := range tids {
			parts := cm.broker[vname("t", t)]
			fmt.Fprintf(&sb, " t%d %d", t, len(parts))
			for _, r := range parts {
				sb.WriteString(" [")
				p := r.Next()
				for i := 0; i < r.Len(); i++ {
					if p.Value == nil {
						sb.WriteString("n")
					} else {
						sb.WriteString(strconv.FormatInt(p.Value.(*brokerOffset).Offset, 10))
					}
					if i+1 < r.Len() {
						sb.WriteString(",")
					}
					p = p.Next()
				}
				sb.WriteString("]")
			}
		}
		var gids []int64
		for g := range cm.consumer {
			gids = append(gids, vid("g", g))
		}
		sort.Slice(gids, func(a, b int) bool { return gids[a] < gids[b] })
		fmt.Fprintf(&sb, " gr %d", len(gids))
		for _, g := range gids {
			grp := cm.consumer[vname("g", g)]
			var ts []int64
			for t := range grp.topics {
				ts = append(ts, vid("t", t))
			}
			sort.Slice(ts, func(a, b int) bool { return ts[a] < ts[b] })
			fmt.Fprintf(&sb, " g%d %d %d", g, grp.lastCommit, len(ts))
			for _, t := range ts {
				parts := grp.topics[vname("t", t)]
				fmt.Fprintf(&sb, " t%d %d", t, len(parts))
				for _, p := range parts {
					fmt.Fprintf(&sb, " (%d,%d,", vid("o", p.owner), vid("c", p.clientID))
					if p.offsets == nil {
						sb.WriteString("noring)")
						continue
					}
					q := p.offsets
					for i := 0; i < p.offsets.Len(); i++ {
						if q.Value == nil {
							sb.WriteString("nil")
						} else {
							sb.WriteString(vfmtOff(q.Value.(*protocol.ConsumerOffset)))
						}
						if i+1 < p.offsets.Len() {
							sb.WriteString(";")
						}
						q = q.Next()
					}
					sb.WriteString(")")
				}
			}
		}
	}
	return sb.String()
}

// ---------------------------------------------------------------------------------------------
// requests
// ---------------------------------------------------------------------------------------------

func vparseReq(t *vtoks, module *InMemoryStorage, now int64) *vReq {
	op := t.next()
	r := &vReq{op: op}
	switch op {
	case "B":
		c, tp, p, cnt, off := t.i64(), t.i64(), t.i64(), t.i64(), t.i64()
		r.req = &protocol.StorageRequest{RequestType: protocol.StorageSetBrokerOffset, Cluster: vname("k", c), Topic: vname("t", tp),
			Partition: int32(p), TopicPartitionCount: int32(cnt), Offset: off, Timestamp: now * 1000}
		r.run = module.addBrokerOffset
	case "C":
		c, g, tp, p, off, order, ts := t.i64(), t.i64(), t.i64(), t.i64(), t.i64(), t.i64(), t.i64()
		r.req = &protocol.StorageRequest{RequestType: protocol.StorageSetConsumerOffset, Cluster: vname("k", c), Group: vname("g", g),
			Topic: vname("t", tp), Partition: int32(p), Offset: off, Order: order, Timestamp: ts}
		r.run = module.addConsumerOffset
	case "O":
		c, g, tp, p, owner, client := t.i64(), t.i64(), t.i64(), t.i64(), t.i64(), t.i64()
		r.req = &protocol.StorageRequest{RequestType: protocol.StorageSetConsumerOwner, Cluster: vname("k", c), Group: vname("g", g),
			Topic: vname("t", tp), Partition: int32(p), Owner: vname("o", owner), ClientID: vname("c", client)}
		r.run = module.addConsumerOwner
	case "X":
		c, g := t.i64(), t.i64()
		r.req = &protocol.StorageRequest{RequestType: protocol.StorageClearConsumerOwners, Cluster: vname("k", c), Group: vname("g", g)}
		r.run = module.clearConsumerOwners
	case "DT":
		c, tp := t.i64(), t.i64()
		r.req = &protocol.StorageRequest{RequestType: protocol.StorageSetDeleteTopic, Cluster: vname("k", c), Topic: vname("t", tp)}
		r.run = module.deleteTopic
	case "DG":
		c, g, tp := t.i64(), t.i64(), t.i64()
		r.req = &protocol.StorageRequest{RequestType: protocol.StorageSetDeleteGroup, Cluster: vname("k", c), Group: vname("g", g), Topic: vname("t", tp)}
		r.run = module.deleteGroup
	case "FC":
		r.req = &protocol.StorageRequest{RequestType: protocol.StorageFetchClusters}
		r.run = module.fetchClusterList
	case "FG":
		c := t.i64()
		r.req = &protocol.StorageRequest{RequestType: protocol.StorageFetchConsumers, Cluster: vname("k", c)}
		r.run = module.fetchConsumerList
	case "FT":
		c := t.i64()
		r.req = &protocol.StorageRequest{RequestType: protocol.StorageFetchTopics, Cluster: vname("k", c)}
		r.run = module.fetchTopicList
	case "FX":
		c, g := t.i64(), t.i64()
		r.req = &protocol.StorageRequest{RequestType: protocol.StorageFetchConsumer, Cluster: vname("k", c), Group: vname("g", g)}
		r.run = module.fetchConsumer
	case "FO":
		c, tp := t.i64(), t.i64()
		r.req = &protocol.StorageRequest{RequestType: protocol.StorageFetchTopic, Cluster: vname("k", c), Topic: vname("t", tp)}
		r.run = module.fetchTopic
	case "FU":
		c, tp := t.i64(), t.i64()
		r.req = &protocol.StorageRequest{RequestType: protocol.StorageFetchConsumersForTopic, Cluster: vname("k", c), Topic: vname("t", tp)}
		r.run = module.fetchConsumersForTopicList
	default:
		panic("unknown op " + op)
	}
	if strings.HasPrefix(op, "F") {
		r.req.Reply = make(chan interface{}, 1)
	}
	return r
}

func vnewModule(intervals, expire, mindist int64, clusters []int64, workers int) *InMemoryStorage {
	viper.Reset()
	viper.Set("storage.test.class-name", "inmemory")
	viper.Set("storage.test.intervals", intervals)
	viper.Set("storage.test.expire-group", expire)
	viper.Set("storage.test.min-distance", mindist)
	viper.Set("storage.test.workers", workers)
	for _, c := range clusters {
		viper.Set("cluster."+vname("k", c)+".class-name", "kafka")
	}
	module := &InMemoryStorage{Log: zap.NewNop()}
	module.App = &protocol.ApplicationContext{StorageChannel: make(chan *protocol.StorageRequest)}
	module.Configure("test", "storage.test")
	module.Start()
	return module
}

// conc <I> <E> <M> <NOW> <ncl> c.. <npre> op.. <nw> {<nreq> op..} <nsched> w..   (trailing tokens ignored)
func vcase(t *vtoks) string {
	intervals, expire, mindist, now := t.i64(), t.i64(), t.i64(), t.i64()
	ncl := int(t.i64())
	clusters := make([]int64, ncl)
	for i := range clusters {
		clusters[i] = t.i64()
	}
	// Configure refuses a storage module with fewer than one interval (c110ef6): that is how the hypothesis
	// 1 <= intervals of the C08 theorems is discharged on the implementation.  Reported, not a probe failure.
	var module *InMemoryStorage
	refused := ""
	func() {
		defer func() {
			if p := recover(); p != nil {
				refused = fmt.Sprint(p)
			}
		}()
		module = vnewModule(intervals, expire, mindist, clusters, 1)
	}()
	if refused != "" {
		return "CONFIG-REFUSED " + strings.ReplaceAll(refused, " ", "_")
	}
	defer module.Stop()
	VerifSetClock(now * 1000000000)
	defer VerifSetClock(0)

	s := &vSched{events: make(chan vEvent), locks: map[*sync.RWMutex]*vLockState{}}
	verifSched = s
	defer func() { verifSched = nil }()

	// sequential preamble (scheduler off)
	npre := int(t.i64())
	for i := 0; i < npre; i++ {
		r := vparseReq(t, module, now)
		if r.req.Reply != nil {
			r.req.Reply = make(chan interface{}, 1)
		}
		func() {
			defer func() {
				if p := recover(); p != nil {
					s.crashed = true
				}
			}()
			r.run(r.req, zap.NewNop())
		}()
	}
	nw := int(t.i64())
	for w := 0; w < nw; w++ {
		wk := &vWorker{grant: make(chan struct{})}
		nreq := int(t.i64())
		for i := 0; i < nreq; i++ {
			wk.queue = append(wk.queue, vparseReq(t, module, now))
		}
		s.workers = append(s.workers, wk)
	}
	var trace []string
	if s.crashed {
		trace = append(trace, "PRECRASH")
	}
	s.on = true
	nsched := int(t.i64())
	for i := 0; i < nsched; i++ {
		w := int(t.i64())
		if w < 0 || w >= nw {
			trace = append(trace, fmt.Sprintf("%d.i", w))
			continue
		}
		trace = append(trace, s.step(w, module))
	}
	// drain: lowest enabled worker first
	for !s.crashed && !s.hang {
		progressed := false
		for w := 0; w < nw; w++ {
			if s.enabled(w) {
				trace = append(trace, s.step(w, module))
				progressed = true
				break
			}
		}
		if !progressed {
			break
		}
	}
	s.on = false
	out := []string{"T " + strings.Join(trace, " ")}
	switch {
	case s.crashed:
		out = append(out, "CRASH "+strings.ReplaceAll(s.panicMsg, " ", "_"))
		return strings.Join(out, " | ")
	case s.hang:
		out = append(out, "HANG")
		return strings.Join(out, " | ")
	case s.unfinished():
		out = append(out, "DEADLOCK")
		return strings.Join(out, " | ")
	}
	for w, wk := range s.workers {
		for i, r := range wk.replies {
			out = append(out, fmt.Sprintf("r%d: %s", w, r))
			if wk.views[i] != "" {
				out = append(out, fmt.Sprintf("v%d: %s", w, wk.views[i]))
			}
		}
	}
	out = append(out, vdump(module))

	// later writes: overwrite every consumer ring slot and broker ring slot, then re-format the delivered replies
	alias := 0
	func() {
		defer func() { recover() }()
		log := zap.NewNop()
		for c, cm := range module.offsets {
			type tp struct {
				g, t string
				n    int
			}
			var todo []tp
			for g, grp := range cm.consumer {
				for tn, parts := range grp.topics {
					todo = append(todo, tp{g, tn, len(parts)})
				}
			}
			for _, x := range todo {
				for p := 0; p < x.n; p++ {
					for k := int64(0); k <= intervals; k++ {
						module.addBrokerOffset(&protocol.StorageRequest{RequestType: protocol.StorageSetBrokerOffset, Cluster: c, Topic: x.t,
							Partition: int32(p), TopicPartitionCount: int32(x.n), Offset: 900000 + k, Timestamp: now * 1000}, log)
						module.addConsumerOffset(&protocol.StorageRequest{RequestType: protocol.StorageSetConsumerOffset, Cluster: c, Group: x.g,
							Topic: x.t, Partition: int32(p), Offset: 800000 + k, Order: 1000000 + k, Timestamp: now*1000 + (k+1)*(mindist+1)*1000}, log)
					}
					module.addConsumerOwner(&protocol.StorageRequest{RequestType: protocol.StorageSetConsumerOwner, Cluster: c, Group: x.g,
						Topic: x.t, Partition: int32(p), Owner: "o77", ClientID: "c77"}, log)
				}
			}
		}
	}()
	for _, wk := range s.workers {
		for i, v := range wk.objs {
			if vfmtReply(wk.kinds[i], v) != wk.replies[i] {
				alias = 1
			}
		}
	}
	out = append(out, fmt.Sprintf("alias=%d", alias))
	return strings.Join(out, " | ")
}

func TestVerifProbeStorageconc(t *testing.T) {
	casesPath, outPath := os.Getenv("VERIF_CASES"), os.Getenv("VERIF_OUT")
	if casesPath == "" || outPath == "" {
		t.Skip("VERIF_CASES / VERIF_OUT not set")
	}
	in, err := os.Open(casesPath)
	if err != nil {
		t.Fatal(err)
	}
	defer in.Close()
	outf, err := os.Create(outPath)
	if err != nil {
		t.Fatal(err)
	}
	defer outf.Close()
	w := bufio.NewWriter(outf)
	defer w.Flush()
	sc := bufio.NewScanner(in)
	sc.Buffer(make([]byte, 1<<20), 1<<26)
	for sc.Scan() {
		line := strings.TrimSpace(sc.Text())
		if line == "" {
			continue
		}
		tk := &vtoks{f: strings.Fields(line)}
		if k := tk.next(); k != "conc" {
			t.Fatalf("unknown case kind %q", k)
		}
		fmt.Fprintln(w, vcase(tk))
		w.Flush()
	}
}

// ---------------------------------------------------------------------------------------------
// stress through the public channel (thorough tier, built with -race): only to FIND replays
// ---------------------------------------------------------------------------------------------

func TestVerifProbeStorageconcStress(t *testing.T) {
	if os.Getenv("VERIF_STRESS") == "" {
		t.Skip("VERIF_STRESS not set")
	}
	seed, _ := strconv.ParseInt(os.Getenv("VERIF_SEED"), 10, 64)
	dur, _ := strconv.Atoi(os.Getenv("VERIF_STRESS"))
	module := vnewModule(3, 1000000, 0, []int64{1}, 8)
	defer module.Stop()
	ch := module.GetCommunicationChannel()
	var wg sync.WaitGroup
	stop := time.Now().Add(time.Duration(dur) * time.Second)
	nowms := time.Now().Unix() * 1000
	for g := 0; g < 16; g++ {
		wg.Add(1)
		go func(g int) {
			defer wg.Done()
			rng := rand.New(rand.NewSource(seed*100 + int64(g)))
			n := int64(0)
			for time.Now().Before(stop) {
				n++
				grp := vname("g", int64(1+rng.Intn(6)))
				tp := vname("t", int64(1+rng.Intn(3)))
				var r *protocol.StorageRequest
				switch rng.Intn(10) {
				case 0, 1:
					cnt := int32(1 + rng.Intn(3))
					r = &protocol.StorageRequest{RequestType: protocol.StorageSetBrokerOffset, Cluster: "k1", Topic: tp, Partition: rng.Int31n(cnt),
						TopicPartitionCount: cnt, Offset: 1000 + n, Timestamp: nowms}
				case 2, 3, 4:
					r = &protocol.StorageRequest{RequestType: protocol.StorageSetConsumerOffset, Cluster: "k1", Group: grp, Topic: tp,
						Partition: rng.Int31n(3), Offset: n, Order: n + int64(g)*1000000, Timestamp: nowms + n}
				case 5:
					r = &protocol.StorageRequest{RequestType: protocol.StorageSetDeleteTopic, Cluster: "k1", Topic: tp}
				case 6:
					top := ""
					if rng.Intn(2) == 0 {
						top = tp
					}
					r = &protocol.StorageRequest{RequestType: protocol.StorageSetDeleteGroup, Cluster: "k1", Group: grp, Topic: top}
				case 7:
					r = &protocol.StorageRequest{RequestType: protocol.StorageFetchConsumer, Cluster: "k1", Group: grp, Reply: make(chan interface{}, 1)}
				case 8:
					r = &protocol.StorageRequest{RequestType: protocol.StorageFetchConsumersForTopic, Cluster: "k1", Topic: tp, Reply: make(chan interface{}, 1)}
				default:
					r = &protocol.StorageRequest{RequestType: protocol.StorageSetConsumerOwner, Cluster: "k1", Group: grp, Topic: tp,
						Partition: rng.Int31n(3), Owner: "o1", ClientID: "c1"}
				}
				ch <- r
				if r.Reply != nil {
					<-r.Reply
				}
			}
		}(g)
	}
	wg.Wait()
}

// ---------------------------------------------------------------------------------------------
// router: which worker does mainLoop hand a request to?  (behavioural side of gen/RouterTable.v)
// ---------------------------------------------------------------------------------------------

// For every StorageRequestConstant 0..N: 48 requests with the same cluster and group are sent through the public
// channel of a module with 4 workers whose worker channels are read by the probe (no handler runs).  One output
// line: `router <type>=<sorted worker indices or closed> ...`.
func TestVerifProbeStorageconcRouter(t *testing.T) {
	outPath := os.Getenv("VERIF_OUT")
	if outPath == "" {
		t.Skip("VERIF_OUT not set")
	}
	viper.Reset()
	viper.Set("storage.test.class-name", "inmemory")
	viper.Set("storage.test.workers", 4)
	module := &InMemoryStorage{Log: zap.NewNop()}
	module.App = &protocol.ApplicationContext{StorageChannel: make(chan *protocol.StorageRequest)}
	module.Configure("test", "storage.test")
	module.workers = make([]chan *protocol.StorageRequest, module.numWorkers)
	for i := range module.workers {
		module.workers[i] = make(chan *protocol.StorageRequest, 64)
	}
	module.mainRunning.Add(1)
	go module.mainLoop()
	var parts []string
	for typ := 0; typ < 16; typ++ {
		seen := map[int]bool{}
		closed := 0
		for k := 0; k < 48; k++ {
			r := &protocol.StorageRequest{RequestType: protocol.StorageRequestConstant(typ), Cluster: "k1", Group: "g7", Topic: "t1", Reply: make(chan interface{}, 1)}
			module.requestChannel <- r
			got := false
			deadline := time.After(2 * time.Second)
			for !got {
				for i, ch := range module.workers {
					select {
					case x := <-ch:
						if x == r {
							seen[i] = true
							got = true
						}
					default:
					}
				}
				if got {
					break
				}
				select {
				case _, ok := <-r.Reply:
					if !ok {
						closed++
						got = true
					}
				case <-deadline:
					got = true
				case <-time.After(time.Millisecond):
				}
			}
		}
		var idx []int
		for i := range seen {
			idx = append(idx, i)
		}
		sort.Ints(idx)
		s := fmt.Sprintf("%d=", typ)
		for _, i := range idx {
			s += strconv.Itoa(i)
		}
		if closed > 0 {
			s += fmt.Sprintf("closed%d", closed)
		}
		parts = append(parts, s)
	}
	close(module.requestChannel)
	module.mainRunning.Wait()
	if err := os.WriteFile(outPath, []byte("router "+strings.Join(parts, " ")+"\n"), 0o644); err != nil {
		t.Fatal(err)
	}
}
