//go:build verif

package storage

// Correspondence probe for the Coq model Burrow.Storage / Burrow.Ring (C01, C02, C09, C10).
// A case is a whole history; the real handlers are called directly, one request at a time.

import (
	"bufio"
	"fmt"
	"os"
	"sort"
	"strconv"
	"strings"
	"testing"

	"github.com/spf13/viper"
	"go.uber.org/zap"

	"github.com/linkedin/Burrow/core/protocol"
)

type stoks struct {
	f []string
	i int
}

func (t *stoks) next() string { s := t.f[t.i]; t.i++; return s }
func (t *stoks) more() bool   { return t.i < len(t.f) }
func (t *stoks) i64() int64 {
	v, err := strconv.ParseInt(t.next(), 10, 64)
	if err != nil {
		panic(err)
	}
	return v
}

func sname(prefix string, id int64) string {
	if id == 0 {
		return ""
	}
	return prefix + strconv.FormatInt(id, 10)
}
func sid(prefix, s string) int64 {
	if s == "" {
		return 0
	}
	v, _ := strconv.ParseInt(strings.TrimPrefix(s, prefix), 10, 64)
	return v
}

func sfmtOff(o *protocol.ConsumerOffset) string {
	if o == nil {
		return "nil"
	}
	lag := "n"
	if o.Lag != nil {
		lag = strconv.FormatUint(o.Lag.Value, 10)
	}
	return fmt.Sprintf("(%d,%d,%d,%s)", o.Offset, o.Order, o.Timestamp, lag)
}

func sfmtStrings(prefix string, r interface{}) string {
	if r == nil {
		return "NIL"
	}
	l := r.([]string)
	ids := make([]int64, len(l))
	for i, s := range l {
		ids[i] = sid(prefix, s)
	}
	sort.Slice(ids, func(a, b int) bool { return ids[a] < ids[b] })
	var sb strings.Builder
	fmt.Fprintf(&sb, "L %d", len(ids))
	for _, v := range ids {
		fmt.Fprintf(&sb, " %d", v)
	}
	return sb.String()
}

func sfmtConsumer(r interface{}) string {
	if r == nil {
		return "NIL"
	}
	topics := r.(protocol.ConsumerTopics)
	ids := make([]int64, 0, len(topics))
	for t := range topics {
		ids = append(ids, sid("t", t))
	}
	sort.Slice(ids, func(a, b int) bool { return ids[a] < ids[b] })
	var sb strings.Builder
	fmt.Fprintf(&sb, "K %d", len(ids))
	for _, id := range ids {
		parts := topics[sname("t", id)]
		fmt.Fprintf(&sb, " %d %d", id, len(parts))
		for _, p := range parts {
			fmt.Fprintf(&sb, " %d %d %d %d", sid("o", p.Owner), sid("c", p.ClientID), p.CurrentLag, len(p.BrokerOffsets))
			for _, b := range p.BrokerOffsets {
				fmt.Fprintf(&sb, " %d", b)
			}
			fmt.Fprintf(&sb, " %d", len(p.Offsets))
			for _, o := range p.Offsets {
				sb.WriteString(" " + sfmtOff(o))
			}
		}
	}
	return sb.String()
}

func fetchReply(f func(*protocol.StorageRequest, *zap.Logger), req *protocol.StorageRequest) interface{} {
	req.Reply = make(chan interface{}, 1)
	f(req, zap.NewNop())
	return <-req.Reply
}

func shistory(t *stoks) (res string) {
	var out []string
	defer func() {
		if r := recover(); r != nil {
			out = append(out, "CRASH")
			res = strings.Join(out, " | ")
		}
	}()
	intervals, expire, mindist := t.i64(), t.i64(), t.i64()
	ncl := int(t.i64())
	clusters := make([]int64, ncl)
	for i := range clusters {
		clusters[i] = t.i64()
	}
	// mode = <lists>[@<via>]
	//   lists: deny | allow | both | wide                      real patterns built from the rejected-id set
	//          edeny | eallow | eboth                          the list key is PRESENT BUT EMPTY ("" = no list configured)
	//          edeny_allow | eallow_deny                       one key present-but-empty, a real pattern on the other list
	//   via:   (none) | set    every option through viper.Set
	//          toml            every option in a TOML document read with viper.ReadConfig (what a deployed Burrow does)
	//          dflt            as toml, but intervals / expire-group / min-distance are left out of the document: the header
	//                          must then carry the documented defaults (10, 604800, 0)
	// Whatever the mode, every option reaches the module through the real Configure; the model gets them from the header.
	mode := t.next()
	nrej := int(t.i64())
	rej := map[int64]bool{}
	for i := 0; i < nrej; i++ {
		rej[t.i64()] = true
	}
	lists, via := mode, "set"
	if k := strings.Index(mode, "@"); k >= 0 {
		lists, via = mode[:k], mode[k+1:]
	}
	var denied, allowed []string
	for g := int64(0); g <= 9; g++ {
		if rej[g] {
			denied = append(denied, "g"+strconv.FormatInt(g, 10))
		} else {
			allowed = append(allowed, "g"+strconv.FormatInt(g, 10))
		}
	}
	denyPat := "^(" + strings.Join(denied, "|") + ")$"
	allowPat := "^(" + strings.Join(allowed, "|") + ")$"
	var allowKey, denyKey *string // nil = key absent
	empty := ""
	wideAllow := "^(g[0-9]+)?$"
	switch lists {
	case "deny":
		if len(denied) > 0 {
			denyKey = &denyPat
		}
	case "allow":
		allowKey = &allowPat
	case "both":
		allowKey = &allowPat
		if len(denied) > 0 {
			denyKey = &denyPat
		}
	case "wide":
		// allowlist matches every generated name (incl. the empty one); exactly the rej ids are denied, so a rejected
		// name is matched by BOTH lists (C10-storage)
		allowKey = &wideAllow
		if len(denied) > 0 {
			denyKey = &denyPat
		}
	case "edeny":
		denyKey = &empty
	case "eallow":
		allowKey = &empty
	case "eboth":
		allowKey, denyKey = &empty, &empty
	case "edeny_allow":
		denyKey, allowKey = &empty, &allowPat
	case "eallow_deny":
		allowKey = &empty
		if len(denied) > 0 {
			denyKey = &denyPat
		}
	default:
		panic("unknown list mode " + lists)
	}
	viper.Reset()
	switch via {
	case "set":
		viper.Set("storage.test.class-name", "inmemory")
		viper.Set("storage.test.intervals", intervals)
		viper.Set("storage.test.expire-group", expire)
		viper.Set("storage.test.min-distance", mindist)
		viper.Set("storage.test.workers", 1)
		if denyKey != nil {
			viper.Set("storage.test.group-denylist", *denyKey)
		}
		if allowKey != nil {
			viper.Set("storage.test.group-allowlist", *allowKey)
		}
		for _, c := range clusters {
			viper.Set("cluster."+sname("k", c)+".class-name", "kafka")
		}
	case "toml", "dflt":
		var doc strings.Builder
		doc.WriteString("[storage.test]\nclass-name=\"inmemory\"\nworkers=2\nqueue-depth=3\n")
		if via == "toml" {
			fmt.Fprintf(&doc, "intervals=%d\nexpire-group=%d\nmin-distance=%d\n", intervals, expire, mindist)
		} else if intervals != 10 || expire != 604800 || mindist != 0 {
			panic("mode @dflt needs the documented defaults 10 604800 0 in the header")
		}
		if denyKey != nil {
			fmt.Fprintf(&doc, "group-denylist='%s'\n", *denyKey)
		}
		if allowKey != nil {
			fmt.Fprintf(&doc, "group-allowlist='%s'\n", *allowKey)
		}
		for _, c := range clusters {
			fmt.Fprintf(&doc, "[cluster.%s]\nclass-name=\"kafka\"\n", sname("k", c))
		}
		viper.SetConfigType("toml")
		if err := viper.ReadConfig(strings.NewReader(doc.String())); err != nil {
			panic(err)
		}
	default:
		panic("unknown config path " + via)
	}
	module := &InMemoryStorage{Log: zap.NewNop()}
	module.App = &protocol.ApplicationContext{StorageChannel: make(chan *protocol.StorageRequest)}
	module.Configure("test", "storage.test")
	module.Start()
	defer module.Stop()
	defer VerifSetClock(0)
	log := zap.NewNop()

	nops := int(t.i64())
	for i := 0; i < nops; i++ {
		op := t.next()
		now := t.i64()
		VerifSetClock(now * 1000000000)
		switch op {
		case "B":
			c, tp, p, cnt, off := t.i64(), t.i64(), t.i64(), t.i64(), t.i64()
			module.addBrokerOffset(&protocol.StorageRequest{RequestType: protocol.StorageSetBrokerOffset, Cluster: sname("k", c), Topic: sname("t", tp),
				Partition: int32(p), TopicPartitionCount: int32(cnt), Offset: off, Timestamp: now * 1000}, log)
		case "C":
			c, g, tp, p, off, order, ts := t.i64(), t.i64(), t.i64(), t.i64(), t.i64(), t.i64(), t.i64()
			module.addConsumerOffset(&protocol.StorageRequest{RequestType: protocol.StorageSetConsumerOffset, Cluster: sname("k", c), Group: sname("g", g),
				Topic: sname("t", tp), Partition: int32(p), Offset: off, Order: order, Timestamp: ts}, log)
		case "O":
			c, g, tp, p, owner, client := t.i64(), t.i64(), t.i64(), t.i64(), t.i64(), t.i64()
			module.addConsumerOwner(&protocol.StorageRequest{RequestType: protocol.StorageSetConsumerOwner, Cluster: sname("k", c), Group: sname("g", g),
				Topic: sname("t", tp), Partition: int32(p), Owner: sname("o", owner), ClientID: sname("c", client)}, log)
		case "X":
			c, g := t.i64(), t.i64()
			module.clearConsumerOwners(&protocol.StorageRequest{RequestType: protocol.StorageClearConsumerOwners, Cluster: sname("k", c), Group: sname("g", g)}, log)
		case "DT":
			c, tp := t.i64(), t.i64()
			module.deleteTopic(&protocol.StorageRequest{RequestType: protocol.StorageSetDeleteTopic, Cluster: sname("k", c), Topic: sname("t", tp)}, log)
		case "DG":
			c, g, tp := t.i64(), t.i64(), t.i64()
			module.deleteGroup(&protocol.StorageRequest{RequestType: protocol.StorageSetDeleteGroup, Cluster: sname("k", c), Group: sname("g", g), Topic: sname("t", tp)}, log)
		case "FC":
			out = append(out, sfmtStrings("k", fetchReply(module.fetchClusterList, &protocol.StorageRequest{RequestType: protocol.StorageFetchClusters})))
		case "FG":
			c := t.i64()
			out = append(out, sfmtStrings("g", fetchReply(module.fetchConsumerList, &protocol.StorageRequest{RequestType: protocol.StorageFetchConsumers, Cluster: sname("k", c)})))
		case "FT":
			c := t.i64()
			out = append(out, sfmtStrings("t", fetchReply(module.fetchTopicList, &protocol.StorageRequest{RequestType: protocol.StorageFetchTopics, Cluster: sname("k", c)})))
		case "FX":
			c, g := t.i64(), t.i64()
			out = append(out, sfmtConsumer(fetchReply(module.fetchConsumer, &protocol.StorageRequest{RequestType: protocol.StorageFetchConsumer, Cluster: sname("k", c), Group: sname("g", g)})))
		case "FO":
			c, tp := t.i64(), t.i64()
			r := fetchReply(module.fetchTopic, &protocol.StorageRequest{RequestType: protocol.StorageFetchTopic, Cluster: sname("k", c), Topic: sname("t", tp)})
			if r == nil {
				out = append(out, "NIL")
			} else {
				l := r.([]int64)
				s := "I " + strconv.Itoa(len(l))
				for _, v := range l {
					s += " " + strconv.FormatInt(v, 10)
				}
				out = append(out, s)
			}
		case "FU":
			c, tp := t.i64(), t.i64()
			out = append(out, sfmtStrings("g", fetchReply(module.fetchConsumersForTopicList, &protocol.StorageRequest{RequestType: protocol.StorageFetchConsumersForTopic, Cluster: sname("k", c), Topic: sname("t", tp)})))
		default:
			panic("unknown op " + op)
		}
	}
	return strings.Join(out, " | ")
}

func TestVerifProbeStorage(t *testing.T) {
	casesPath, outPath := os.Getenv("VERIF_CASES"), os.Getenv("VERIF_OUT")
	if casesPath == "" || outPath == "" {
		t.Skip("VERIF_CASES / VERIF_OUT not set")
	}
	in, err := os.Open(casesPath)
	if err != nil {
		t.Fatal(err)
	}
	defer in.Close()
	outf, err := os.Create(outPath)
	if err != nil {
		t.Fatal(err)
	}
	defer outf.Close()
	w := bufio.NewWriter(outf)
	defer w.Flush()
	sc := bufio.NewScanner(in)
	sc.Buffer(make([]byte, 1<<20), 1<<26)
	for sc.Scan() {
		line := strings.TrimSpace(sc.Text())
		if line == "" {
			continue
		}
		tk := &stoks{f: strings.Fields(line)}
		if k := tk.next(); k != "hist" {
			t.Fatalf("unknown case kind %q", k)
		}
		fmt.Fprintln(w, shistory(tk))
	}
}
