//go:build verif

package httpserver

// Probe for C18 (no HTTP response reveals a configured password).
//
// A deliberately dumb executor: every case line carries (hex of) one JSON document
//
//	{"config": {...}, "world": {...}, "ready": bool, "requests": [{"m": method, "p": raw path, "b": body}, ...]}
//
// The configuration is loaded into the global viper exactly as given (viper.ReadConfig, JSON), the REAL coordinator is
// configured (Configure registers the real routes) and every request is served through coordinator.router.ServeHTTP
// with a scripted storage/evaluator responder behind App.StorageChannel / App.EvaluatorChannel.  The complete
// response -- status, every header, the raw body -- is written back (hex of a JSON array).  All judging (token
// search in every encoding, cfg vs cfg' comparison, taint explanation against the read table) happens in
// checks/c18.py, so that the oracle is the property itself and sits in one place.

import (
	"bufio"
	"bytes"
	"encoding/base64"
	"encoding/hex"
	"encoding/json"
	"fmt"
	"net/http"
	"net/http/httptest"
	"os"
	"sort"
	"strings"
	"sync"
	"testing"

	"github.com/spf13/viper"
	"go.uber.org/zap"

	"github.com/linkedin/Burrow/core/protocol"
)

type vcRequest struct {
	M string `json:"m"`
	P string `json:"p"`
	B string `json:"b"`
}

type vcCluster struct {
	Topics map[string][]int64 `json:"topics"`
	Groups map[string]int     `json:"groups"` // group -> status constant
}

type vcCase struct {
	Config   map[string]interface{} `json:"config"`
	World    map[string]*vcCluster  `json:"world"`
	Ready    bool                   `json:"ready"`
	Requests []vcRequest            `json:"requests"`
	// Env: settings supplied through the environment instead of the document, read by viper exactly as main.go sets it
	// up (SetEnvPrefix("burrow"), key replacer "." / "-" -> "_", AutomaticEnv): e.g. BURROW_SASL_X_PASSWORD
	Env map[string]string `json:"env"`
}

type vcResponse struct {
	Code    int               `json:"code"` // -1 bad URL, -2 handler panicked
	Headers map[string]string `json:"headers"`
	Body    string            `json:"body"` // base64
}

type vcResponder struct {
	done chan struct{}
	wg   sync.WaitGroup
}

func vcSortedKeys(m map[string]*vcCluster) []string {
	ks := make([]string, 0, len(m))
	for k := range m {
		ks = append(ks, k)
	}
	sort.Strings(ks)
	return ks
}

// vcStartResponder answers storage and evaluator requests from the world (which carries no configuration).
func vcStartResponder(app *protocol.ApplicationContext, w map[string]*vcCluster) *vcResponder {
	r := &vcResponder{done: make(chan struct{})}
	r.wg.Add(1)
	go func() {
		defer r.wg.Done()
		for {
			select {
			case <-r.done:
				return
			case q := <-app.StorageChannel:
				if q.Reply == nil {
					continue
				}
				var base interface{}
				c := w[q.Cluster]
				switch q.RequestType {
				case protocol.StorageFetchClusters:
					base = vcSortedKeys(w)
				case protocol.StorageFetchTopics:
					if c != nil {
						l := make([]string, 0)
						for t := range c.Topics {
							l = append(l, t)
						}
						sort.Strings(l)
						base = l
					}
				case protocol.StorageFetchConsumers, protocol.StorageFetchConsumersForTopic:
					if c != nil {
						l := make([]string, 0)
						for g := range c.Groups {
							l = append(l, g)
						}
						sort.Strings(l)
						base = l
					}
				case protocol.StorageFetchTopic:
					if c != nil {
						if o, ok := c.Topics[q.Topic]; ok {
							base = o
						}
					}
				case protocol.StorageFetchConsumer:
					if c != nil {
						if _, ok := c.Groups[q.Group]; ok {
							base = protocol.ConsumerTopics{"t": protocol.ConsumerPartitions{&protocol.ConsumerPartition{Owner: "o"}, nil}}
						}
					}
				}
				if base != nil {
					q.Reply <- base
				}
				close(q.Reply)
			case e := <-app.EvaluatorChannel:
				st := &protocol.ConsumerGroupStatus{Cluster: e.Cluster, Group: e.Group, Status: protocol.StatusNotFound,
					Partitions: make([]*protocol.PartitionStatus, 0)}
				if c := w[e.Cluster]; c != nil {
					if g, ok := c.Groups[e.Group]; ok {
						st.Status = protocol.StatusConstant(g)
						st.Complete = 1.0
						st.TotalPartitions = 1
					}
				}
				e.Reply <- st
				close(e.Reply)
			}
		}
	}()
	return r
}

func (r *vcResponder) stop() {
	close(r.done)
	r.wg.Wait()
}

func vcCoordinator(cfg map[string]interface{}, ready bool, env map[string]string) *Coordinator {
	logLevel := zap.NewAtomicLevelAt(zap.InfoLevel)
	coordinator := &Coordinator{
		Log: zap.NewNop(),
		App: &protocol.ApplicationContext{
			Logger:           zap.NewNop(),
			LogLevel:         &logLevel,
			StorageChannel:   make(chan *protocol.StorageRequest),
			EvaluatorChannel: make(chan *protocol.EvaluatorRequest),
			AppReady:         ready,
		},
	}
	viper.Reset()
	js, err := json.Marshal(cfg)
	if err != nil {
		panic(err)
	}
	viper.SetConfigType("json")
	if err := viper.ReadConfig(bytes.NewReader(js)); err != nil {
		panic(err)
	}
	if len(env) > 0 {
		// as main.go does after reading the file
		viper.SetDefault("general.env-var-prefix", "burrow")
		viper.SetEnvPrefix(viper.GetString("general.env-var-prefix"))
		viper.SetEnvKeyReplacer(strings.NewReplacer(".", "_", "-", "_"))
		viper.AutomaticEnv()
	}
	coordinator.Configure()
	return coordinator
}

func vcServe(coordinator *Coordinator, rq vcRequest) (out vcResponse) {
	var req *http.Request
	var err error
	if rq.B != "" {
		req, err = http.NewRequest(rq.M, rq.P, strings.NewReader(rq.B))
	} else {
		req, err = http.NewRequest(rq.M, rq.P, http.NoBody)
	}
	if err != nil {
		return vcResponse{Code: -1}
	}
	rr := httptest.NewRecorder()
	crashed := ""
	func() {
		defer func() {
			if r := recover(); r != nil {
				crashed = fmt.Sprint(r)
			}
		}()
		coordinator.router.ServeHTTP(rr, req)
	}()
	hs := map[string]string{}
	for k, v := range rr.Header() {
		hs[k] = base64.StdEncoding.EncodeToString([]byte(strings.Join(v, "\n")))
	}
	body := rr.Body.Bytes()
	if crashed != "" {
		// a panic message is written to the log / returned by net/http's recovery, keep it visible to the oracle
		return vcResponse{Code: -2, Headers: hs, Body: base64.StdEncoding.EncodeToString(append(body, []byte("\nPANIC: "+crashed)...))}
	}
	return vcResponse{Code: rr.Code, Headers: hs, Body: base64.StdEncoding.EncodeToString(body)}
}

func vcRunLine(line string) (res string) {
	defer func() {
		if r := recover(); r != nil {
			res = "PROBE-ERROR " + hex.EncodeToString([]byte(fmt.Sprint(r)))
		}
	}()
	f := strings.Fields(line)
	if len(f) != 2 || f[0] != "run" {
		return "PROBE-ERROR " + hex.EncodeToString([]byte("unknown case kind"))
	}
	raw, err := hex.DecodeString(f[1])
	if err != nil {
		panic(err)
	}
	var c vcCase
	dec := json.NewDecoder(bytes.NewReader(raw))
	dec.UseNumber()
	if err := dec.Decode(&c); err != nil {
		panic(err)
	}
	for k, v := range c.Env {
		os.Setenv(k, v)
	}
	defer func() {
		for k := range c.Env {
			os.Unsetenv(k)
		}
	}()
	coordinator := vcCoordinator(c.Config, c.Ready, c.Env)
	resp := vcStartResponder(coordinator.App, c.World)
	out := make([]vcResponse, len(c.Requests))
	for i, rq := range c.Requests {
		out[i] = vcServe(coordinator, rq)
	}
	resp.stop()
	js, err := json.Marshal(out)
	if err != nil {
		panic(err)
	}
	return "OK " + hex.EncodeToString(js)
}

func TestVerifProbeHttpcfg(t *testing.T) {
	in, err := os.Open(os.Getenv("VERIF_CASES"))
	if err != nil {
		t.Skip("VERIF_CASES not set")
	}
	defer in.Close()
	out, err := os.Create(os.Getenv("VERIF_OUT"))
	if err != nil {
		t.Fatal(err)
	}
	defer out.Close()
	w := bufio.NewWriter(out)
	defer w.Flush()
	sc := bufio.NewScanner(in)
	sc.Buffer(make([]byte, 1<<20), 1<<28)
	for sc.Scan() {
		line := sc.Text()
		if strings.TrimSpace(line) == "" {
			continue
		}
		fmt.Fprintln(w, vcRunLine(line))
	}
}
