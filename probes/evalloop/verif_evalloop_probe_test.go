//go:build verif

package notifier

// Correspondence probe for the Coq model Burrow.EvalLoop (C15).
//
//   loop <conn0> <step>...    a real Coordinator (fixtureCoordinator + Configure + Start) whose App.Zookeeper is a
//                             scripted fake; every step is a '+'-joined list of environment actions
//                               ok / err   complete the pending lock.Lock() with nil / an error
//                               okx        complete it with nil, but Broadcast the expiry inside Lock() before it returns
//                               uok        complete the pending lock.Unlock() with nil
//                               x          App.ZookeeperExpired.Broadcast()
//                               c / d      App.ZookeeperConnected = true / false
//                             after the actions the probe lets the loop settle, then observes for a window whether
//                             requests keep arriving on App.EvaluatorChannel and which lock call is outstanding.
//                             Output per step: [!]<L|U|-><0|1>  ('!' = an action found no outstanding call).
//   pace <mi> <groups> <events>   sendEvaluatorRequests under the virtual clock; t <now> = let the loop iterate at
//                             clock now, r <now> <list> = processConsumerList with that consumer list.
//
//   cfg <src> <root> <slow> <mods> <now0> <groups> <events>
//                             the REAL Coordinator.Configure on a generated viper configuration (src = set: viper.Set,
//                             toml: viper.ReadConfig of a TOML document; per module: name id, class null/http/email, and
//                             the interval / send-interval / threshold keys, '-' = absent, prefix L/F/S = int64 / float /
//                             string value), prints MI:<nc.minInterval>; then the loop it configured is Started with
//                             the scripted fake lock and driven under the virtual clock -- minInterval, doEvaluations and
//                             the set of known groups (storage replies) are all produced by the real code:
//                               k <now>  clock := now; complete a pending Unlock() with nil, then the pending Lock() with nil
//                               e        complete a pending Unlock() with nil, then the pending Lock() with an error (and
//                                        wait for the next Lock() call)
//                               x        Broadcast the expiry (connection stays up), wait for the Unlock() call
//                               t <now>  clock := now, let the request loop iterate
//                               r <now> <list>  group list refresh at clock now
//                               rs <now> <c|g> <list>  the same, but the storage request (cluster list / first consumer
//                                        list) is not taken off App.StorageChannel within the 1 s timeout
//                               ue <now> clock := now; complete the pending Unlock() with an ERROR
//                               rp <now> <list>  r through the real storage path even when rand.Int63n(minInterval*1000)
//                                        will panic in a goroutine of the Coordinator: the child dies = outcome PANIC
//                               af <mode> answer now every request held since `a hold` (a LATE reply); AF:<n>:<notified>
//                               a <mode> from now on every evaluator request is ANSWERED through the real reply path
//                                        (nc.evaluatorResponse -> responseLoop -> checkAndSendResponseToModules ->
//                                        notifyModule): none | nil | nf | ok | warn | err | stop | stall | rewind
//                             cases with rs / ue / a run in a child process each (in parallel): HEAD panics on a failing
//                             Unlock() -- the death of the child is the outcome PANIC
//
// Loop scenarios use the real clock and run in parallel on separate Coordinators; pace cases run afterwards, serially.

import (
	"bufio"
	"bytes"
	"errors"
	"fmt"
	"os"
	"os/exec"
	"sort"
	"strconv"
	"strings"
	"sync"
	"sync/atomic"
	"testing"
	"time"

	zk "github.com/linkedin/go-zk"
	"github.com/spf13/viper"

	"github.com/linkedin/Burrow/core/protocol"
)

// ---- scripted fake Zookeeper client / lock -------------------------------------------------------------------

type vLockResult struct {
	err          error
	expireBefore bool
}

type vFakeLock struct {
	app         *protocol.ApplicationContext
	lockRes     chan vLockResult
	unlockRes   chan error
	pendLock    atomic.Int32
	pendUnlock  atomic.Int32
	lockCalls   atomic.Int32
	unlockCalls atomic.Int32
}

func (l *vFakeLock) Lock() error {
	l.lockCalls.Add(1)
	l.pendLock.Store(1)
	r := <-l.lockRes
	if r.expireBefore {
		// the session expires after the lock was granted and before Lock() returns to manageEvalLoop
		l.app.ZookeeperExpired.Broadcast()
	}
	l.pendLock.Store(0)
	return r.err
}

func (l *vFakeLock) Unlock() error {
	l.unlockCalls.Add(1)
	l.pendUnlock.Store(1)
	e := <-l.unlockRes
	l.pendUnlock.Store(0)
	return e
}

type vFakeZk struct {
	lock     *vFakeLock
	lockPath atomic.Value
}

func (z *vFakeZk) Close() {}
func (z *vFakeZk) ChildrenW(path string) ([]string, *zk.Stat, <-chan zk.Event, error) {
	return nil, nil, nil, errors.New("not scripted")
}
func (z *vFakeZk) GetW(path string) ([]byte, *zk.Stat, <-chan zk.Event, error) {
	return nil, nil, nil, errors.New("not scripted")
}
func (z *vFakeZk) Exists(path string) (bool, *zk.Stat, error) { return false, nil, errors.New("not scripted") }
func (z *vFakeZk) ExistsW(path string) (bool, *zk.Stat, <-chan zk.Event, error) {
	return false, nil, nil, errors.New("not scripted")
}
func (z *vFakeZk) Create(string, []byte, int32, []zk.ACL) (string, error) {
	return "", errors.New("not scripted")
}
func (z *vFakeZk) NewLock(path string) protocol.ZookeeperLock {
	z.lockPath.Store(path)
	return z.lock
}

// ---- loop scenarios ------------------------------------------------------------------------------------------

type vScenario struct {
	nc      *Coordinator
	lock    *vFakeLock
	zk      *vFakeZk
	arrived atomic.Int64 // number of evaluator requests received so far
	lastArr atomic.Int64 // unix nanos of the latest arrival
	badReq  atomic.Int32
	stop    chan struct{}
	badMI   bool
	mi      int64
}

func vGraceMult() time.Duration {
	if v, err := strconv.Atoi(os.Getenv("VERIF_GRACE_MULT")); err == nil && v > 0 {
		return time.Duration(v)
	}
	return 1
}

// vNewScenario must be called serially (fixtureCoordinator/Configure use viper's global state).
func vNewScenario(conn0 bool) *vScenario {
	nc := fixtureCoordinator()
	// interval 1 (the smallest Configure accepts since /repo 38fa1ff), reaching nc.minInterval through the real Configure;
	// if it does not, the scenario is not run (badMI).  The heartbeat -- every iteration of sendEvaluatorRequests
	// re-evaluates while doEvaluations holds -- comes from the clock: while the loop scenarios run, the virtual clock
	// jumps 2 s every 0.3 ms (vFastClock), so g1 is due again at each 1 ms iteration.
	viper.Set("notifier.test.interval", 1)
	cfgPanic := false
	func() {
		defer func() {
			if r := recover(); r != nil {
				cfgPanic = true
			}
		}()
		nc.Configure()
	}()
	sc := &vScenario{nc: nc, stop: make(chan struct{})}
	sc.badMI = cfgPanic || nc.minInterval != 1
	sc.mi = nc.minInterval
	if cfgPanic {
		sc.mi = -1
		return sc
	}
	sc.lock = &vFakeLock{app: nc.App, lockRes: make(chan vLockResult), unlockRes: make(chan error)}
	sc.zk = &vFakeZk{lock: sc.lock}
	nc.App.Zookeeper = sc.zk
	nc.App.ZookeeperConnected = conn0
	nc.clusters["c1"] = &clusterGroups{Lock: &sync.RWMutex{}, Groups: make(map[string]*consumerGroup)}
	nc.clusters["c1"].Groups["g1"] = &consumerGroup{LastNotify: make(map[string]time.Time), LastEval: time.Unix(0, 0)}
	return sc
}

func (sc *vScenario) reader() {
	for {
		select {
		case r := <-sc.nc.App.EvaluatorChannel:
			if r.Cluster != "c1" || r.Group != "g1" {
				sc.badReq.Add(1)
			}
			sc.lastArr.Store(time.Now().UnixNano())
			sc.arrived.Add(1)
		case <-sc.stop:
			return
		}
	}
}

func vWaitFlag(f *atomic.Int32, d time.Duration) bool {
	deadline := time.Now().Add(d)
	for time.Now().Before(deadline) {
		if f.Load() == 1 {
			return true
		}
		time.Sleep(2 * time.Millisecond)
	}
	return f.Load() == 1
}

func (sc *vScenario) run(steps []string) string {
	if sc.badMI {
		return fmt.Sprintf("BADMI:%d", sc.mi)
	}
	m := vGraceMult()
	settle := 260 * time.Millisecond * m
	window := 60 * time.Millisecond * m
	callWait := 1500 * time.Millisecond * m
	go sc.reader()
	if err := sc.nc.Start(); err != nil {
		return "STARTERR"
	}
	time.Sleep(settle)
	var out []string
	var lateMax int64
	for _, stp := range steps {
		bad := false
		var expiredAt int64
		for _, a := range strings.Split(stp, "+") {
			switch a {
			case "ok", "err", "okx":
				if !vWaitFlag(&sc.lock.pendLock, callWait) {
					bad = true
					continue
				}
				r := vLockResult{}
				if a == "err" {
					r.err = errors.New("scripted lock failure")
				}
				r.expireBefore = a == "okx"
				sc.lock.lockRes <- r
			case "uok":
				if !vWaitFlag(&sc.lock.pendUnlock, callWait) {
					bad = true
					continue
				}
				sc.lock.unlockRes <- nil
			case "x":
				sc.nc.App.ZookeeperExpired.Broadcast()
				expiredAt = time.Now().UnixNano()
			case "c":
				sc.nc.App.ZookeeperConnected = true
			case "d":
				sc.nc.App.ZookeeperConnected = false
			default:
				return "BADACTION:" + a
			}
		}
		time.Sleep(settle)
		before := sc.arrived.Load()
		time.Sleep(window)
		flowing := sc.arrived.Load() > before
		pend := "-"
		if sc.lock.pendLock.Load() == 1 {
			pend = "L"
		} else if sc.lock.pendUnlock.Load() == 1 {
			pend = "U"
		}
		o := pend
		if flowing {
			o += "1"
		} else {
			o += "0"
			if expiredAt != 0 {
				if d := sc.lastArr.Load() - expiredAt; d > lateMax {
					lateMax = d
				}
			}
		}
		if bad {
			o = "!" + o
		}
		out = append(out, o)
	}
	// wind down: the request loop stops on doEvaluations=false (as Stop does); manageEvalLoop itself never exits
	sc.nc.Stop()
	time.Sleep(5 * time.Millisecond)
	close(sc.stop)
	res := strings.Join(out, " ")
	if sc.badReq.Load() != 0 {
		res += " BADREQ"
	}
	if p, _ := sc.zk.lockPath.Load().(string); p != "/burrow/notifier" {
		res += " BADLOCKPATH:" + p
	}
	if os.Getenv("VERIF_DEBUG") != "" {
		fmt.Fprintf(os.Stderr, "loop: latest request after an observed expiry: %.1f ms; lock calls %d unlock calls %d\n",
			float64(lateMax)/1e6, sc.lock.lockCalls.Load(), sc.lock.unlockCalls.Load())
	}
	return res
}

// ---- pacing --------------------------------------------------------------------------------------------------

func vGid(name string) int {
	v, _ := strconv.Atoi(name[1:])
	return v
}

func vCluster(g int) string { return "c" + strconv.Itoa(g%3) }

func vPace(f []string) (res string) {
	i := 0
	next := func() string { s := f[i]; i++; return s }
	nextI := func() int64 {
		v, err := strconv.ParseInt(next(), 10, 64)
		if err != nil {
			panic(err)
		}
		return v
	}
	mi := nextI()
	gm := vGraceMult()
	nc := fixtureCoordinator()
	nc.Configure()
	nc.minInterval = mi
	for c := 0; c < 3; c++ {
		nc.clusters["c"+strconv.Itoa(c)] = &clusterGroups{Lock: &sync.RWMutex{}, Groups: make(map[string]*consumerGroup)}
	}
	ng := int(nextI())
	for k := 0; k < ng; k++ {
		g, le := int(nextI()), nextI()
		nc.clusters[vCluster(g)].Groups["g"+strconv.Itoa(g)] = &consumerGroup{LastNotify: make(map[string]time.Time), LastEval: time.Unix(0, le)}
	}
	var mu sync.Mutex
	var got []string
	stop := make(chan struct{})
	go func() {
		for {
			select {
			case r := <-nc.App.EvaluatorChannel:
				mu.Lock()
				if r.Cluster != vCluster(vGid(r.Group)) || r.ShowAll {
					got = append(got, "BAD")
				} else {
					got = append(got, r.Group)
				}
				mu.Unlock()
			case <-stop:
				return
			}
		}
	}()
	defer close(stop)
	take := func() []string {
		// quiesce: wait until nothing has arrived for a few loop iterations
		last := -1
		for k := 0; k < 200; k++ {
			time.Sleep(6 * time.Millisecond * gm)
			mu.Lock()
			n := len(got)
			mu.Unlock()
			if n == last {
				break
			}
			last = n
		}
		mu.Lock()
		defer mu.Unlock()
		r := got
		got = nil
		return r
	}

	nev := int(nextI())
	started := false
	var out []string
	defer func() {
		nc.doEvaluations = false
		time.Sleep(3 * time.Millisecond)
		VerifSetClock(0)
	}()
	for k := 0; k < nev; k++ {
		switch next() {
		case "t":
			now := nextI()
			VerifSetClock(now)
			if !started {
				started = true
				nc.doEvaluations = true
				nc.running.Add(1)
				go nc.sendEvaluatorRequests()
			}
			time.Sleep(8 * time.Millisecond * gm) // several 1 ms iterations at this clock value
			gs := take()
			ids := make([]int, 0, len(gs))
			bad := false
			for _, g := range gs {
				if g == "BAD" {
					bad = true
					continue
				}
				ids = append(ids, vGid(g))
			}
			sort.Ints(ids)
			ss := make([]string, len(ids))
			for j, v := range ids {
				ss[j] = strconv.Itoa(v)
			}
			o := "T:" + strings.Join(ss, ",")
			if bad {
				o += "BAD"
			}
			out = append(out, o)
		case "r":
			now := nextI()
			n := int(nextI())
			VerifSetClock(now)
			lists := map[string][]string{"c0": nil, "c1": nil, "c2": nil}
			draws := map[string]int64{}
			for j := 0; j < n; j++ {
				g, r := int(nextI()), nextI()
				name := "g" + strconv.Itoa(g)
				lists[vCluster(g)] = append(lists[vCluster(g)], name)
				draws[name] = r
			}
			before := map[string]bool{}
			for _, cg := range nc.clusters {
				for name := range cg.Groups {
					before[name] = true
				}
			}
			panicked := false
			for c := 0; c < 3 && !panicked; c++ {
				cl := "c" + strconv.Itoa(c)
				func() {
					defer func() {
						if r := recover(); r != nil {
							panicked = true
						}
					}()
					ch := make(chan interface{}, 1)
					ch <- lists[cl]
					nc.running.Add(1)
					nc.processConsumerList(cl, ch)
				}()
			}
			if panicked {
				out = append(out, "PANIC")
				return strings.Join(out, " ")
			}
			// a new entry's LastEval is now - rand.Int63n(minInterval*1000) ms: check the range the model assumes, then
			// pin the draw to the scripted one
			var ents []string
			rangeBad := false
			type ent struct {
				g  int
				le int64
			}
			var es []ent
			for _, cg := range nc.clusters {
				cg.Lock.Lock()
				for name, gi := range cg.Groups {
					if !before[name] {
						d := now - gi.LastEval.UnixNano()
						if d < 0 || d >= mi*1000*1000000 || d%1000000 != 0 {
							rangeBad = true
						}
						gi.LastEval = time.Unix(0, now-draws[name]*1000000)
					}
					es = append(es, ent{vGid(name), gi.LastEval.UnixNano()})
				}
				cg.Lock.Unlock()
			}
			sort.Slice(es, func(a, b int) bool { return es[a].g < es[b].g })
			for _, e := range es {
				ents = append(ents, fmt.Sprintf("%d=%d", e.g, e.le))
			}
			o := "R:" + strings.Join(ents, ",")
			if rangeBad {
				o += "RANGEBAD"
			}
			out = append(out, o)
		default:
			return "BADEVENT"
		}
	}
	return strings.Join(out, " ")
}

// ---- configuration + configured loop ---------------------------------------------------------------------------

type vModCfg struct {
	name, class string
	keys        [3]string // interval, send-interval, threshold tokens ("-" = absent)
}

var vCfgKeys = [3]string{"interval", "send-interval", "threshold"}

func vTokVal(tok string) (kind byte, v int64) {
	kind = 'I'
	num := tok
	switch tok[0] {
	case 'L', 'F', 'S':
		kind = tok[0]
		num = tok[1:]
	}
	v, err := strconv.ParseInt(num, 10, 64)
	if err != nil {
		panic(err)
	}
	return kind, v
}

func vClassKeys(class string) [][2]string {
	switch class {
	case "http":
		return [][2]string{{"url-open", "http://localhost:1/open"}}
	case "email":
		return [][2]string{{"server", "smtp.example.com"}, {"from", "burrow@example.com"}, {"to", "oncall@example.com"}}
	}
	return nil
}

func vLoadConfig(src string, mods []vModCfg) error {
	viper.Reset()
	if src == "set" {
		for _, m := range mods {
			root := "notifier." + m.name + "."
			viper.Set(root+"class-name", m.class)
			viper.Set(root+"template-open", "template_open")
			for _, kv := range vClassKeys(m.class) {
				viper.Set(root+kv[0], kv[1])
			}
			if m.class == "email" {
				viper.Set(root+"port", 25)
			}
			for k, tok := range m.keys {
				if tok == "-" {
					continue
				}
				kind, v := vTokVal(tok)
				switch kind {
				case 'I':
					viper.Set(root+vCfgKeys[k], int(v))
				case 'L':
					viper.Set(root+vCfgKeys[k], v)
				case 'F':
					viper.Set(root+vCfgKeys[k], float64(v))
				case 'S':
					viper.Set(root+vCfgKeys[k], strconv.FormatInt(v, 10))
				}
			}
		}
		return nil
	}
	var b bytes.Buffer
	b.WriteString("[general]\npidfile = \"x\"\n")
	for _, m := range mods {
		fmt.Fprintf(&b, "[notifier.%s]\nclass-name = %q\ntemplate-open = \"template_open\"\n", m.name, m.class)
		for _, kv := range vClassKeys(m.class) {
			fmt.Fprintf(&b, "%s = %q\n", kv[0], kv[1])
		}
		if m.class == "email" {
			b.WriteString("port = 25\n")
		}
		for k, tok := range m.keys {
			if tok == "-" {
				continue
			}
			kind, v := vTokVal(tok)
			switch kind {
			case 'I', 'L':
				fmt.Fprintf(&b, "%s = %d\n", vCfgKeys[k], v)
			case 'F':
				fmt.Fprintf(&b, "%s = %d.0\n", vCfgKeys[k], v)
			case 'S':
				fmt.Fprintf(&b, "%s = \"%d\"\n", vCfgKeys[k], v)
			}
		}
	}
	viper.SetConfigType("toml")
	return viper.ReadConfig(&b)
}

func vCfg(f []string, sink func(string)) (res string) {
	i := 0
	next := func() string { s := f[i]; i++; return s }
	nextI := func() int64 {
		v, err := strconv.ParseInt(next(), 10, 64)
		if err != nil {
			panic(err)
		}
		return v
	}
	src, root, slow := next(), next(), next() == "1"
	nm := int(nextI())
	mods := make([]vModCfg, nm)
	for k := range mods {
		mods[k].name = "m" + next()
		mods[k].class = next()
		for j := 0; j < 3; j++ {
			mods[k].keys[j] = next()
		}
	}
	nc := fixtureCoordinator()
	nc.App.ZookeeperRoot = root
	if err := vLoadConfig(src, mods); err != nil {
		return "CFGLOADERR:" + strings.ReplaceAll(err.Error(), " ", "_")
	}
	cfgPanic := false
	func() {
		defer func() {
			if r := recover(); r != nil {
				cfgPanic = true
			}
		}()
		nc.Configure()
	}()
	if cfgPanic {
		return "CFGPANIC"
	}
	mi := nc.minInterval
	out := []string{fmt.Sprintf("MI:%d", mi), fmt.Sprintf("NM:%d", len(nc.modules))}
	// every output token goes to the sink at once: in a child process (see vIsolated) the tokens written before the
	// process dies are the observation
	put := func(tok string) {
		out = append(out, tok)
		if sink != nil {
			sink(tok)
		}
	}
	if sink != nil {
		for _, tok := range out {
			sink(tok)
		}
	}
	now0 := nextI()
	ng := int(nextI())
	type gle struct {
		g  int
		le int64
	}
	groups := make([]gle, ng)
	for k := range groups {
		groups[k] = gle{int(nextI()), nextI()}
	}
	nev := int(nextI())
	if nev == 0 {
		return strings.Join(out, " ")
	}

	m := vGraceMult()
	callWait := 1500 * time.Millisecond * m
	lock := &vFakeLock{app: nc.App, lockRes: make(chan vLockResult), unlockRes: make(chan error)}
	fzk := &vFakeZk{lock: lock}
	nc.App.Zookeeper = fzk
	nc.App.ZookeeperConnected = true

	// evaluator side: every request that arrives, in arrival order; `hold` models a slow evaluator (nothing is read
	// from the channel while it is set)
	var mu sync.Mutex
	var got []string
	var hold atomic.Int32
	var ansMode atomic.Int64 // -2: requests are not answered; -1: a nil reply; >= 0: a reply with that status
	var answered atomic.Int64
	var heldMu sync.Mutex
	var held []*protocol.EvaluatorRequest // mode hold: requests the evaluator has taken but not answered yet
	ansMode.Store(-2)
	stop := make(chan struct{})
	go func() {
		for {
			if hold.Load() == 1 {
				select {
				case <-stop:
					return
				case <-time.After(200 * time.Microsecond):
				}
				continue
			}
			select {
			case r := <-nc.App.EvaluatorChannel:
				mu.Lock()
				if r.Cluster != vCluster(vGid(r.Group)) || r.ShowAll || r.Reply != nc.evaluatorResponse {
					got = append(got, "BAD")
				} else {
					got = append(got, r.Group)
				}
				mu.Unlock()
				// the evaluator's side: answer the request through the real reply path (responseLoop ->
				// checkAndSendResponseToModules -> notifyModule), status as scripted by the latest `a` event
				switch st := ansMode.Load(); {
				case st == -3:
					heldMu.Lock()
					held = append(held, r)
					heldMu.Unlock()
				case st == -1:
					r.Reply <- nil
				case st >= 0:
					r.Reply <- &protocol.ConsumerGroupStatus{Cluster: r.Cluster, Group: r.Group,
						Status: protocol.StatusConstant(st), Complete: 1.0, Partitions: make([]*protocol.PartitionStatus, 0),
						TotalPartitions: 1, TotalLag: 10}
					answered.Add(1)
				}
			case <-time.After(300 * time.Microsecond):
			case <-stop:
				return
			}
		}
	}()
	// storage side: cluster list and consumer lists for the group refresh
	var stMu sync.Mutex
	stLists := map[string][]string{}
	var stServed, stClServed atomic.Int32
	// stallAll: nothing is taken off App.StorageChannel while set; stallAfterCl: after the next cluster-list reply nothing
	// is taken for 1.25 s (the first consumer-list request of that refresh runs into its 1 s timeout)
	var stallAll, stallAfterCl atomic.Int32
	go func() {
		for {
			if stallAll.Load() == 1 {
				select {
				case <-stop:
					return
				case <-time.After(500 * time.Microsecond):
				}
				continue
			}
			select {
			case <-time.After(500 * time.Microsecond):
			case r := <-nc.App.StorageChannel:
				stMu.Lock()
				var reply interface{}
				switch r.RequestType {
				case protocol.StorageFetchClusters:
					cl := make([]string, 0, len(stLists))
					for c := range stLists {
						cl = append(cl, c)
					}
					sort.Strings(cl)
					reply = cl
				case protocol.StorageFetchConsumers:
					reply = append([]string(nil), stLists[r.Cluster]...)
				}
				stMu.Unlock()
				if reply != nil {
					r.Reply <- reply
					if r.RequestType == protocol.StorageFetchConsumers {
						stServed.Add(1)
					} else {
						stClServed.Add(1)
						if stallAfterCl.CompareAndSwap(1, 0) {
							time.Sleep(1250 * time.Millisecond)
						}
					}
				}
			case <-stop:
				return
			}
		}
	}()
	defer close(stop)
	take := func() []string {
		last := -1
		for k := 0; k < 200; k++ {
			time.Sleep(6 * time.Millisecond * m)
			mu.Lock()
			n := len(got)
			mu.Unlock()
			if n == last || n >= 300 {
				break // quiet -- or requests that will not stop (every entry due at every iteration)
			}
			last = n
		}
		mu.Lock()
		defer mu.Unlock()
		r := got
		got = nil
		return r
	}
	fmtIDs := func(tag string, gs []string) string {
		ids := make([]int, 0, len(gs))
		bad := false
		for _, g := range gs {
			if g == "BAD" {
				bad = true
				continue
			}
			ids = append(ids, vGid(g))
		}
		sort.Ints(ids)
		ss := make([]string, len(ids))
		for j, v := range ids {
			ss[j] = strconv.Itoa(v)
		}
		o := tag + strings.Join(ss, ",")
		if bad {
			o += "BAD"
		}
		return o
	}
	// refresh runs the group refresh with the given lists: through the storage requests the ticker loop issues when the
	// implementation's minInterval is positive (rand.Int63n cannot panic in a goroutine the probe does not own), by
	// calling processConsumerList directly under recover otherwise.  Returns false on a panic.
	forceStorage := false // event rp (child process only): the real storage path whatever minInterval is
	refresh := func(lists map[string][]string) bool {
		if mi*1000 > 0 || forceStorage {
			stMu.Lock()
			for c := range stLists {
				delete(stLists, c)
			}
			n := 0
			for c, l := range lists {
				if len(l) > 0 {
					stLists[c] = l
					n++
				}
			}
			stMu.Unlock()
			before, beforeCl := stServed.Load(), stClServed.Load()
			nc.sendClusterRequest()
			deadline := time.Now().Add(callWait)
			for (int(stServed.Load()-before) < n || stClServed.Load() == beforeCl) && time.Now().Before(deadline) {
				time.Sleep(200 * time.Microsecond)
			}
			time.Sleep(3 * time.Millisecond)
			nc.clusterLock.Lock()
			nc.clusterLock.Unlock() //nolint
			return true
		}
		panicked := false
		nc.clusterLock.Lock()
		for c := 0; c < 3; c++ {
			cl := "c" + strconv.Itoa(c)
			if _, ok := nc.clusters[cl]; !ok {
				nc.clusters[cl] = &clusterGroups{Lock: &sync.RWMutex{}, Groups: make(map[string]*consumerGroup)}
			}
		}
		nc.clusterLock.Unlock()
		for c := 0; c < 3 && !panicked; c++ {
			cl := "c" + strconv.Itoa(c)
			func() {
				defer func() {
					if r := recover(); r != nil {
						panicked = true // (the cluster entry stays write-locked: the case ends here)
					}
				}()
				ch := make(chan interface{}, 1)
				ch <- lists[cl]
				nc.running.Add(1)
				nc.processConsumerList(cl, ch)
			}()
		}
		return !panicked
	}
	existing := func() map[string]bool {
		before := map[string]bool{}
		nc.clusterLock.RLock()
		for _, cg := range nc.clusters {
			cg.Lock.RLock()
			for name := range cg.Groups {
				before[name] = true
			}
			cg.Lock.RUnlock()
		}
		nc.clusterLock.RUnlock()
		return before
	}

	defer func() {
		nc.Stop()
		time.Sleep(3 * time.Millisecond)
		VerifSetClock(0)
	}()

	// initial groups: the entries are created by the real refresh path, then LastEval is set to the scripted value
	VerifSetClock(now0)
	{
		lists := map[string][]string{}
		for _, g := range groups {
			lists[vCluster(g.g)] = append(lists[vCluster(g.g)], "g"+strconv.Itoa(g.g))
		}
		if mi*1000 <= 0 {
			nc.clusterLock.Lock()
			for c, l := range lists {
				nc.clusters[c] = &clusterGroups{Lock: &sync.RWMutex{}, Groups: make(map[string]*consumerGroup)}
				for _, name := range l {
					nc.clusters[c].Groups[name] = &consumerGroup{LastNotify: make(map[string]time.Time), LastEval: time.Unix(0, 0)}
				}
			}
			nc.clusterLock.Unlock()
		} else if !refresh(lists) {
			put("INITPANIC")
		return strings.Join(out, " ")
		}
		nc.clusterLock.RLock()
		n := 0
		for _, g := range groups {
			if cg, ok := nc.clusters[vCluster(g.g)]; ok {
				cg.Lock.Lock()
				if gi, ok := cg.Groups["g"+strconv.Itoa(g.g)]; ok {
					gi.LastEval = time.Unix(0, g.le)
					n++
				}
				cg.Lock.Unlock()
			}
		}
		total := 0
		for _, cg := range nc.clusters {
			total += len(cg.Groups)
		}
		nc.clusterLock.RUnlock()
		if n != ng || total != ng {
			put(fmt.Sprintf("INITGROUPS:%d/%d", n, total))
		return strings.Join(out, " ")
		}
	}

	if err := nc.Start(); err != nil {
		put("STARTERR")
		return strings.Join(out, " ")
	}
	var sentLock, sentUnlock int32
	waitCall := func(c *atomic.Int32, sent int32, d time.Duration) bool {
		deadline := time.Now().Add(d)
		for time.Now().Before(deadline) {
			if c.Load() > sent {
				return true
			}
			time.Sleep(500 * time.Microsecond)
		}
		return c.Load() > sent
	}
	pendLetter := func() string {
		if lock.lockCalls.Load() > sentLock {
			return "L"
		}
		if lock.unlockCalls.Load() > sentUnlock {
			return "U"
		}
		return "-"
	}
	if !waitCall(&lock.lockCalls, sentLock, callWait) {
		put("NOLOCKCALL")
		return strings.Join(out, " ")
	}
	// requests that arrive after an event that is not a tick of the script (lock error, expiry): "+<ids>"
	extras := func() string {
		if ex := take(); len(ex) > 0 {
			return fmtIDs("+", ex)
		}
		return ""
	}
	for k := 0; k < nev; k++ {
		ev := next()
		switch ev {
		case "k":
			now := nextI()
			VerifSetClock(now)
			bad := false
			if lock.unlockCalls.Load() > sentUnlock {
				lock.unlockRes <- nil
				sentUnlock++
			}
			if waitCall(&lock.lockCalls, sentLock, callWait) {
				if slow {
					hold.Store(1)
				}
				lock.lockRes <- vLockResult{}
				sentLock++
				if slow {
					time.Sleep(5 * time.Millisecond)
					hold.Store(0)
				}
				time.Sleep(8 * time.Millisecond * m)
			} else {
				bad = true
			}
			o := fmtIDs("K:", take())
			if bad {
				o = "!" + o
			}
			put(o)
		case "a":
			// from now on the evaluator answers: none | nil | nf | ok | warn | err | stop | stall | rewind
			modes := map[string]int64{"hold": -3, "none": -2, "nil": -1, "nf": 0, "ok": 1, "warn": 2, "err": 3, "stop": 4, "stall": 5, "rewind": 6}
			v, ok := modes[next()]
			if !ok {
				return "BADEVENT"
			}
			ansMode.Store(v)
			put("A")
		case "af":
			// the evaluator answers, late, every request it has been holding (mode hold): a reply that reaches
			// responseLoop after whatever happened in between (an expiry).  Output AF:<replies>:<1 if a module was notified>
			modes := map[string]int64{"nf": 0, "ok": 1, "warn": 2, "err": 3, "stop": 4, "stall": 5, "rewind": 6}
			v, ok := modes[next()]
			if !ok {
				return "BADEVENT"
			}
			for _, mod := range nc.modules {
				if nm, ok := mod.(*NullNotifier); ok {
					nm.CalledNotify = false
				}
			}
			heldMu.Lock()
			hs := held
			held = nil
			heldMu.Unlock()
			for _, r := range hs {
				r.Reply <- &protocol.ConsumerGroupStatus{Cluster: r.Cluster, Group: r.Group, Status: protocol.StatusConstant(v),
					Complete: 1.0, Partitions: make([]*protocol.PartitionStatus, 0), TotalPartitions: 1, TotalLag: 10}
			}
			time.Sleep(25 * time.Millisecond * m)
			notified := 0
			for _, mod := range nc.modules {
				if nm, ok := mod.(*NullNotifier); ok && nm.CalledNotify {
					notified = 1
				}
			}
			put(fmt.Sprintf("AF:%d:%d", len(hs), notified))
		case "e":
			if lock.unlockCalls.Load() > sentUnlock {
				lock.unlockRes <- nil
				sentUnlock++
			}
			if waitCall(&lock.lockCalls, sentLock, callWait) {
				lock.lockRes <- vLockResult{err: errors.New("scripted lock failure")}
				sentLock++
				// the loop sleeps 100 ms and calls Lock() again
				waitCall(&lock.lockCalls, sentLock, callWait)
				put("E"+pendLetter()+extras())
			} else {
				put("!E"+pendLetter()+extras())
			}
		case "x":
			nc.App.ZookeeperExpired.Broadcast()
			waitCall(&lock.unlockCalls, sentUnlock, 100*time.Millisecond*m)
			put("X"+pendLetter()+extras())
		case "t":
			now := nextI()
			if slow {
				hold.Store(1)
			}
			VerifSetClock(now)
			if slow {
				time.Sleep(5 * time.Millisecond) // several iterations of the request loop with nobody reading the channel
				hold.Store(0)
			}
			time.Sleep(8 * time.Millisecond * m)
			put(fmtIDs("T:", take()))
		case "r", "rs", "rp":
			stalled := ev == "rs"
			forceStorage = ev == "rp" && sink != nil
			now := nextI()
			mode := ""
			if stalled {
				mode = next()
			}
			n := int(nextI())
			VerifSetClock(now)
			lists := map[string][]string{"c0": nil, "c1": nil, "c2": nil}
			draws := map[string]int64{}
			for j := 0; j < n; j++ {
				g, r := int(nextI()), nextI()
				name := "g" + strconv.Itoa(g)
				lists[vCluster(g)] = append(lists[vCluster(g)], name)
				draws[name] = r
			}
			before := existing()
			if stalled {
				// a refresh whose storage request is not taken off App.StorageChannel within the 1 s of
				// helpers.TimeoutSendStorageRequest: the cluster-list request (mode c), or the first consumer-list
				// request after the cluster list was answered (mode g; the other clusters are then answered)
				if mi*1000 <= 0 {
					put("RS?")
					continue
				}
				stMu.Lock()
				for c := range stLists {
					delete(stLists, c)
				}
				ncl := 0
				for c, l := range lists {
					if len(l) > 0 {
						stLists[c] = l
						ncl++
					}
				}
				stMu.Unlock()
				bServed := stServed.Load()
				if mode == "c" {
					stallAll.Store(1)
					time.Sleep(3 * time.Millisecond) // the responder may be inside its 0.5 ms receive window
					t0 := time.Now()
					nc.sendClusterRequest() // returns when the 1 s timeout has passed
					if time.Since(t0) < 900*time.Millisecond {
						put("STALLFAILED")
					}
					time.Sleep(50 * time.Millisecond)
					stallAll.Store(0)
				} else {
					stallAfterCl.Store(1)
					nc.sendClusterRequest()
					deadline := time.Now().Add(time.Duration(1300+1100*ncl) * time.Millisecond)
					for int(stServed.Load()-bServed) < ncl-1 && time.Now().Before(deadline) {
						time.Sleep(time.Millisecond)
					}
					time.Sleep(1300 * time.Millisecond)
				}
				time.Sleep(5 * time.Millisecond)
				nc.clusterLock.Lock()
				nc.clusterLock.Unlock() //nolint
			} else if !refresh(lists) {
				put("PANIC")
				return strings.Join(out, " ")
			}
			rangeBad := false
			type ent struct {
				g  int
				le int64
			}
			var es []ent
			nc.clusterLock.RLock()
			for _, cg := range nc.clusters {
				cg.Lock.Lock()
				for name, gi := range cg.Groups {
					if !before[name] {
						d := now - gi.LastEval.UnixNano()
						if mi <= 9223372036 && (d < 0 || d >= mi*1000*1000000 || d%1000000 != 0) {
							rangeBad = true
						}
						gi.LastEval = time.Unix(0, now-draws[name]*1000000)
					}
					es = append(es, ent{vGid(name), gi.LastEval.UnixNano()})
				}
				cg.Lock.Unlock()
			}
			nc.clusterLock.RUnlock()
			sort.Slice(es, func(a, b int) bool { return es[a].g < es[b].g })
			ents := make([]string, len(es))
			for j, e := range es {
				ents[j] = fmt.Sprintf("%d=%d", e.g, e.le)
			}
			o := "R:" + strings.Join(ents, ",")
			if rangeBad {
				o += "RANGEBAD"
			}
			// requests issued while the list was being refreshed belong to no tick of the script
			if extra := take(); len(extra) > 0 {
				o += fmtIDs("+", extra)
			}
			put(o)
		case "ue":
			// the pending Unlock() fails (what go-zk's Lock.Unlock returns when the ephemeral node went with the
			// expired session).  The clock is moved first, so that whatever evaluates afterwards has something due.
			now := nextI()
			VerifSetClock(now)
			if waitCall(&lock.unlockCalls, sentUnlock, callWait) {
				lock.unlockRes <- errors.New("zk: node does not exist")
				sentUnlock++
				time.Sleep(180 * time.Millisecond * m) // a loop that goes on sleeps 100 ms first
				put("UE" + pendLetter() + extras())
			} else {
				put("!UE" + pendLetter() + extras())
			}
		default:
			return "BADEVENT"
		}
	}
	if p, _ := fzk.lockPath.Load().(string); p != root+"/notifier" {
		put("BADLOCKPATH:"+p)
	}
	return strings.Join(out, " ")
}

// ---- driver --------------------------------------------------------------------------------------------------

func TestVerifProbeEvalloop(t *testing.T) {
	casesPath, outPath := os.Getenv("VERIF_CASES"), os.Getenv("VERIF_OUT")
	if casesPath == "" || outPath == "" {
		t.Skip("VERIF_CASES / VERIF_OUT not set")
	}
	in, err := os.Open(casesPath)
	if err != nil {
		t.Fatal(err)
	}
	defer in.Close()
	var lines []string
	sc := bufio.NewScanner(in)
	sc.Buffer(make([]byte, 1<<20), 1<<26)
	for sc.Scan() {
		if l := strings.TrimSpace(sc.Text()); l != "" {
			lines = append(lines, l)
		}
	}
	res := make([]string, len(lines))

	if os.Getenv("VERIF_CHILD") == "1" {
		// child mode: one cfg case, tokens written as they are produced (the process may be killed by the panic of
		// manageEvalLoop; that is an outcome the parent reports)
		outf, err := os.Create(outPath)
		if err != nil {
			t.Fatal(err)
		}
		first := true
		r := vCfg(strings.Fields(lines[0])[1:], func(tok string) {
			if !first {
				outf.WriteString(" ")
			}
			first = false
			outf.WriteString(tok)
		})
		if first {
			outf.WriteString(r) // refused by Configure (CFGPANIC) or not loadable: no token was emitted
		}
		outf.WriteString(" END")
		outf.Close()
		return
	}
	// isolated cfg cases (a failing Unlock(), a stalled storage request) run in child processes, in parallel with
	// everything else: own virtual clock, and a panic of the loop goroutine ends the child only
	var isoWg sync.WaitGroup
	isoSem := make(chan struct{}, 8)
	for i, l := range lines {
		f := strings.Fields(l)
		if f[0] == "cfg" && vIsIsolated(f) {
			isoWg.Add(1)
			go func(i int, l string) {
				defer isoWg.Done()
				isoSem <- struct{}{}
				defer func() { <-isoSem }()
				res[i] = vIsolated(i, l, outPath)
			}(i, l)
		}
	}
	defer isoWg.Wait()

	// loop scenarios: built serially (viper), run in parallel on separate Coordinators with the real clock
	VerifSetClock(0)
	maxPar := 32
	if v, err := strconv.Atoi(os.Getenv("VERIF_PAR")); err == nil && v > 0 {
		maxPar = v
	}
	sem := make(chan struct{}, maxPar)
	var wg sync.WaitGroup
	scen := make(map[int]*vScenario)
	stopClk := make(chan struct{})
	go vFastClock(stopClk)
	for i, l := range lines {
		f := strings.Fields(l)
		if f[0] == "loop" {
			scen[i] = vNewScenario(f[1] == "1")
		}
	}
	for i, l := range lines {
		f := strings.Fields(l)
		if f[0] != "loop" {
			continue
		}
		wg.Add(1)
		sem <- struct{}{}
		go func(i int, s *vScenario, steps []string) {
			defer wg.Done()
			defer func() { <-sem }()
			res[i] = s.run(steps)
		}(i, scen[i], f[2:])
	}
	wg.Wait()
	close(stopClk)
	time.Sleep(2 * time.Millisecond)
	VerifSetClock(0)

	for i, l := range lines {
		f := strings.Fields(l)
		switch f[0] {
		case "loop":
		case "pace":
			res[i] = vPace(f[1:])
		case "cfg":
			if !vIsIsolated(f) {
				res[i] = vCfg(f[1:], nil)
			}
		default:
			t.Fatalf("unknown case kind in %q", l)
		}
	}

	isoWg.Wait()
	outf, err := os.Create(outPath)
	if err != nil {
		t.Fatal(err)
	}
	defer outf.Close()
	w := bufio.NewWriter(outf)
	defer w.Flush()
	for _, r := range res {
		fmt.Fprintln(w, r)
	}
}

// vFastClock: the virtual clock of the loop scenarios -- it starts at the real time and jumps 2 s every 0.3 ms.
func vFastClock(stop chan struct{}) {
	base := time.Now().UnixNano()
	for k := int64(1); ; k++ {
		select {
		case <-stop:
			return
		default:
		}
		VerifSetClock(base + k*2000000000)
		time.Sleep(300 * time.Microsecond)
	}
}

func vIsIsolated(f []string) bool {
	for _, x := range f {
		if x == "ue" || x == "rs" || x == "a" || x == "rp" {
			return true
		}
	}
	return false
}

// vIsolated runs one cfg case in a child process (this test binary, VERIF_CHILD=1).  The child writes its tokens as it
// goes; if it dies (HEAD: panic("Unable to release zookeeper lock after session expiration")), the tokens written so
// far are the observation and the death is reported as PANIC (at a failing Unlock) or CRASH (anywhere else).
func vIsolated(idx int, line, outPath string) string {
	exe, err := os.Executable()
	if err != nil {
		return "CHILDERR:" + err.Error()
	}
	in := fmt.Sprintf("%s.child%d.in", outPath, idx)
	out := fmt.Sprintf("%s.child%d.out", outPath, idx)
	defer os.Remove(in)
	defer os.Remove(out)
	if err := os.WriteFile(in, []byte(line+"\n"), 0o644); err != nil {
		return "CHILDERR:" + err.Error()
	}
	cmd := exec.Command(exe, "-test.run", "^TestVerifProbeEvalloop$", "-test.count=1", "-test.timeout", "120s")
	cmd.Env = append(os.Environ(), "VERIF_CHILD=1", "VERIF_CASES="+in, "VERIF_OUT="+out)
	stderr, _ := cmd.CombinedOutput()
	b, _ := os.ReadFile(out)
	toks := strings.Fields(string(b))
	if len(toks) > 0 && toks[len(toks)-1] == "END" {
		return strings.Join(toks[:len(toks)-1], " ")
	}
	// which event was being processed when the child died: tokens MI NM, then one per event
	f := strings.Fields(line)
	evs := vCfgEventKinds(f)
	k := len(toks) - 2
	if k >= 0 && k < len(evs) && (evs[k] == "ue" || evs[k] == "rp") && strings.Contains(string(stderr), "panic") {
		return strings.Join(append(toks, "PANIC"), " ")
	}
	msg := "?"
	for _, ln := range strings.Split(string(stderr), "\n") {
		if strings.HasPrefix(ln, "panic:") || strings.HasPrefix(ln, "fatal error:") {
			msg = strings.ReplaceAll(strings.TrimSpace(ln), " ", "_")
			break
		}
	}
	return strings.Join(append(toks, "CRASH:"+msg), " ")
}

// vCfgEventKinds lists the event kinds of a cfg case line, in order.
func vCfgEventKinds(f []string) []string {
	i := 4
	nm, _ := strconv.Atoi(f[i])
	i += 1 + 5*nm
	i++ // now0
	ng, _ := strconv.Atoi(f[i])
	i += 1 + 2*ng
	nev, _ := strconv.Atoi(f[i])
	i++
	var kinds []string
	for k := 0; k < nev && i < len(f); k++ {
		ev := f[i]
		kinds = append(kinds, ev)
		switch ev {
		case "k", "t", "ue", "a", "af":
			i += 2
		case "e", "x":
			i++
		case "r", "rp":
			n, _ := strconv.Atoi(f[i+2])
			i += 3 + 2*n
		case "rs":
			n, _ := strconv.Atoi(f[i+3])
			i += 4 + 2*n
		default:
			return kinds
		}
	}
	return kinds
}
