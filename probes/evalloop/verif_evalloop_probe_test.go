//go:build verif

package notifier

// Correspondence probe for the Coq model Burrow.EvalLoop (C15).
//
//   loop <conn0> <step>...    a real Coordinator (fixtureCoordinator + Configure + Start) whose App.Zookeeper is a
//                             scripted fake; every step is a '+'-joined list of environment actions
//                               ok / err   complete the pending lock.Lock() with nil / an error
//                               okx        complete it with nil, but Broadcast the expiry inside Lock() before it returns
//                               uok        complete the pending lock.Unlock() with nil
//                               x          App.ZookeeperExpired.Broadcast()
//                               c / d      App.ZookeeperConnected = true / false
//                             after the actions the probe lets the loop settle, then observes for a window whether
//                             requests keep arriving on App.EvaluatorChannel and which lock call is outstanding.
//                             Output per step: [!]<L|U|-><0|1>  ('!' = an action found no outstanding call).
//   pace <mi> <groups> <events>   sendEvaluatorRequests under the virtual clock; t <now> = let the loop iterate at
//                             clock now, r <now> <list> = processConsumerList with that consumer list.
//
// Loop scenarios use the real clock and run in parallel on separate Coordinators; pace cases run afterwards, serially.

import (
	"bufio"
	"errors"
	"fmt"
	"os"
	"sort"
	"strconv"
	"strings"
	"sync"
	"sync/atomic"
	"testing"
	"time"

	zk "github.com/linkedin/go-zk"

	"github.com/linkedin/Burrow/core/protocol"
)

// ---- scripted fake Zookeeper client / lock -------------------------------------------------------------------

type vLockResult struct {
	err          error
	expireBefore bool
}

type vFakeLock struct {
	app         *protocol.ApplicationContext
	lockRes     chan vLockResult
	unlockRes   chan error
	pendLock    atomic.Int32
	pendUnlock  atomic.Int32
	lockCalls   atomic.Int32
	unlockCalls atomic.Int32
}

func (l *vFakeLock) Lock() error {
	l.lockCalls.Add(1)
	l.pendLock.Store(1)
	r := <-l.lockRes
	if r.expireBefore {
		// the session expires after the lock was granted and before Lock() returns to manageEvalLoop
		l.app.ZookeeperExpired.Broadcast()
	}
	l.pendLock.Store(0)
	return r.err
}

func (l *vFakeLock) Unlock() error {
	l.unlockCalls.Add(1)
	l.pendUnlock.Store(1)
	e := <-l.unlockRes
	l.pendUnlock.Store(0)
	return e
}

type vFakeZk struct {
	lock     *vFakeLock
	lockPath atomic.Value
}

func (z *vFakeZk) Close() {}
func (z *vFakeZk) ChildrenW(path string) ([]string, *zk.Stat, <-chan zk.Event, error) {
	return nil, nil, nil, errors.New("not scripted")
}
func (z *vFakeZk) GetW(path string) ([]byte, *zk.Stat, <-chan zk.Event, error) {
	return nil, nil, nil, errors.New("not scripted")
}
func (z *vFakeZk) Exists(path string) (bool, *zk.Stat, error) { return false, nil, errors.New("not scripted") }
func (z *vFakeZk) ExistsW(path string) (bool, *zk.Stat, <-chan zk.Event, error) {
	return false, nil, nil, errors.New("not scripted")
}
func (z *vFakeZk) Create(string, []byte, int32, []zk.ACL) (string, error) {
	return "", errors.New("not scripted")
}
func (z *vFakeZk) NewLock(path string) protocol.ZookeeperLock {
	z.lockPath.Store(path)
	return z.lock
}

// ---- loop scenarios ------------------------------------------------------------------------------------------

type vScenario struct {
	nc      *Coordinator
	lock    *vFakeLock
	zk      *vFakeZk
	arrived atomic.Int64 // number of evaluator requests received so far
	lastArr atomic.Int64 // unix nanos of the latest arrival
	badReq  atomic.Int32
	stop    chan struct{}
}

func vGraceMult() time.Duration {
	if v, err := strconv.Atoi(os.Getenv("VERIF_GRACE_MULT")); err == nil && v > 0 {
		return time.Duration(v)
	}
	return 1
}

// vNewScenario must be called serially (fixtureCoordinator/Configure use viper's global state).
func vNewScenario(conn0 bool) *vScenario {
	nc := fixtureCoordinator()
	nc.Configure()
	nc.minInterval = 0 // every iteration of sendEvaluatorRequests re-evaluates: a heartbeat while doEvaluations holds
	sc := &vScenario{nc: nc, stop: make(chan struct{})}
	sc.lock = &vFakeLock{app: nc.App, lockRes: make(chan vLockResult), unlockRes: make(chan error)}
	sc.zk = &vFakeZk{lock: sc.lock}
	nc.App.Zookeeper = sc.zk
	nc.App.ZookeeperConnected = conn0
	nc.clusters["c1"] = &clusterGroups{Lock: &sync.RWMutex{}, Groups: make(map[string]*consumerGroup)}
	nc.clusters["c1"].Groups["g1"] = &consumerGroup{LastNotify: make(map[string]time.Time), LastEval: time.Unix(0, 0)}
	return sc
}

func (sc *vScenario) reader() {
	for {
		select {
		case r := <-sc.nc.App.EvaluatorChannel:
			if r.Cluster != "c1" || r.Group != "g1" {
				sc.badReq.Add(1)
			}
			sc.lastArr.Store(time.Now().UnixNano())
			sc.arrived.Add(1)
		case <-sc.stop:
			return
		}
	}
}

func vWaitFlag(f *atomic.Int32, d time.Duration) bool {
	deadline := time.Now().Add(d)
	for time.Now().Before(deadline) {
		if f.Load() == 1 {
			return true
		}
		time.Sleep(2 * time.Millisecond)
	}
	return f.Load() == 1
}

func (sc *vScenario) run(steps []string) string {
	m := vGraceMult()
	settle := 260 * time.Millisecond * m
	window := 60 * time.Millisecond * m
	callWait := 1500 * time.Millisecond * m
	go sc.reader()
	if err := sc.nc.Start(); err != nil {
		return "STARTERR"
	}
	time.Sleep(settle)
	var out []string
	var lateMax int64
	for _, stp := range steps {
		bad := false
		var expiredAt int64
		for _, a := range strings.Split(stp, "+") {
			switch a {
			case "ok", "err", "okx":
				if !vWaitFlag(&sc.lock.pendLock, callWait) {
					bad = true
					continue
				}
				r := vLockResult{}
				if a == "err" {
					r.err = errors.New("scripted lock failure")
				}
				r.expireBefore = a == "okx"
				sc.lock.lockRes <- r
			case "uok":
				if !vWaitFlag(&sc.lock.pendUnlock, callWait) {
					bad = true
					continue
				}
				sc.lock.unlockRes <- nil
			case "x":
				sc.nc.App.ZookeeperExpired.Broadcast()
				expiredAt = time.Now().UnixNano()
			case "c":
				sc.nc.App.ZookeeperConnected = true
			case "d":
				sc.nc.App.ZookeeperConnected = false
			default:
				return "BADACTION:" + a
			}
		}
		time.Sleep(settle)
		before := sc.arrived.Load()
		time.Sleep(window)
		flowing := sc.arrived.Load() > before
		pend := "-"
		if sc.lock.pendLock.Load() == 1 {
			pend = "L"
		} else if sc.lock.pendUnlock.Load() == 1 {
			pend = "U"
		}
		o := pend
		if flowing {
			o += "1"
		} else {
			o += "0"
			if expiredAt != 0 {
				if d := sc.lastArr.Load() - expiredAt; d > lateMax {
					lateMax = d
				}
			}
		}
		if bad {
			o = "!" + o
		}
		out = append(out, o)
	}
	// wind down: the request loop stops on doEvaluations=false (as Stop does); manageEvalLoop itself never exits
	sc.nc.Stop()
	time.Sleep(5 * time.Millisecond)
	close(sc.stop)
	res := strings.Join(out, " ")
	if sc.badReq.Load() != 0 {
		res += " BADREQ"
	}
	if p, _ := sc.zk.lockPath.Load().(string); p != "/burrow/notifier" {
		res += " BADLOCKPATH:" + p
	}
	if os.Getenv("VERIF_DEBUG") != "" {
		fmt.Fprintf(os.Stderr, "loop: latest request after an observed expiry: %.1f ms; lock calls %d unlock calls %d\n",
			float64(lateMax)/1e6, sc.lock.lockCalls.Load(), sc.lock.unlockCalls.Load())
	}
	return res
}

// ---- pacing --------------------------------------------------------------------------------------------------

func vGid(name string) int {
	v, _ := strconv.Atoi(name[1:])
	return v
}

func vCluster(g int) string { return "c" + strconv.Itoa(g%3) }

func vPace(f []string) (res string) {
	i := 0
	next := func() string { s := f[i]; i++; return s }
	nextI := func() int64 {
		v, err := strconv.ParseInt(next(), 10, 64)
		if err != nil {
			panic(err)
		}
		return v
	}
	mi := nextI()
	nc := fixtureCoordinator()
	nc.Configure()
	nc.minInterval = mi
	for c := 0; c < 3; c++ {
		nc.clusters["c"+strconv.Itoa(c)] = &clusterGroups{Lock: &sync.RWMutex{}, Groups: make(map[string]*consumerGroup)}
	}
	ng := int(nextI())
	for k := 0; k < ng; k++ {
		g, le := int(nextI()), nextI()
		nc.clusters[vCluster(g)].Groups["g"+strconv.Itoa(g)] = &consumerGroup{LastNotify: make(map[string]time.Time), LastEval: time.Unix(0, le)}
	}
	var mu sync.Mutex
	var got []string
	stop := make(chan struct{})
	go func() {
		for {
			select {
			case r := <-nc.App.EvaluatorChannel:
				mu.Lock()
				if r.Cluster != vCluster(vGid(r.Group)) || r.ShowAll {
					got = append(got, "BAD")
				} else {
					got = append(got, r.Group)
				}
				mu.Unlock()
			case <-stop:
				return
			}
		}
	}()
	defer close(stop)
	take := func() []string {
		// quiesce: wait until nothing has arrived for a few loop iterations
		last := -1
		for k := 0; k < 200; k++ {
			time.Sleep(6 * time.Millisecond)
			mu.Lock()
			n := len(got)
			mu.Unlock()
			if n == last {
				break
			}
			last = n
		}
		mu.Lock()
		defer mu.Unlock()
		r := got
		got = nil
		return r
	}

	nev := int(nextI())
	started := false
	var out []string
	defer func() {
		nc.doEvaluations = false
		time.Sleep(3 * time.Millisecond)
		VerifSetClock(0)
	}()
	for k := 0; k < nev; k++ {
		switch next() {
		case "t":
			now := nextI()
			VerifSetClock(now)
			if !started {
				started = true
				nc.doEvaluations = true
				nc.running.Add(1)
				go nc.sendEvaluatorRequests()
			}
			time.Sleep(8 * time.Millisecond) // several 1 ms iterations at this clock value
			gs := take()
			ids := make([]int, 0, len(gs))
			bad := false
			for _, g := range gs {
				if g == "BAD" {
					bad = true
					continue
				}
				ids = append(ids, vGid(g))
			}
			sort.Ints(ids)
			ss := make([]string, len(ids))
			for j, v := range ids {
				ss[j] = strconv.Itoa(v)
			}
			o := "T:" + strings.Join(ss, ",")
			if bad {
				o += "BAD"
			}
			out = append(out, o)
		case "r":
			now := nextI()
			n := int(nextI())
			VerifSetClock(now)
			lists := map[string][]string{"c0": nil, "c1": nil, "c2": nil}
			draws := map[string]int64{}
			for j := 0; j < n; j++ {
				g, r := int(nextI()), nextI()
				name := "g" + strconv.Itoa(g)
				lists[vCluster(g)] = append(lists[vCluster(g)], name)
				draws[name] = r
			}
			before := map[string]bool{}
			for _, cg := range nc.clusters {
				for name := range cg.Groups {
					before[name] = true
				}
			}
			panicked := false
			for c := 0; c < 3 && !panicked; c++ {
				cl := "c" + strconv.Itoa(c)
				func() {
					defer func() {
						if r := recover(); r != nil {
							panicked = true
						}
					}()
					ch := make(chan interface{}, 1)
					ch <- lists[cl]
					nc.running.Add(1)
					nc.processConsumerList(cl, ch)
				}()
			}
			if panicked {
				out = append(out, "PANIC")
				return strings.Join(out, " ")
			}
			// a new entry's LastEval is now - rand.Int63n(minInterval*1000) ms: check the range the model assumes, then
			// pin the draw to the scripted one
			var ents []string
			rangeBad := false
			type ent struct {
				g  int
				le int64
			}
			var es []ent
			for _, cg := range nc.clusters {
				cg.Lock.Lock()
				for name, gi := range cg.Groups {
					if !before[name] {
						d := now - gi.LastEval.UnixNano()
						if d < 0 || d >= mi*1000*1000000 || d%1000000 != 0 {
							rangeBad = true
						}
						gi.LastEval = time.Unix(0, now-draws[name]*1000000)
					}
					es = append(es, ent{vGid(name), gi.LastEval.UnixNano()})
				}
				cg.Lock.Unlock()
			}
			sort.Slice(es, func(a, b int) bool { return es[a].g < es[b].g })
			for _, e := range es {
				ents = append(ents, fmt.Sprintf("%d=%d", e.g, e.le))
			}
			o := "R:" + strings.Join(ents, ",")
			if rangeBad {
				o += "RANGEBAD"
			}
			out = append(out, o)
		default:
			return "BADEVENT"
		}
	}
	return strings.Join(out, " ")
}

// ---- driver --------------------------------------------------------------------------------------------------

func TestVerifProbeEvalloop(t *testing.T) {
	casesPath, outPath := os.Getenv("VERIF_CASES"), os.Getenv("VERIF_OUT")
	if casesPath == "" || outPath == "" {
		t.Skip("VERIF_CASES / VERIF_OUT not set")
	}
	in, err := os.Open(casesPath)
	if err != nil {
		t.Fatal(err)
	}
	defer in.Close()
	var lines []string
	sc := bufio.NewScanner(in)
	sc.Buffer(make([]byte, 1<<20), 1<<26)
	for sc.Scan() {
		if l := strings.TrimSpace(sc.Text()); l != "" {
			lines = append(lines, l)
		}
	}
	res := make([]string, len(lines))

	// loop scenarios: built serially (viper), run in parallel on separate Coordinators with the real clock
	VerifSetClock(0)
	maxPar := 32
	if v, err := strconv.Atoi(os.Getenv("VERIF_PAR")); err == nil && v > 0 {
		maxPar = v
	}
	sem := make(chan struct{}, maxPar)
	var wg sync.WaitGroup
	scen := make(map[int]*vScenario)
	for i, l := range lines {
		f := strings.Fields(l)
		if f[0] == "loop" {
			scen[i] = vNewScenario(f[1] == "1")
		}
	}
	for i, l := range lines {
		f := strings.Fields(l)
		if f[0] != "loop" {
			continue
		}
		wg.Add(1)
		sem <- struct{}{}
		go func(i int, s *vScenario, steps []string) {
			defer wg.Done()
			defer func() { <-sem }()
			res[i] = s.run(steps)
		}(i, scen[i], f[2:])
	}
	wg.Wait()

	for i, l := range lines {
		f := strings.Fields(l)
		switch f[0] {
		case "loop":
		case "pace":
			res[i] = vPace(f[1:])
		default:
			t.Fatalf("unknown case kind in %q", l)
		}
	}

	outf, err := os.Create(outPath)
	if err != nil {
		t.Fatal(err)
	}
	defer outf.Close()
	w := bufio.NewWriter(outf)
	defer w.Flush()
	for _, r := range res {
		fmt.Fprintln(w, r)
	}
}
