//go:build verif

package notifier

// Correspondence probe for the Coq model Burrow.Tmpl / Burrow.Json (C20).  Every case names a template
// file shipped in config/ and a generated group status; the template is parsed exactly as
// Coordinator.Configure does and rendered with executeTemplate, as the http and email notifiers do.
// Output per case: "OK json=<0|1>" (rendered; json.Valid of the bytes) or "ERR".
// "conf" cases run the real Coordinator.Configure (default parser) and execute the templates it stored: see vtConf.
// A further kind of case, "offer <hex template text>", executes a one-action template written against the documented
// data fields / helper functions (parsed with the coordinator's FuncMap, executed with executeTemplate on a fixed status) and
// prints "OK <hex of the output>", "PARSE-ERR" or "ERR".

import (
	"bufio"
	"bytes"
	"encoding/hex"
	"encoding/json"
	"fmt"
	"io"
	"math"
	"mime/quotedprintable"
	"net/http"
	"net/http/httptest"
	"net/mail"
	"os"
	"path/filepath"
	"reflect"
	"sort"
	"strconv"
	"strings"
	"sync"
	"sync/atomic"
	"testing"
	"text/template"
	"time"

	"github.com/spf13/viper"
	"go.uber.org/zap"
	"gopkg.in/gomail.v2"

	"github.com/linkedin/Burrow/core/internal/helpers"
	"github.com/linkedin/Burrow/core/protocol"
)

type vtTokens struct {
	f []string
	i int
}

func (t *vtTokens) next() string { s := t.f[t.i]; t.i++; return s }
func (t *vtTokens) i64() int64 {
	v, err := strconv.ParseInt(t.next(), 10, 64)
	if err != nil {
		panic(err)
	}
	return v
}
func (t *vtTokens) u64() uint64 {
	v, err := strconv.ParseUint(t.next(), 10, 64)
	if err != nil {
		panic(err)
	}
	return v
}
func (t *vtTokens) str() string {
	s := t.next()
	b, err := hex.DecodeString(strings.TrimPrefix(s, "x"))
	if err != nil {
		panic(err)
	}
	return string(b)
}
func (t *vtTokens) f32() float32 {
	s := t.next()
	if s == "nan" {
		return float32(math.NaN())
	}
	v, err := strconv.ParseFloat(s, 32)
	if err != nil {
		panic(err)
	}
	return float32(v)
}

func (t *vtTokens) offset() *protocol.ConsumerOffset {
	if t.next() == "nil" {
		return nil
	}
	o := &protocol.ConsumerOffset{Offset: t.i64(), Order: t.i64(), Timestamp: t.i64(), ObservedTimestamp: t.i64()}
	if l := t.next(); l != "n" {
		v, err := strconv.ParseUint(l, 10, 64)
		if err != nil {
			panic(err)
		}
		o.Lag = &protocol.Lag{Value: v}
	}
	return o
}

func (t *vtTokens) partition() *protocol.PartitionStatus {
	if t.next() == "nil" {
		return nil
	}
	p := &protocol.PartitionStatus{Topic: t.str(), Partition: int32(t.i64()), Owner: t.str(), ClientID: t.str(),
		Status: protocol.StatusConstant(t.i64())}
	p.Start = t.offset()
	p.End = t.offset()
	p.CurrentLag = t.u64()
	p.Complete = t.f32()
	return p
}

var vtTemplates = map[string]*template.Template{}
var vtTemplateErr = map[string]error{}

func vtFreshCoordinator() *Coordinator {
	coordinator := &Coordinator{Log: zap.NewNop()}
	coordinator.App = &protocol.ApplicationContext{
		Logger:             zap.NewNop(),
		StorageChannel:     make(chan *protocol.StorageRequest),
		EvaluatorChannel:   make(chan *protocol.EvaluatorRequest),
		Zookeeper:          &helpers.MockZookeeperClient{},
		ZookeeperRoot:      "/burrow",
		ZookeeperConnected: true,
		ZookeeperExpired:   &sync.Cond{L: &sync.Mutex{}},
	}
	return coordinator
}

// vtFuncs returns a fresh, empty template carrying the FuncMap the coordinator parses notifier templates with.  The map
// is taken from the coordinator's own default parser (Configure on an empty notifier section installs it in
// templateParseFunc, a field the unit tests pin; an empty file is parsed with it), not from a package variable whose
// name a refactoring may change.  Templates are then parsed into their own named member of that fresh set and used
// directly, never through Templates()[0].
func vtFuncs() (*template.Template, error) {
	coordinator := vtFreshCoordinator()
	viper.Reset()
	coordinator.Configure()
	if coordinator.templateParseFunc == nil {
		return nil, fmt.Errorf("Configure installed no template parser")
	}
	f, err := os.CreateTemp("", "verif-empty-*.tmpl")
	if err != nil {
		return nil, err
	}
	f.Close()
	defer os.Remove(f.Name())
	return coordinator.templateParseFunc(f.Name())
}

// vtTemplate parses a shipped template file on its own, with the coordinator's FuncMap.
func vtTemplate(name string) (*template.Template, error) {
	if t, ok := vtTemplates[name]; ok {
		return t, vtTemplateErr[name]
	}
	repo := os.Getenv("VERIF_REPO")
	if repo == "" {
		repo = "/repo"
	}
	var res *template.Template
	text, err := os.ReadFile(filepath.Join(repo, "config", name))
	if err == nil {
		var carrier *template.Template
		if carrier, err = vtFuncs(); err == nil {
			res, err = carrier.New(name).Parse(string(text))
		}
	}
	vtTemplates[name], vtTemplateErr[name] = res, err
	return res, err
}

func (t *vtTokens) extras() map[string]string {
	var extras map[string]string
	if n := t.i64(); n >= 0 {
		extras = make(map[string]string)
		for i := int64(0); i < n; i++ {
			k := t.str()
			extras[k] = t.str()
		}
	}
	return extras
}

// status reads the group status that ends a case line
func (t *vtTokens) status(cluster, group string) *protocol.ConsumerGroupStatus {
	status := &protocol.ConsumerGroupStatus{Cluster: cluster, Group: group, Status: protocol.StatusConstant(t.i64())}
	status.Complete = t.f32()
	status.TotalPartitions = int(t.i64())
	status.TotalLag = t.u64()
	status.Maxlag = t.partition()
	n := t.i64()
	if n >= 0 {
		status.Partitions = make([]*protocol.PartitionStatus, n)
		for i := int64(0); i < n; i++ {
			status.Partitions[i] = t.partition()
		}
	}
	return status
}

func vtStart(s int64) time.Time {
	if s != 0 {
		return time.Unix(s, 0)
	}
	return time.Time{}
}

// vtExec renders with executeTemplate; returns the verdict line and the bytes
func vtExec(tmpl *template.Template, extras map[string]string, status *protocol.ConsumerGroupStatus, id string, start time.Time) (res string, out []byte) {
	defer func() {
		if r := recover(); r != nil {
			res, out = "PANIC", nil
		}
	}()
	if tmpl == nil {
		return "NIL-TEMPLATE", nil
	}
	buf, err := executeTemplate(tmpl, extras, status, id, start)
	if err != nil {
		if os.Getenv("VERIF_TMPL_ERRORS") != "" {
			return "ERR " + strings.ReplaceAll(err.Error(), "\n", " "), nil
		}
		return "ERR", nil
	}
	if json.Valid(buf.Bytes()) {
		return "OK json=1", buf.Bytes()
	}
	return "OK json=0", buf.Bytes()
}

func vtRender(t *vtTokens) (res string) {
	defer func() {
		if r := recover(); r != nil {
			res = "PANIC"
		}
	}()
	name := t.next()
	_ = t.next() // stateGood: which of the module's two templates the notifier picked; the data is the same
	cluster, group, id := t.str(), t.str(), t.str()
	start := vtStart(t.i64())
	extras := t.extras()
	status := t.status(cluster, group)
	tmpl, err := vtTemplate(name)
	if err != nil {
		return "PARSE-ERR"
	}
	res, _ = vtExec(tmpl, extras, status, id, start)
	return res
}

type vtModule struct {
	name, class, open, close string
	sendClose              bool
	extras                 map[string]string
}

// vtStored returns the template objects and extras Coordinator.Configure handed to a module
func vtStored(m protocol.Module) (open, close *template.Template, extras map[string]string, ok bool) {
	switch mod := m.(type) {
	case *HTTPNotifier:
		return mod.templateOpen, mod.templateClose, mod.extras, true
	case *EmailNotifier:
		return mod.templateOpen, mod.templateClose, mod.extras, true
	case *NullNotifier:
		return mod.templateOpen, mod.templateClose, mod.extras, true
	}
	return nil, nil, nil, false
}

// vtConf: the REAL Coordinator.Configure with its default template parser on a generated notifier section
// (1-4 modules whose template-open / template-close name shipped files), repeated several times (a template set
// shared between files would make Templates()[0] depend on map iteration order).  For every module the template objects
// the coordinator stored are executed with executeTemplate and the extras it stored; the bytes must be those of the
// named file parsed on its own, every time.  Output: "<module> open=<verdict> close=<verdict|none>" per module (sorted),
// joined by " | "; a difference is reported as "<module> MISMATCH ...".
func vtConf(t *vtTokens) (res string) {
	defer func() {
		if r := recover(); r != nil {
			res = fmt.Sprintf("CONFIGURE-PANIC %v", r)
		}
	}()
	reps := int(t.i64())
	nm := int(t.i64())
	repo := os.Getenv("VERIF_REPO")
	if repo == "" {
		repo = "/repo"
	}
	mods := make([]vtModule, nm)
	for i := range mods {
		mods[i] = vtModule{name: t.next(), class: t.next(), open: t.next(), close: t.next(), sendClose: t.next() == "1"}
		mods[i].extras = t.extras()
	}
	sort.Slice(mods, func(i, j int) bool { return mods[i].name < mods[j].name })
	cluster, group, id := t.str(), t.str(), t.str()
	start := vtStart(t.i64())
	status := t.status(cluster, group)

	// the named files parsed on their own
	type rendering struct {
		verdict string
		out     []byte
	}
	alone := func(file string, extras map[string]string) rendering {
		tmpl, err := vtTemplate(file)
		if err != nil {
			return rendering{"PARSE-ERR", nil}
		}
		v, out := vtExec(tmpl, extras, status, id, start)
		return rendering{v, out}
	}
	// which shipped file renders to these bytes (diagnosis only)
	which := func(out []byte, extras map[string]string) string {
		files, _ := filepath.Glob(filepath.Join(repo, "config", "*.tmpl"))
		for _, f := range files {
			if r := alone(filepath.Base(f), extras); r.out != nil && bytes.Equal(r.out, out) {
				return filepath.Base(f)
			}
		}
		return "?"
	}
	verdicts := make([]string, len(mods))
	for i, m := range mods {
		verdicts[i] = m.name + " open=" + alone(m.open, m.extras).verdict + " close="
		if m.sendClose {
			verdicts[i] += alone(m.close, m.extras).verdict
		} else {
			verdicts[i] += "none"
		}
	}
	var coordinator *Coordinator
	for rep := 0; rep <= reps; rep++ {
		if rep < reps || coordinator == nil {
			// a fresh coordinator with the DEFAULT template parser (templateParseFunc left nil)
			coordinator = vtFreshCoordinator()
		} // the last round configures the same coordinator a second time
		viper.Reset()
		for _, m := range mods {
			root := "notifier." + m.name
			viper.Set(root+".class-name", m.class)
			viper.Set(root+".template-open", filepath.Join(repo, "config", m.open))
			viper.Set(root+".template-close", filepath.Join(repo, "config", m.close))
			viper.Set(root+".send-close", m.sendClose)
			for k, v := range m.extras {
				viper.Set(root+".extras."+k, v)
			}
			switch m.class {
			case "http":
				viper.Set(root+".url-open", "http://127.0.0.1:1/open")
				viper.Set(root+".url-close", "http://127.0.0.1:1/close")
			case "email":
				viper.Set(root+".server", "127.0.0.1")
				viper.Set(root+".port", 25)
				viper.Set(root+".from", "burrow@example.com")
				viper.Set(root+".to", "oncall@example.com")
			}
		}
		coordinator.Configure()
		if len(coordinator.modules) != len(mods) {
			return fmt.Sprintf("MISMATCH rep=%d: %d modules configured, %d in the configuration", rep, len(coordinator.modules), len(mods))
		}
		for _, m := range mods {
			topen, tclose, extras, ok := vtStored(coordinator.modules[m.name])
			if !ok {
				return fmt.Sprintf("%s MISMATCH rep=%d: module of class %s not found", m.name, rep, m.class)
			}
			check := func(kind, file string, tmpl *template.Template) string {
				want := alone(file, m.extras)
				v, out := vtExec(tmpl, extras, status, id, start)
				if v != want.verdict && !(strings.HasPrefix(v, "ERR") && strings.HasPrefix(want.verdict, "ERR")) {
					return fmt.Sprintf("%s MISMATCH rep=%d: the %s template the coordinator stored gives %s, the file %s gives %s", m.name, rep, kind, v, file, want.verdict)
				}
				if out != nil && !bytes.Equal(out, want.out) {
					return fmt.Sprintf("%s MISMATCH rep=%d: the %s template the coordinator stored does not render as its file %s but as %s", m.name, rep, kind, file, which(out, m.extras))
				}
				return ""
			}
			if d := check("open", m.open, topen); d != "" {
				return d
			}
			if m.sendClose {
				if d := check("close", m.close, tclose); d != "" {
					return d
				}
			} // without send-close no close notification is ever sent: whatever is stored for close is never executed
		}
	}
	return strings.Join(verdicts, " | ")
}

// vtOffer: does the data handed to templates offer this field / helper?  The status has one listed partition, which is
// also the max-lag partition.
func vtOffer(t *vtTokens) (res string) {
	defer func() {
		if r := recover(); r != nil {
			res = "PANIC"
		}
	}()
	text := t.str()
	carrier, err := vtFuncs()
	if err != nil {
		return "PARSE-ERR"
	}
	tmpl, err := carrier.New("offer").Parse(text)
	if err != nil {
		return "PARSE-ERR"
	}
	lag := &protocol.Lag{Value: 25}
	part := &protocol.PartitionStatus{Topic: "topic", Partition: 3, Owner: "owner", ClientID: "client", Status: protocol.StatusStall,
		Start: &protocol.ConsumerOffset{Offset: 10, Order: 1, Timestamp: 1500000000000, ObservedTimestamp: 1500000000001, Lag: lag},
		End:   &protocol.ConsumerOffset{Offset: 10, Order: 2, Timestamp: 1500000060000, ObservedTimestamp: 1500000060001, Lag: lag},
		CurrentLag: 25, Complete: 1}
	status := &protocol.ConsumerGroupStatus{Cluster: "cluster", Group: "group", Status: protocol.StatusError, Complete: 1,
		Partitions: []*protocol.PartitionStatus{part}, TotalPartitions: 1, Maxlag: part, TotalLag: 25}
	out, err := executeTemplate(tmpl, map[string]string{"key": "value"}, status, "event-id", time.Unix(1500000000, 0).UTC())
	if err != nil {
		if os.Getenv("VERIF_TMPL_ERRORS") != "" {
			return "ERR " + strings.ReplaceAll(err.Error(), "\n", " ")
		}
		return "ERR"
	}
	return "OK x" + hex.EncodeToString(out.Bytes())
}

// ---------------------------------------------------------------------------------------------------------------
// Concurrent stream.  The coordinator handles every evaluator response in its own goroutine and modules render
// concurrently, so executeTemplate, the shipped templates and the helper functions must be re-entrant.  Every "render"
// case of the batch is rendered once sequentially; then, in 3 rounds with 8, 12 and 16 goroutines, every goroutine
// renders the whole batch (each in a different rotation) at the same time.  Every concurrent output must equal the
// sequential output of the same case byte for byte.  Output per case: "SAME <sequential verdict>" or
// "DIFF round=<r> goroutines=<n> sequential=<verdict> x<hex> concurrent=<verdict> x<hex>" (first difference seen).
// ---------------------------------------------------------------------------------------------------------------

type vtJob struct {
	tmpl    *template.Template
	extras  map[string]string
	status  *protocol.ConsumerGroupStatus
	id      string
	start   time.Time
	verdict string
	out     []byte
	diff    atomic.Value // string
}

func vtHexPrefix(b []byte) string {
	if len(b) > 600 {
		b = b[:600]
	}
	return "x" + hex.EncodeToString(b)
}

func TestVerifProbeTmplConc(t *testing.T) {
	casesPath, outPath := os.Getenv("VERIF_CASES"), os.Getenv("VERIF_OUT")
	if casesPath == "" || outPath == "" {
		t.Skip("VERIF_CASES / VERIF_OUT not set")
	}
	in, err := os.Open(casesPath)
	if err != nil {
		t.Fatal(err)
	}
	defer in.Close()
	var jobs []*vtJob
	sc := bufio.NewScanner(in)
	sc.Buffer(make([]byte, 1<<20), 1<<26)
	for sc.Scan() {
		line := strings.TrimSpace(sc.Text())
		if line == "" {
			continue
		}
		tk := &vtTokens{f: strings.Fields(line)}
		if tk.next() != "render" {
			t.Fatalf("the concurrent stream takes render cases only: %q", line)
		}
		name := tk.next()
		_ = tk.next()
		cluster, group, id := tk.str(), tk.str(), tk.str()
		j := &vtJob{id: id, start: vtStart(tk.i64())}
		j.extras = tk.extras()
		j.status = tk.status(cluster, group)
		j.tmpl, err = vtTemplate(name)
		if err != nil {
			j.verdict = "PARSE-ERR"
		} else {
			j.verdict, j.out = vtExec(j.tmpl, j.extras, j.status, j.id, j.start)
		}
		jobs = append(jobs, j)
	}
	for round, workers := range []int{8, 12, 16} {
		var wg sync.WaitGroup
		startGate := make(chan struct{})
		for w := 0; w < workers; w++ {
			wg.Add(1)
			go func(w int) {
				defer wg.Done()
				<-startGate
				n := len(jobs)
				for k := 0; k < n; k++ {
					j := jobs[(k+w*(n/workers+1))%n]
					if j.tmpl == nil {
						continue
					}
					v, out := vtExec(j.tmpl, j.extras, j.status, j.id, j.start)
					if v != j.verdict || !bytes.Equal(out, j.out) {
						if j.diff.Load() == nil {
							j.diff.Store(fmt.Sprintf("DIFF round=%d goroutines=%d sequential=%s %s concurrent=%s %s",
								round, workers, j.verdict, vtHexPrefix(j.out), v, vtHexPrefix(out)))
						}
					}
				}
			}(w)
		}
		close(startGate)
		wg.Wait()
	}
	outf, err := os.Create(outPath)
	if err != nil {
		t.Fatal(err)
	}
	defer outf.Close()
	w := bufio.NewWriter(outf)
	defer w.Flush()
	for _, j := range jobs {
		if d := j.diff.Load(); d != nil {
			fmt.Fprintln(w, d.(string))
		} else {
			fmt.Fprintln(w, "SAME "+j.verdict)
		}
	}
}

// ---------------------------------------------------------------------------------------------------------------
// "seq" cases: what the REAL module classes hand to their templates.  A notifier section (http / email modules with
// shipped templates, plus an http module "zzfields" whose template prints all six data fields) is configured through
// the real Coordinator.Configure; http modules post to a local httptest.Server, email modules are intercepted at
// sendMailFunc.  A sequence of 2-4 evaluator replies about two groups (open, repeat, close) is fed to the real
// checkAndSendResponseToModules under the virtual clock, so the real notifyModule and the real Notify methods run.
// Every body received must equal the rendering of the configured template file (parsed on its own) on the EXPECTED
// data: cluster and group of the reply, the group's event id, the time the INCIDENT was opened (the clock value of the
// step that opened it), the CONFIGURED extras, the reply; "zzfields" bodies are compared field by field.
// Output: "s<step> <module> <open|close> <verdict>" per expected notification, joined by " | ".
// ---------------------------------------------------------------------------------------------------------------

const vtFieldsTemplate = `{"cluster":{{jsonencoder .Cluster}},"group":{{jsonencoder .Group}},"id":{{jsonencoder .ID}},"start":{{.Start.UnixNano}},"extras":{{jsonencoder .Extras}},"result":{{jsonencoder .Result}}}`

type vtCaptured struct {
	module, kind, uri, method string
	body                      []byte
	subject                   string
}

func vtMailText(m *gomail.Message) (string, string, error) {
	var buf bytes.Buffer
	if _, err := m.WriteTo(&buf); err != nil {
		return "", "", err
	}
	msg, err := mail.ReadMessage(&buf)
	if err != nil {
		return "", "", err
	}
	var r io.Reader = msg.Body
	if strings.EqualFold(msg.Header.Get("Content-Transfer-Encoding"), "quoted-printable") {
		r = quotedprintable.NewReader(msg.Body)
	}
	b, err := io.ReadAll(r)
	if err != nil {
		return "", "", err
	}
	subject := ""
	if h := m.GetHeader("Subject"); len(h) > 0 {
		subject = h[0]
	}
	return subject, strings.ReplaceAll(string(b), "\r\n", "\n"), nil
}

// what createMessage makes of the rendered text: the first "Subject: " line is the subject, "Content-Type: " and
// "MIME-version: " lines are headers, every other line is body
func vtMailExpected(content string) (subject, body string) {
	for _, line := range strings.Split(content, "\n") {
		switch {
		case strings.HasPrefix(line, "Subject: ") && subject == "":
			subject = strings.SplitN(line, "Subject: ", 2)[1]
		case strings.HasPrefix(line, "Content-Type: "), strings.HasPrefix(line, "MIME-version: "):
		default:
			body += line + "\n"
		}
	}
	return subject, body
}

func vtSeq(t *vtTokens) (res string) {
	defer func() {
		if r := recover(); r != nil {
			res = fmt.Sprintf("SEQ-PANIC %v", r)
		}
		VerifSetClock(0)
	}()
	repo := os.Getenv("VERIF_REPO")
	if repo == "" {
		repo = "/repo"
	}
	nm := int(t.i64())
	mods := make([]vtModule, nm)
	for i := range mods {
		mods[i] = vtModule{name: t.next(), class: t.next(), open: t.next(), close: t.next(), sendClose: t.next() == "1"}
		mods[i].extras = t.extras()
	}
	clock := t.i64() * int64(time.Second)
	nsteps := int(t.i64())
	cluster := t.str()
	groups := []string{t.str(), t.str()}

	// the all-fields module renders a template of the probe's own with the extras of the first module
	ff, err := os.CreateTemp("", "verif-fields-*.tmpl")
	if err != nil {
		return "SEQ-SETUP " + err.Error()
	}
	ff.WriteString(vtFieldsTemplate)
	ff.Close()
	defer os.Remove(ff.Name())
	fields := vtModule{name: "zzfields", class: "http", open: ff.Name(), close: ff.Name(), sendClose: true, extras: map[string]string{}}
	if len(mods) > 0 {
		for k, v := range mods[0].extras {
			fields.extras[k] = v
		}
	}
	all := append(append([]vtModule{}, mods...), fields)
	sort.Slice(all, func(i, j int) bool { return all[i].name < all[j].name })

	var mu sync.Mutex
	var captured []vtCaptured
	ts := httptest.NewServer(http.HandlerFunc(func(w http.ResponseWriter, r *http.Request) {
		body, _ := io.ReadAll(r.Body)
		parts := strings.Split(strings.TrimPrefix(r.URL.Path, "/"), "/")
		c := vtCaptured{uri: r.RequestURI, method: r.Method, body: body}
		if len(parts) >= 2 {
			c.kind, c.module = parts[0], parts[1]
		}
		mu.Lock()
		captured = append(captured, c)
		mu.Unlock()
		w.WriteHeader(200)
	}))
	defer ts.Close()

	coordinator := vtFreshCoordinator()
	viper.Reset()
	for _, m := range all {
		root := "notifier." + m.name
		viper.Set(root+".class-name", m.class)
		if filepath.IsAbs(m.open) {
			viper.Set(root+".template-open", m.open)
			viper.Set(root+".template-close", m.close)
		} else {
			viper.Set(root+".template-open", filepath.Join(repo, "config", m.open))
			viper.Set(root+".template-close", filepath.Join(repo, "config", m.close))
		}
		viper.Set(root+".send-close", m.sendClose)
		viper.Set(root+".send-interval", 0)
		viper.Set(root+".threshold", 2)
		for k, v := range m.extras {
			viper.Set(root+".extras."+k, v)
		}
		switch m.class {
		case "http":
			viper.Set(root+".url-open", ts.URL+"/open/"+m.name+"/{{.Group}}?id={{.ID}}")
			viper.Set(root+".url-close", ts.URL+"/close/"+m.name+"/{{.Group}}?id={{.ID}}")
			viper.Set(root+".method-close", "DELETE")
		case "email":
			viper.Set(root+".server", "127.0.0.1")
			viper.Set(root+".port", 25)
			viper.Set(root+".from", "burrow@example.com")
			viper.Set(root+".to", "oncall@example.com")
		}
	}
	coordinator.Configure()
	for _, m := range all {
		if em, ok := coordinator.modules[m.name].(*EmailNotifier); ok {
			name := m.name
			em.sendMailFunc = func(msg *gomail.Message) error {
				subject, body, err := vtMailText(msg)
				if err != nil {
					body = "UNREADABLE " + err.Error()
				}
				mu.Lock()
				captured = append(captured, vtCaptured{module: name, subject: subject, body: []byte(body)})
				mu.Unlock()
				return nil
			}
		}
	}
	coordinator.clusters[cluster] = &clusterGroups{Lock: &sync.RWMutex{}, Groups: map[string]*consumerGroup{}}
	for _, g := range groups {
		coordinator.clusters[cluster].Groups[g] = &consumerGroup{LastNotify: make(map[string]time.Time)}
	}
	incidentStart := map[string]time.Time{} // by the probe's own book-keeping: the clock value of the opening step
	var lines []string
	for step := 0; step < nsteps; step++ {
		clock += t.i64() * int64(time.Second)
		group := groups[int(t.i64())]
		status := t.status(cluster, group)
		VerifSetClock(clock)
		grp := coordinator.clusters[cluster].Groups[group]
		idBefore := grp.ID
		captured = nil
		coordinator.running.Add(1)
		coordinator.checkAndSendResponseToModules(status)
		id := idBefore
		if id == "" {
			id = grp.ID
		}
		_, active := incidentStart[group]
		good := status.Status == protocol.StatusOK
		if !active && status.Status > protocol.StatusOK {
			incidentStart[group] = time.Unix(0, clock)
			active = true
		}
		start := incidentStart[group]
		got := append([]vtCaptured{}, captured...)
		for _, m := range all {
			// what the configuration and the sequence call for
			expectKind := ""
			switch {
			case good && active && m.sendClose:
				expectKind = "close"
			case !good && int(status.Status) >= 2:
				expectKind = "open"
			}
			var mine []vtCaptured
			for _, c := range got {
				if c.module == m.name {
					mine = append(mine, c)
				}
			}
			if expectKind == "" {
				if len(mine) > 0 {
					lines = append(lines, fmt.Sprintf("s%d %s MISMATCH: %d notifications sent, none expected", step, m.name, len(mine)))
				}
				continue
			}
			entry := fmt.Sprintf("s%d %s %s ", step, m.name, expectKind)
			if len(mine) != 1 {
				lines = append(lines, entry+fmt.Sprintf("MISMATCH: %d notifications received, 1 expected", len(mine)))
				continue
			}
			c := mine[0]
			file := m.open
			if expectKind == "close" {
				file = m.close
			}
			if m.name == "zzfields" {
				var f struct {
					Cluster, Group, ID string
					Start              int64
					Extras             map[string]string
					Result             json.RawMessage
				}
				want, _ := json.Marshal(status)
				switch err := json.Unmarshal(c.body, &f); {
				case err != nil:
					entry += "MISMATCH: body is not JSON: " + string(c.body)
				case f.Cluster != cluster:
					entry += fmt.Sprintf("MISMATCH field Cluster: %q, the reply is about cluster %q", f.Cluster, cluster)
				case f.Group != group:
					entry += fmt.Sprintf("MISMATCH field Group: %q, the reply is about group %q", f.Group, group)
				case f.ID != id || id == "":
					entry += fmt.Sprintf("MISMATCH field ID: %q, the incident's event id is %q", f.ID, id)
				case f.Start != start.UnixNano():
					entry += fmt.Sprintf("MISMATCH field Start: %d, the incident was opened at %d", f.Start, start.UnixNano())
				case !reflect.DeepEqual(f.Extras, m.extras) && !(len(f.Extras) == 0 && len(m.extras) == 0):
					entry += fmt.Sprintf("MISMATCH field Extras: %q, configured %q", f.Extras, m.extras)
				case !bytes.Equal(f.Result, want):
					entry += fmt.Sprintf("MISMATCH field Result: %s, the reply is %s", f.Result, want)
				case c.kind != expectKind || c.uri != "/"+expectKind+"/"+m.name+"/"+group+"?id="+id:
					entry += fmt.Sprintf("MISMATCH url: %s %s", c.method, c.uri)
				default:
					entry += "FIELDS-OK"
				}
				lines = append(lines, entry)
				continue
			}
			tmpl, err := vtTemplate(file)
			if err != nil {
				lines = append(lines, entry+"PARSE-ERR")
				continue
			}
			verdict, want := vtExec(tmpl, m.extras, status, id, start)
			switch m.class {
			case "http":
				switch {
				case c.kind != expectKind:
					entry += fmt.Sprintf("MISMATCH: sent to the %s url", c.kind)
				case !bytes.Equal(c.body, want):
					entry += fmt.Sprintf("MISMATCH body: received %s expected %s", vtHexPrefix(c.body), vtHexPrefix(want))
				case c.uri != "/"+expectKind+"/"+m.name+"/"+group+"?id="+id:
					entry += fmt.Sprintf("MISMATCH url: %s %s", c.method, c.uri)
				default:
					entry += verdict
				}
			case "email":
				ws, wb := vtMailExpected(string(want))
				if c.subject != ws || strings.TrimRight(string(c.body), "\n") != strings.TrimRight(wb, "\n") {
					entry += fmt.Sprintf("MISMATCH body: received %s expected %s", vtHexPrefix(c.body), vtHexPrefix([]byte(wb)))
				} else {
					entry += verdict
				}
			}
			lines = append(lines, entry)
		}
		if good {
			delete(incidentStart, group)
		}
	}
	return strings.Join(lines, " | ")
}

// ---------------------------------------------------------------------------------------------------------------
// "hcall" cases: the VALUE the documented summarising helpers return.  A one-action template calling the helper is
// parsed with the coordinator's FuncMap and executed with executeTemplate on the generated status; maps go through
// jsonencoder and are printed in a canonical form (keys sorted, topic lists sorted).
// Output: "OK <canonical value>" or "ERR".
// ---------------------------------------------------------------------------------------------------------------
var vtHelperTemplates = map[string]string{
	"topicsbystatus":  `{{topicsbystatus .Result.Partitions | jsonencoder}}`,
	"partitioncounts": `{{partitioncounts .Result.Partitions | jsonencoder}}`,
	"maxlag":          `{{maxlag .Result.Maxlag}}`,
	"arith":           `{{add .Result.TotalPartitions 7}} {{minus .Result.TotalPartitions 7}} {{multiply .Result.TotalPartitions 7}} {{divide .Result.TotalPartitions 7}}`,
}

func vtHcall(t *vtTokens) (res string) {
	defer func() {
		if r := recover(); r != nil {
			res = "PANIC"
		}
	}()
	which := t.next()
	_ = t.next() // template name of the render format: unused
	_ = t.next()
	cluster, group, id := t.str(), t.str(), t.str()
	start := vtStart(t.i64())
	extras := t.extras()
	status := t.status(cluster, group)
	carrier, err := vtFuncs()
	if err != nil {
		return "PARSE-ERR"
	}
	tmpl, err := carrier.New("hcall").Parse(vtHelperTemplates[which])
	if err != nil {
		return "PARSE-ERR"
	}
	verdict, out := vtExec(tmpl, extras, status, id, start)
	if out == nil {
		return verdict
	}
	switch which {
	case "topicsbystatus":
		var m map[string][]string
		if err := json.Unmarshal(out, &m); err != nil {
			return "OK unreadable " + string(out)
		}
		var entries []string
		for k, l := range m {
			sort.Strings(l)
			entries = append(entries, k+"="+strings.Join(l, ","))
		}
		sort.Strings(entries)
		return "OK " + strings.Join(entries, ";")
	case "partitioncounts":
		var m map[string]int
		if err := json.Unmarshal(out, &m); err != nil {
			return "OK unreadable " + string(out)
		}
		var entries []string
		for k, n := range m {
			entries = append(entries, fmt.Sprintf("%s=%d", k, n))
		}
		sort.Strings(entries)
		return "OK " + strings.Join(entries, ";")
	}
	return "OK " + string(out)
}

func TestVerifProbeTmpl(t *testing.T) {
	casesPath, outPath := os.Getenv("VERIF_CASES"), os.Getenv("VERIF_OUT")
	if casesPath == "" || outPath == "" {
		t.Skip("VERIF_CASES / VERIF_OUT not set")
	}
	in, err := os.Open(casesPath)
	if err != nil {
		t.Fatal(err)
	}
	defer in.Close()
	outf, err := os.Create(outPath)
	if err != nil {
		t.Fatal(err)
	}
	defer outf.Close()
	w := bufio.NewWriter(outf)
	defer w.Flush()
	sc := bufio.NewScanner(in)
	sc.Buffer(make([]byte, 1<<20), 1<<26)
	for sc.Scan() {
		line := strings.TrimSpace(sc.Text())
		if line == "" {
			continue
		}
		tk := &vtTokens{f: strings.Fields(line)}
		switch tk.next() {
		case "render":
			fmt.Fprintln(w, vtRender(tk))
		case "offer":
			fmt.Fprintln(w, vtOffer(tk))
		case "conf":
			fmt.Fprintln(w, vtConf(tk))
		case "seq":
			fmt.Fprintln(w, vtSeq(tk))
		case "hcall":
			fmt.Fprintln(w, vtHcall(tk))
		default:
			t.Fatalf("unknown case kind in %q", line)
		}
	}
}
