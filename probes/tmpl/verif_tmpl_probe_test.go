//go:build verif

package notifier

// Correspondence probe for the Coq model Burrow.Tmpl / Burrow.Json (C20).  Every case names a template
// file shipped in config/ and a generated group status; the template is parsed exactly as
// Coordinator.Configure does and rendered with executeTemplate, as the http and email notifiers do.
// Output per case: "OK json=<0|1>" (rendered; json.Valid of the bytes) or "ERR".
// A second kind of case, "offer <hex template text>", executes a one-action template written against the documented
// data fields / helper functions (parsed with helperFunctionMap, executed with executeTemplate on a fixed status) and
// prints "OK <hex of the output>", "PARSE-ERR" or "ERR".

import (
	"bufio"
	"encoding/hex"
	"encoding/json"
	"fmt"
	"math"
	"os"
	"path/filepath"
	"strconv"
	"strings"
	"testing"
	"text/template"
	"time"

	"github.com/linkedin/Burrow/core/protocol"
)

type vtTokens struct {
	f []string
	i int
}

func (t *vtTokens) next() string { s := t.f[t.i]; t.i++; return s }
func (t *vtTokens) i64() int64 {
	v, err := strconv.ParseInt(t.next(), 10, 64)
	if err != nil {
		panic(err)
	}
	return v
}
func (t *vtTokens) u64() uint64 {
	v, err := strconv.ParseUint(t.next(), 10, 64)
	if err != nil {
		panic(err)
	}
	return v
}
func (t *vtTokens) str() string {
	s := t.next()
	b, err := hex.DecodeString(strings.TrimPrefix(s, "x"))
	if err != nil {
		panic(err)
	}
	return string(b)
}
func (t *vtTokens) f32() float32 {
	s := t.next()
	if s == "nan" {
		return float32(math.NaN())
	}
	v, err := strconv.ParseFloat(s, 32)
	if err != nil {
		panic(err)
	}
	return float32(v)
}

func (t *vtTokens) offset() *protocol.ConsumerOffset {
	if t.next() == "nil" {
		return nil
	}
	o := &protocol.ConsumerOffset{Offset: t.i64(), Order: t.i64(), Timestamp: t.i64(), ObservedTimestamp: t.i64()}
	if l := t.next(); l != "n" {
		v, err := strconv.ParseUint(l, 10, 64)
		if err != nil {
			panic(err)
		}
		o.Lag = &protocol.Lag{Value: v}
	}
	return o
}

func (t *vtTokens) partition() *protocol.PartitionStatus {
	if t.next() == "nil" {
		return nil
	}
	p := &protocol.PartitionStatus{Topic: t.str(), Partition: int32(t.i64()), Owner: t.str(), ClientID: t.str(),
		Status: protocol.StatusConstant(t.i64())}
	p.Start = t.offset()
	p.End = t.offset()
	p.CurrentLag = t.u64()
	p.Complete = t.f32()
	return p
}

var vtTemplates = map[string]*template.Template{}
var vtTemplateErr = map[string]error{}

// vtTemplate parses a shipped template file the way Coordinator.Configure does (coordinator.go:158-161, 214-219).
func vtTemplate(name string) (*template.Template, error) {
	if t, ok := vtTemplates[name]; ok {
		return t, vtTemplateErr[name]
	}
	repo := os.Getenv("VERIF_REPO")
	if repo == "" {
		repo = "/repo"
	}
	var res *template.Template
	tmpl, err := template.New("notifier").Funcs(helperFunctionMap).ParseFiles(filepath.Join(repo, "config", name))
	if err == nil {
		res = tmpl.Templates()[0]
	}
	vtTemplates[name], vtTemplateErr[name] = res, err
	return res, err
}

func vtRender(t *vtTokens) (res string) {
	defer func() {
		if r := recover(); r != nil {
			res = "PANIC"
		}
	}()
	name := t.next()
	_ = t.next() // stateGood: which of the module's two templates the notifier picked; the data is the same
	cluster, group, id := t.str(), t.str(), t.str()
	var start time.Time
	if s := t.i64(); s != 0 {
		start = time.Unix(s, 0)
	}
	var extras map[string]string
	if n := t.i64(); n >= 0 {
		extras = make(map[string]string)
		for i := int64(0); i < n; i++ {
			k := t.str()
			extras[k] = t.str()
		}
	}
	status := &protocol.ConsumerGroupStatus{Cluster: cluster, Group: group, Status: protocol.StatusConstant(t.i64())}
	status.Complete = t.f32()
	status.TotalPartitions = int(t.i64())
	status.TotalLag = t.u64()
	status.Maxlag = t.partition()
	n := t.i64()
	if n >= 0 {
		status.Partitions = make([]*protocol.PartitionStatus, n)
		for i := int64(0); i < n; i++ {
			status.Partitions[i] = t.partition()
		}
	}
	tmpl, err := vtTemplate(name)
	if err != nil {
		return "PARSE-ERR"
	}
	out, err := executeTemplate(tmpl, extras, status, id, start)
	if err != nil {
		if os.Getenv("VERIF_TMPL_ERRORS") != "" {
			return "ERR " + strings.ReplaceAll(err.Error(), "\n", " ")
		}
		return "ERR"
	}
	if json.Valid(out.Bytes()) {
		return "OK json=1"
	}
	return "OK json=0"
}

// vtOffer: does the data handed to templates offer this field / helper?  The status has one listed partition, which is
// also the max-lag partition.
func vtOffer(t *vtTokens) (res string) {
	defer func() {
		if r := recover(); r != nil {
			res = "PANIC"
		}
	}()
	text := t.str()
	tmpl, err := template.New("offer").Funcs(helperFunctionMap).Parse(text)
	if err != nil {
		return "PARSE-ERR"
	}
	lag := &protocol.Lag{Value: 25}
	part := &protocol.PartitionStatus{Topic: "topic", Partition: 3, Owner: "owner", ClientID: "client", Status: protocol.StatusStall,
		Start: &protocol.ConsumerOffset{Offset: 10, Order: 1, Timestamp: 1500000000000, ObservedTimestamp: 1500000000001, Lag: lag},
		End:   &protocol.ConsumerOffset{Offset: 10, Order: 2, Timestamp: 1500000060000, ObservedTimestamp: 1500000060001, Lag: lag},
		CurrentLag: 25, Complete: 1}
	status := &protocol.ConsumerGroupStatus{Cluster: "cluster", Group: "group", Status: protocol.StatusError, Complete: 1,
		Partitions: []*protocol.PartitionStatus{part}, TotalPartitions: 1, Maxlag: part, TotalLag: 25}
	out, err := executeTemplate(tmpl, map[string]string{"key": "value"}, status, "event-id", time.Unix(1500000000, 0).UTC())
	if err != nil {
		if os.Getenv("VERIF_TMPL_ERRORS") != "" {
			return "ERR " + strings.ReplaceAll(err.Error(), "\n", " ")
		}
		return "ERR"
	}
	return "OK x" + hex.EncodeToString(out.Bytes())
}

func TestVerifProbeTmpl(t *testing.T) {
	casesPath, outPath := os.Getenv("VERIF_CASES"), os.Getenv("VERIF_OUT")
	if casesPath == "" || outPath == "" {
		t.Skip("VERIF_CASES / VERIF_OUT not set")
	}
	in, err := os.Open(casesPath)
	if err != nil {
		t.Fatal(err)
	}
	defer in.Close()
	outf, err := os.Create(outPath)
	if err != nil {
		t.Fatal(err)
	}
	defer outf.Close()
	w := bufio.NewWriter(outf)
	defer w.Flush()
	sc := bufio.NewScanner(in)
	sc.Buffer(make([]byte, 1<<20), 1<<26)
	for sc.Scan() {
		line := strings.TrimSpace(sc.Text())
		if line == "" {
			continue
		}
		tk := &vtTokens{f: strings.Fields(line)}
		switch tk.next() {
		case "render":
			fmt.Fprintln(w, vtRender(tk))
		case "offer":
			fmt.Fprintln(w, vtOffer(tk))
		default:
			t.Fatalf("unknown case kind in %q", line)
		}
	}
}
