//go:build verif

package httpserver_test

// File-configuration probe for C16 (external test package, like the storage-backed probe): the configuration is a TOML
// DOCUMENT loaded with viper.ReadConfig -- the configuration-file layer of viper, as main.go loads burrow.toml -- and not
// a series of viper.Set calls (viper's override layer, which shadows whole sections).  Then the REAL coordinators that
// run before requests are served are configured in the order of core.newCoordinators (zookeeper if there is a
// notifier section, storage, evaluator, httpserver, notifier, cluster, consumer): whatever they do to viper (SetDefault,
// Set, ...) happens before the HTTP handlers read it.  Only then the requests are served through the real router.
//
//   filecfg TOMLHEX C <cfg-tree> Q n (METHOD RAWHEX DECODEDHEX)*
//   =>  FILE ok|PANIC:<coordinator>:<hex message> K (<code>:<error flag>:<hex of the sorted "modules" list or ->)*

import (
	"encoding/json"
	"fmt"
	"sort"
	"strings"

	"github.com/spf13/viper"
	"go.uber.org/zap"

	"github.com/linkedin/Burrow/core/internal/cluster"
	"github.com/linkedin/Burrow/core/internal/consumer"
	"github.com/linkedin/Burrow/core/internal/evaluator"
	"github.com/linkedin/Burrow/core/internal/httpserver"
	"github.com/linkedin/Burrow/core/internal/notifier"
	"github.com/linkedin/Burrow/core/internal/storage"
	"github.com/linkedin/Burrow/core/internal/zookeeper"
	"github.com/linkedin/Burrow/core/protocol"
)

func init() { httpserver.VerifFile = func(f []string) string { return veFile(&veToks{f: f}) } }

// skip a configuration tree (the model side reads it; the implementation reads the TOML document)
func veSkipTree(t *veToks) {
	switch t.next() {
	case "L":
		switch t.next() {
		case "l":
			n := t.int()
			for i := 0; i < n; i++ {
				t.next()
			}
		default:
			t.next()
		}
	case "N":
		n := t.int()
		for i := 0; i < n; i++ {
			t.next()
			veSkipTree(t)
		}
	default:
		panic("tree token")
	}
}

func veFile(t *veToks) string {
	doc := vhUnhex(t.next())
	if t.next() != "C" {
		panic("expected C")
	}
	veSkipTree(t)
	if t.next() != "Q" {
		panic("expected Q")
	}
	n := t.int()
	type rq struct{ method, raw string }
	reqs := make([]rq, n)
	for i := range reqs {
		reqs[i] = rq{t.next(), vhUnhex(t.next())}
		t.next() // decoded path: model side only
	}

	viper.Reset()
	viper.SetConfigType("toml")
	if err := viper.ReadConfig(strings.NewReader(doc)); err != nil {
		return "FILE UNREADABLE:" + vhHex(err.Error())
	}
	logLevel := zap.NewAtomicLevelAt(zap.InfoLevel)
	app := &protocol.ApplicationContext{
		Logger:           zap.NewNop(),
		LogLevel:         &logLevel,
		StorageChannel:   make(chan *protocol.StorageRequest),
		EvaluatorChannel: make(chan *protocol.EvaluatorRequest),
		AppReady:         true,
	}
	hc := &httpserver.Coordinator{App: app, Log: zap.NewNop()}
	type named struct {
		name string
		c    protocol.Coordinator
	}
	var order []named
	haveNotifiers := viper.IsSet("notifier")
	if haveNotifiers {
		order = append(order, named{"zookeeper", &zookeeper.Coordinator{App: app, Log: zap.NewNop()}})
	}
	order = append(order,
		named{"storage", &storage.Coordinator{App: app, Log: zap.NewNop()}},
		named{"evaluator", &evaluator.Coordinator{App: app, Log: zap.NewNop()}},
		named{"httpserver", hc})
	if haveNotifiers {
		order = append(order, named{"notifier", &notifier.Coordinator{App: app, Log: zap.NewNop()}})
	}
	order = append(order,
		named{"cluster", &cluster.Coordinator{App: app, Log: zap.NewNop()}},
		named{"consumer", &consumer.Coordinator{App: app, Log: zap.NewNop()}})
	verdict := "ok"
	for _, co := range order {
		func() {
			defer func() {
				if r := recover(); r != nil && verdict == "ok" {
					verdict = "PANIC:" + co.name + ":" + vhHex(fmt.Sprint(r))
				}
			}()
			co.c.Configure()
		}()
		if verdict != "ok" {
			return "FILE " + verdict + " K"
		}
	}
	var sb strings.Builder
	sb.WriteString("FILE ok K")
	for _, r := range reqs {
		rr, crashed, bad := httpserver.VerifServe(hc, r.method, r.raw)
		switch {
		case bad:
			sb.WriteString(" BADURL")
		case crashed:
			sb.WriteString(" CRASH")
		default:
			errf, list := "-", "-"
			var obj map[string]json.RawMessage
			ct := rr.Result().Header.Get("Content-Type")
			if (ct == "application/json" || strings.HasPrefix(ct, "application/json;")) && json.Unmarshal(rr.Body.Bytes(), &obj) == nil && obj != nil {
				switch string(obj["error"]) {
				case "true":
					errf = "t"
				case "false":
					errf = "f"
				}
				if m, ok := obj["modules"]; ok {
					var l []string
					if json.Unmarshal(m, &l) == nil {
						sort.Strings(l)
						list = vhHex("[" + strings.Join(l, ",") + "]")
					}
				}
			}
			fmt.Fprintf(&sb, " %d:%s:%s", rr.Code, errf, list)
		}
	}
	return sb.String()
}
