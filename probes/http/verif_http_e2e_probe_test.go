//go:build verif

package httpserver_test

// Storage-backed probe for the read-only half of C16 (external test package: storage imports httpserver): "read
// requests never change what later reads return, apart from dropping groups that had already expired".
//
// Three identical stacks R, A and B are built, one after the other, from the same case line: the REAL storage
// coordinator (inmemory module, one worker, so that requests are handled in the order sent), the REAL evaluator
// coordinator (caching module, cache lifetime longer than the case) and the REAL HTTP coordinator, sharing one
// ApplicationContext; the same offsets are ingested under the same virtual clock, and what has expired at T is purged.
//   R serves nothing.
//   A serves the SWEEP at clock T: every /v3 GET route for every name, both status views of every group in both
//     orders (status, lag, status, lag / lag, status, lag, status), i.e. every request repeated.
//   B serves batch G at T, then the same SWEEP at T, then batch H with the clock advancing to T2.
// Observations compared:
//   later reads, pairwise   : sweep response i of A == sweep response i of B (status code + canonicalised body);
//   later reads, repetition : within A and within B, a repeated sweep request is answered as the first time;
//   storage                 : at T2 every Fetch type for every name is dumped twice (the first dump lets storage purge
//                             what has expired at T2); the second dumps of R, A and B are equal.
// State that lives anywhere behind the HTTP layer (storage, the evaluator's cache, ...) is therefore observed the way
// the property says: through later reads.
//
//   e2e EXPIRE INTERVALS NC CLUSTERHEX* I n op* T T2 G m (0 METHOD RAWHEX)* S k (0 METHOD RAWHEX)* H j (DT METHOD RAWHEX)*
//     op:  t SEC | b C T P COUNT OFF | c C G T P OFF TSMS | o C G T P OWNER      (C, G, T, OWNER hex)
//
// Output:  E2E same|DIFF:<kind>:<detail> n=<gets> sweep=<k> live=<groups> mix=<groups whose complete view lists an OK
//          partition before a non-OK one> dump=<hash> sw=<hash> K <code:err:status of every G and H request>*

import (
	"crypto/sha1"
	"encoding/hex"
	"encoding/json"
	"fmt"
	"net/http/httptest"
	"sort"
	"strconv"
	"strings"
	"time"

	"github.com/spf13/viper"
	"go.uber.org/zap"

	"github.com/linkedin/Burrow/core/internal/evaluator"
	"github.com/linkedin/Burrow/core/internal/httpserver"
	"github.com/linkedin/Burrow/core/internal/storage"
	"github.com/linkedin/Burrow/core/protocol"
)

type veOp struct {
	kind                string
	sec                 int64
	cluster, group, top string
	part                int32
	count               int32
	off, ts             int64
	owner               string
}

type veGet struct {
	dt     int64
	method string
	raw    string
}

type veStack struct {
	app  *protocol.ApplicationContext
	st   *storage.Coordinator
	ev   *evaluator.Coordinator
	http *httpserver.Coordinator
}

func veSetClock(sec int64) {
	storage.VerifSetClock(sec * int64(time.Second))
	evaluator.VerifSetClock(sec * int64(time.Second))
}

func veStart(expire int64, intervals int, clusters []string) *veStack {
	viper.Reset()
	viper.Set("storage.e2e.class-name", "inmemory")
	viper.Set("storage.e2e.intervals", intervals)
	viper.Set("storage.e2e.min-distance", 0)
	viper.Set("storage.e2e.expire-group", expire)
	viper.Set("storage.e2e.workers", 1)
	viper.Set("evaluator.e2e.class-name", "caching")
	viper.Set("evaluator.e2e.expire-cache", 600) // real seconds: the whole case lies inside the cache lifetime
	for _, c := range clusters {
		viper.Set("cluster."+c+".class-name", "kafka")
		viper.Set("cluster."+c+".servers", []string{"k1:9092"})
	}
	logLevel := zap.NewAtomicLevelAt(zap.InfoLevel)
	app := &protocol.ApplicationContext{
		Logger:           zap.NewNop(),
		LogLevel:         &logLevel,
		StorageChannel:   make(chan *protocol.StorageRequest),
		EvaluatorChannel: make(chan *protocol.EvaluatorRequest),
		AppReady:         true,
	}
	s := &veStack{app: app}
	s.st = &storage.Coordinator{App: app, Log: zap.NewNop()}
	s.st.Configure()
	if err := s.st.Start(); err != nil {
		panic(err)
	}
	s.ev = &evaluator.Coordinator{App: app, Log: zap.NewNop()}
	s.ev.Configure()
	if err := s.ev.Start(); err != nil {
		panic(err)
	}
	s.http = &httpserver.Coordinator{App: app, Log: zap.NewNop()}
	s.http.Configure()
	return s
}

func (s *veStack) stop() {
	s.ev.Stop()
	s.st.Stop()
}

func (s *veStack) send(r *protocol.StorageRequest) {
	select {
	case s.app.StorageChannel <- r:
	case <-time.After(20 * time.Second):
		panic("storage does not accept requests")
	}
}

func (s *veStack) fetch(r *protocol.StorageRequest) interface{} {
	r.Reply = make(chan interface{})
	s.send(r)
	select {
	case v := <-r.Reply:
		return v
	case <-time.After(20 * time.Second):
		panic("storage did not answer a fetch")
	}
}

func (s *veStack) ingest(ops []veOp) {
	for i, op := range ops {
		switch op.kind {
		case "t":
			// barrier: everything sent so far has been handled (one worker) before the clock moves
			s.fetch(&protocol.StorageRequest{RequestType: protocol.StorageFetchClusters})
			veSetClock(op.sec)
		case "b":
			s.send(&protocol.StorageRequest{RequestType: protocol.StorageSetBrokerOffset, Cluster: op.cluster, Topic: op.top,
				Partition: op.part, TopicPartitionCount: op.count, Offset: op.off, Timestamp: op.ts})
		case "c":
			s.send(&protocol.StorageRequest{RequestType: protocol.StorageSetConsumerOffset, Cluster: op.cluster, Group: op.group,
				Topic: op.top, Partition: op.part, Offset: op.off, Order: int64(i + 1), Timestamp: op.ts})
		case "o":
			s.send(&protocol.StorageRequest{RequestType: protocol.StorageSetConsumerOwner, Cluster: op.cluster, Group: op.group,
				Topic: op.top, Partition: op.part, Owner: op.owner})
		}
	}
	s.fetch(&protocol.StorageRequest{RequestType: protocol.StorageFetchClusters})
}

func veCanon(v interface{}) string {
	switch x := v.(type) {
	case nil:
		return "nil"
	case []string:
		l := append([]string{}, x...)
		sort.Strings(l)
		return "S" + strings.Join(l, ",")
	case []int64:
		return fmt.Sprintf("I%v", x)
	default:
		js, err := json.Marshal(x)
		if err != nil {
			return "ERR " + err.Error()
		}
		return fmt.Sprintf("%T %s", v, js)
	}
}

// dump: every Fetch type for every name of the pool (and for one name that exists nowhere)
func (s *veStack) dump(clusters, topics, groups []string) map[string]string {
	d := map[string]string{}
	d["clusters"] = veCanon(s.fetch(&protocol.StorageRequest{RequestType: protocol.StorageFetchClusters}))
	for _, c := range append(append([]string{}, clusters...), "no-such-cluster") {
		d["topics:"+c] = veCanon(s.fetch(&protocol.StorageRequest{RequestType: protocol.StorageFetchTopics, Cluster: c}))
		d["consumers:"+c] = veCanon(s.fetch(&protocol.StorageRequest{RequestType: protocol.StorageFetchConsumers, Cluster: c}))
		for _, t := range append(append([]string{}, topics...), "no-such-topic") {
			d["topic:"+c+":"+t] = veCanon(s.fetch(&protocol.StorageRequest{RequestType: protocol.StorageFetchTopic, Cluster: c, Topic: t}))
			d["cft:"+c+":"+t] = veCanon(s.fetch(&protocol.StorageRequest{RequestType: protocol.StorageFetchConsumersForTopic, Cluster: c, Topic: t}))
		}
		for _, g := range append(append([]string{}, groups...), "no-such-group") {
			d["consumer:"+c+":"+g] = veCanon(s.fetch(&protocol.StorageRequest{RequestType: protocol.StorageFetchConsumer, Cluster: c, Group: g}))
		}
	}
	return d
}

func veProject(rr *httptest.ResponseRecorder) string {
	errf, status := "-", "-"
	var obj map[string]json.RawMessage
	if json.Unmarshal(rr.Body.Bytes(), &obj) == nil && obj != nil {
		switch string(obj["error"]) {
		case "true":
			errf = "t"
		case "false":
			errf = "f"
		}
		if st, ok := obj["status"]; ok {
			var so map[string]json.RawMessage
			if json.Unmarshal(st, &so) == nil {
				var name string
				if json.Unmarshal(so["status"], &name) == nil {
					status = name
				}
			}
		}
	}
	return fmt.Sprintf("%d:%s:%s", rr.Code, errf, status)
}

type veToks struct {
	f []string
	i int
}

func (t *veToks) next() string { s := t.f[t.i]; t.i++; return s }
func (t *veToks) i64() int64 {
	v, err := strconv.ParseInt(t.next(), 10, 64)
	if err != nil {
		panic(err)
	}
	return v
}
func (t *veToks) int() int { return int(t.i64()) }

func vhUnhex(h string) string {
	if h == "-" {
		return ""
	}
	b, err := hex.DecodeString(h)
	if err != nil {
		panic(err)
	}
	return string(b)
}

func vhHex(s string) string {
	if s == "" {
		return "-"
	}
	return hex.EncodeToString([]byte(s))
}

func init() { httpserver.VerifE2E = func(f []string) string { return veE2E(&veToks{f: f}) } }

// veCanonJSON: the body as a client can interpret it, independent of Go map iteration order -- objects with sorted
// keys (encoding/json does that), arrays sorted by the encoding of their elements (topic / group / partition lists are
// produced by ranging over maps).  A body that is not JSON is kept as it is.
func veCanonValue(v interface{}) interface{} {
	switch x := v.(type) {
	case map[string]interface{}:
		for k, e := range x {
			x[k] = veCanonValue(e)
		}
		return x
	case []interface{}:
		enc := make([]string, len(x))
		for i, e := range x {
			b, _ := json.Marshal(veCanonValue(e))
			enc[i] = string(b)
		}
		sort.Strings(enc)
		out := make([]interface{}, len(enc))
		for i, e := range enc {
			out[i] = json.RawMessage(e)
		}
		return out
	default:
		return v
	}
}

func veCanonBody(b []byte) string {
	var v interface{}
	dec := json.NewDecoder(strings.NewReader(string(b)))
	dec.UseNumber()
	if err := dec.Decode(&v); err != nil {
		return "RAW " + string(b)
	}
	out, err := json.Marshal(veCanonValue(v))
	if err != nil {
		return "RAW " + string(b)
	}
	return string(out)
}

// okBeforeBad: does the complete view list a partition with status OK before one with another status?  (what an
// in-place filter of the cached partition list needs in order to show)
func veOkBeforeBad(b []byte) bool {
	var r struct {
		Status struct {
			Partitions []struct {
				Status string `json:"status"`
			} `json:"partitions"`
		} `json:"status"`
	}
	if json.Unmarshal(b, &r) != nil {
		return false
	}
	seenOK := false
	for _, p := range r.Status.Partitions {
		if p.Status == "OK" {
			seenOK = true
		} else if seenOK {
			return true
		}
	}
	return false
}

type veResp struct {
	code int
	body string
}

func (r veResp) key() string {
	h := sha1.Sum([]byte(r.body))
	return fmt.Sprintf("%d:%s", r.code, hex.EncodeToString(h[:6]))
}

func veClip(s string) string {
	if len(s) > 700 {
		s = s[:700]
	}
	return vhHex(s)
}

// veClipPair: both bodies cut to a window around their first difference
func veClipPair(a, b string) (string, string) {
	p := 0
	for p < len(a) && p < len(b) && a[p] == b[p] {
		p++
	}
	from := p - 150
	if from < 0 {
		from = 0
	}
	cut := func(s string) string {
		to := p + 450
		if to > len(s) {
			to = len(s)
		}
		pre := ""
		if from > 0 {
			pre = "..."
		}
		return vhHex(pre + s[from:to])
	}
	return cut(a), cut(b)
}

func veE2E(t *veToks) string {
	expire := t.i64()
	intervals := t.int()
	nc := t.int()
	clusters := make([]string, nc)
	for i := range clusters {
		clusters[i] = vhUnhex(t.next())
	}
	if t.next() != "I" {
		panic("expected I")
	}
	n := t.int()
	ops := make([]veOp, n)
	topicSet, groupSet := map[string]bool{}, map[string]bool{}
	for i := range ops {
		op := veOp{kind: t.next()}
		switch op.kind {
		case "t":
			op.sec = t.i64()
		case "b":
			op.cluster, op.top = vhUnhex(t.next()), vhUnhex(t.next())
			op.part, op.count, op.off = int32(t.int()), int32(t.int()), t.i64()
			topicSet[op.top] = true
		case "c":
			op.cluster, op.group, op.top = vhUnhex(t.next()), vhUnhex(t.next()), vhUnhex(t.next())
			op.part, op.off, op.ts = int32(t.int()), t.i64(), t.i64()
			topicSet[op.top], groupSet[op.group] = true, true
		case "o":
			op.cluster, op.group, op.top = vhUnhex(t.next()), vhUnhex(t.next()), vhUnhex(t.next())
			op.part, op.owner = int32(t.int()), vhUnhex(t.next())
			groupSet[op.group] = true
		default:
			panic("e2e op kind " + op.kind)
		}
		ops[i] = op
	}
	tStart, tEnd := t.i64(), t.i64()
	readGets := func(tag string) []veGet {
		if t.next() != tag {
			panic("expected " + tag)
		}
		m := t.int()
		gs := make([]veGet, m)
		for i := range gs {
			gs[i] = veGet{dt: t.i64(), method: t.next(), raw: vhUnhex(t.next())}
		}
		return gs
	}
	batch1 := readGets("G") // served by stack B at the clock value T, before the sweep
	sweep := readGets("S")  // served by stacks A and B at T: the later reads that are compared
	batch2 := readGets("H") // served by stack B afterwards, the clock advancing to T2
	var topics, groups []string
	for k := range topicSet {
		topics = append(topics, k)
	}
	for k := range groupSet {
		groups = append(groups, k)
	}
	sort.Strings(topics)
	sort.Strings(groups)
	defer veSetClock(0)

	serveAll := func(s *veStack, gs []veGet, obs *[]string) []veResp {
		out := make([]veResp, len(gs))
		for i, g := range gs {
			veSetClock(tStart + g.dt)
			rr, crashed, bad := httpserver.VerifServe(s.http, g.method, g.raw)
			switch {
			case bad:
				out[i] = veResp{-1, "BADURL"}
			case crashed:
				out[i] = veResp{-2, "CRASH"}
			default:
				out[i] = veResp{rr.Code, veCanonBody(rr.Body.Bytes())}
			}
			if obs != nil {
				switch {
				case bad:
					*obs = append(*obs, "BADURL")
				case crashed:
					*obs = append(*obs, "CRASH")
				default:
					*obs = append(*obs, veProject(rr))
				}
			}
		}
		return out
	}

	// role 0 = R: serves nothing; 1 = A: serves the sweep only; 2 = B: batch1, sweep, batch2
	run := func(role int) (map[string]string, []veResp, []string) {
		veSetClock(tStart)
		s := veStart(expire, intervals, clusters)
		defer s.stop()
		s.ingest(ops)
		veSetClock(tStart)
		// what has expired at T is purged on every stack before anything is served, so that between batch and sweep
		// (same clock value) nothing can expire
		s.dump(clusters, topics, groups)
		var obs []string
		var sw []veResp
		if role == 2 {
			serveAll(s, batch1, &obs)
		}
		if role >= 1 {
			sw = serveAll(s, sweep, nil)
		}
		if role == 2 {
			serveAll(s, batch2, &obs)
		}
		veSetClock(tEnd)
		s.dump(clusters, topics, groups)
		return s.dump(clusters, topics, groups), sw, obs
	}
	dR, _, _ := run(0)
	dA, swA, _ := run(1)
	dB, swB, obs := run(2)

	verdict := "same"
	keys := make([]string, 0, len(dR))
	for k := range dR {
		keys = append(keys, k)
	}
	sort.Strings(keys)
	h := sha1.New()
	for _, k := range keys {
		h.Write([]byte(k + "=" + dR[k] + "\n"))
		if verdict == "same" && dR[k] != dB[k] {
			verdict = "DIFF:dump:" + vhHex(k) + ":" + veClip(dR[k]) + ":" + veClip(dB[k])
		}
		if verdict == "same" && dR[k] != dA[k] {
			verdict = "DIFF:dump:" + vhHex(k) + ":" + veClip(dR[k]) + ":" + veClip(dA[k])
		}
	}
	if len(dR) != len(dB) || len(dR) != len(dA) {
		verdict = "DIFF:dumpsize"
	}
	// later reads, pairwise: the stack that has served a batch of GETs answers the sweep as the stack that has not
	for i := range sweep {
		if verdict == "same" && (swA[i].code != swB[i].code || swA[i].body != swB[i].body) {
			ca, cb := veClipPair(swA[i].body, swB[i].body)
			verdict = fmt.Sprintf("DIFF:sweep:%d:%d:%s:%d:%s", i, swA[i].code, ca, swB[i].code, cb)
		}
	}
	// later reads, within one stack: the same request repeated (same clock value, inside the evaluator's cache
	// lifetime, only reads in between) is answered identically
	for si, sw := range [][]veResp{swA, swB} {
		first := map[string]int{}
		for i, g := range sweep {
			k := g.method + " " + g.raw
			j, seen := first[k]
			if !seen {
				first[k] = i
				continue
			}
			if verdict == "same" && (sw[i].code != sw[j].code || sw[i].body != sw[j].body) {
				cj, ci := veClipPair(sw[j].body, sw[i].body)
				verdict = fmt.Sprintf("DIFF:repeat%s:%d:%d:%s:%d:%s", []string{"A", "B"}[si], j, sw[j].code, cj, i, ci)
			}
		}
	}
	live, mix := 0, 0
	for k, v := range dR {
		if strings.HasPrefix(k, "consumer:") && v != "nil" {
			live++
		}
	}
	for i, g := range sweep {
		if strings.HasSuffix(g.raw, "/lag") && swA[i].code == 200 && veOkBeforeBad([]byte(swA[i].body)) {
			mix++
		}
	}
	hs := sha1.New()
	for _, r := range swA {
		hs.Write([]byte(r.key()))
	}
	return fmt.Sprintf("E2E %s n=%d sweep=%d live=%d mix=%d dump=%s sw=%s K %s", verdict, len(batch1)+len(batch2), len(sweep), live, mix,
		hex.EncodeToString(h.Sum(nil)[:6]), hex.EncodeToString(hs.Sum(nil)[:6]), strings.Join(obs, " "))
}
