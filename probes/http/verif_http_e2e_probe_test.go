//go:build verif

package httpserver_test

// Storage-backed probe for the read-only half of C16 (external test package: storage imports httpserver): "read requests never change what later reads return, apart
// from dropping groups that had already expired".
//
// Two identical stacks A and B are built, one after the other, from the same case line: the REAL storage coordinator
// (inmemory module, one worker, so that requests are handled in the order sent), the REAL evaluator coordinator
// (caching module) and the REAL HTTP coordinator, sharing one ApplicationContext; the same offsets are ingested
// under the same virtual clock.  Stack B then serves a batch of GET requests (every registered GET pattern,
// existing and unknown names, at clock values between T and T2) through coordinator.router.ServeHTTP; stack A
// serves nothing.  Both move the clock to T2 and dump every Fetch type for every name of the pool twice (the first
// dump lets storage purge what has expired at T2); the second dumps must be equal.
//
//   e2e EXPIRE INTERVALS NC CLUSTERHEX* I n op* T T2 G m (DT METHOD RAWHEX)*
//     op:  t SEC | b C T P COUNT OFF | c C G T P OFF TSMS | o C G T P OWNER      (C, G, T, OWNER hex)
//
// Output:  E2E same|DIFF:<key> n=<gets> K <code:err:status>*

import (
	"crypto/sha1"
	"encoding/hex"
	"encoding/json"
	"fmt"
	"net/http/httptest"
	"sort"
	"strconv"
	"strings"
	"time"

	"github.com/spf13/viper"
	"go.uber.org/zap"

	"github.com/linkedin/Burrow/core/internal/evaluator"
	"github.com/linkedin/Burrow/core/internal/httpserver"
	"github.com/linkedin/Burrow/core/internal/storage"
	"github.com/linkedin/Burrow/core/protocol"
)

type veOp struct {
	kind                string
	sec                 int64
	cluster, group, top string
	part                int32
	count               int32
	off, ts             int64
	owner               string
}

type veGet struct {
	dt     int64
	method string
	raw    string
}

type veStack struct {
	app  *protocol.ApplicationContext
	st   *storage.Coordinator
	ev   *evaluator.Coordinator
	http *httpserver.Coordinator
}

func veSetClock(sec int64) {
	storage.VerifSetClock(sec * int64(time.Second))
	evaluator.VerifSetClock(sec * int64(time.Second))
}

func veStart(expire int64, intervals int, clusters []string) *veStack {
	viper.Reset()
	viper.Set("storage.e2e.class-name", "inmemory")
	viper.Set("storage.e2e.intervals", intervals)
	viper.Set("storage.e2e.min-distance", 0)
	viper.Set("storage.e2e.expire-group", expire)
	viper.Set("storage.e2e.workers", 1)
	viper.Set("evaluator.e2e.class-name", "caching")
	viper.Set("evaluator.e2e.expire-cache", 1)
	for _, c := range clusters {
		viper.Set("cluster."+c+".class-name", "kafka")
		viper.Set("cluster."+c+".servers", []string{"k1:9092"})
	}
	logLevel := zap.NewAtomicLevelAt(zap.InfoLevel)
	app := &protocol.ApplicationContext{
		Logger:           zap.NewNop(),
		LogLevel:         &logLevel,
		StorageChannel:   make(chan *protocol.StorageRequest),
		EvaluatorChannel: make(chan *protocol.EvaluatorRequest),
		AppReady:         true,
	}
	s := &veStack{app: app}
	s.st = &storage.Coordinator{App: app, Log: zap.NewNop()}
	s.st.Configure()
	if err := s.st.Start(); err != nil {
		panic(err)
	}
	s.ev = &evaluator.Coordinator{App: app, Log: zap.NewNop()}
	s.ev.Configure()
	if err := s.ev.Start(); err != nil {
		panic(err)
	}
	s.http = &httpserver.Coordinator{App: app, Log: zap.NewNop()}
	s.http.Configure()
	return s
}

func (s *veStack) stop() {
	s.ev.Stop()
	s.st.Stop()
}

func (s *veStack) send(r *protocol.StorageRequest) {
	select {
	case s.app.StorageChannel <- r:
	case <-time.After(20 * time.Second):
		panic("storage does not accept requests")
	}
}

func (s *veStack) fetch(r *protocol.StorageRequest) interface{} {
	r.Reply = make(chan interface{})
	s.send(r)
	select {
	case v := <-r.Reply:
		return v
	case <-time.After(20 * time.Second):
		panic("storage did not answer a fetch")
	}
}

func (s *veStack) ingest(ops []veOp) {
	for i, op := range ops {
		switch op.kind {
		case "t":
			// barrier: everything sent so far has been handled (one worker) before the clock moves
			s.fetch(&protocol.StorageRequest{RequestType: protocol.StorageFetchClusters})
			veSetClock(op.sec)
		case "b":
			s.send(&protocol.StorageRequest{RequestType: protocol.StorageSetBrokerOffset, Cluster: op.cluster, Topic: op.top,
				Partition: op.part, TopicPartitionCount: op.count, Offset: op.off, Timestamp: op.ts})
		case "c":
			s.send(&protocol.StorageRequest{RequestType: protocol.StorageSetConsumerOffset, Cluster: op.cluster, Group: op.group,
				Topic: op.top, Partition: op.part, Offset: op.off, Order: int64(i + 1), Timestamp: op.ts})
		case "o":
			s.send(&protocol.StorageRequest{RequestType: protocol.StorageSetConsumerOwner, Cluster: op.cluster, Group: op.group,
				Topic: op.top, Partition: op.part, Owner: op.owner})
		}
	}
	s.fetch(&protocol.StorageRequest{RequestType: protocol.StorageFetchClusters})
}

func veCanon(v interface{}) string {
	switch x := v.(type) {
	case nil:
		return "nil"
	case []string:
		l := append([]string{}, x...)
		sort.Strings(l)
		return "S" + strings.Join(l, ",")
	case []int64:
		return fmt.Sprintf("I%v", x)
	default:
		js, err := json.Marshal(x)
		if err != nil {
			return "ERR " + err.Error()
		}
		return fmt.Sprintf("%T %s", v, js)
	}
}

// dump: every Fetch type for every name of the pool (and for one name that exists nowhere)
func (s *veStack) dump(clusters, topics, groups []string) map[string]string {
	d := map[string]string{}
	d["clusters"] = veCanon(s.fetch(&protocol.StorageRequest{RequestType: protocol.StorageFetchClusters}))
	for _, c := range append(append([]string{}, clusters...), "no-such-cluster") {
		d["topics:"+c] = veCanon(s.fetch(&protocol.StorageRequest{RequestType: protocol.StorageFetchTopics, Cluster: c}))
		d["consumers:"+c] = veCanon(s.fetch(&protocol.StorageRequest{RequestType: protocol.StorageFetchConsumers, Cluster: c}))
		for _, t := range append(append([]string{}, topics...), "no-such-topic") {
			d["topic:"+c+":"+t] = veCanon(s.fetch(&protocol.StorageRequest{RequestType: protocol.StorageFetchTopic, Cluster: c, Topic: t}))
			d["cft:"+c+":"+t] = veCanon(s.fetch(&protocol.StorageRequest{RequestType: protocol.StorageFetchConsumersForTopic, Cluster: c, Topic: t}))
		}
		for _, g := range append(append([]string{}, groups...), "no-such-group") {
			d["consumer:"+c+":"+g] = veCanon(s.fetch(&protocol.StorageRequest{RequestType: protocol.StorageFetchConsumer, Cluster: c, Group: g}))
		}
	}
	return d
}

func veProject(rr *httptest.ResponseRecorder) string {
	errf, status := "-", "-"
	var obj map[string]json.RawMessage
	if json.Unmarshal(rr.Body.Bytes(), &obj) == nil && obj != nil {
		switch string(obj["error"]) {
		case "true":
			errf = "t"
		case "false":
			errf = "f"
		}
		if st, ok := obj["status"]; ok {
			var so map[string]json.RawMessage
			if json.Unmarshal(st, &so) == nil {
				var name string
				if json.Unmarshal(so["status"], &name) == nil {
					status = name
				}
			}
		}
	}
	return fmt.Sprintf("%d:%s:%s", rr.Code, errf, status)
}

type veToks struct {
	f []string
	i int
}

func (t *veToks) next() string { s := t.f[t.i]; t.i++; return s }
func (t *veToks) i64() int64 {
	v, err := strconv.ParseInt(t.next(), 10, 64)
	if err != nil {
		panic(err)
	}
	return v
}
func (t *veToks) int() int { return int(t.i64()) }

func vhUnhex(h string) string {
	if h == "-" {
		return ""
	}
	b, err := hex.DecodeString(h)
	if err != nil {
		panic(err)
	}
	return string(b)
}

func vhHex(s string) string {
	if s == "" {
		return "-"
	}
	return hex.EncodeToString([]byte(s))
}

func init() { httpserver.VerifE2E = func(f []string) string { return veE2E(&veToks{f: f}) } }

func veE2E(t *veToks) string {
	expire := t.i64()
	intervals := t.int()
	nc := t.int()
	clusters := make([]string, nc)
	for i := range clusters {
		clusters[i] = vhUnhex(t.next())
	}
	if t.next() != "I" {
		panic("expected I")
	}
	n := t.int()
	ops := make([]veOp, n)
	topicSet, groupSet := map[string]bool{}, map[string]bool{}
	for i := range ops {
		op := veOp{kind: t.next()}
		switch op.kind {
		case "t":
			op.sec = t.i64()
		case "b":
			op.cluster, op.top = vhUnhex(t.next()), vhUnhex(t.next())
			op.part, op.count, op.off = int32(t.int()), int32(t.int()), t.i64()
			topicSet[op.top] = true
		case "c":
			op.cluster, op.group, op.top = vhUnhex(t.next()), vhUnhex(t.next()), vhUnhex(t.next())
			op.part, op.off, op.ts = int32(t.int()), t.i64(), t.i64()
			topicSet[op.top], groupSet[op.group] = true, true
		case "o":
			op.cluster, op.group, op.top = vhUnhex(t.next()), vhUnhex(t.next()), vhUnhex(t.next())
			op.part, op.owner = int32(t.int()), vhUnhex(t.next())
			groupSet[op.group] = true
		default:
			panic("e2e op kind " + op.kind)
		}
		ops[i] = op
	}
	tStart, tEnd := t.i64(), t.i64()
	if t.next() != "G" {
		panic("expected G")
	}
	m := t.int()
	gets := make([]veGet, m)
	for i := range gets {
		gets[i] = veGet{dt: t.i64(), method: t.next(), raw: vhUnhex(t.next())}
	}
	var topics, groups []string
	for k := range topicSet {
		topics = append(topics, k)
	}
	for k := range groupSet {
		groups = append(groups, k)
	}
	sort.Strings(topics)
	sort.Strings(groups)
	defer veSetClock(0)

	run := func(serve bool) (map[string]string, []string) {
		veSetClock(tStart)
		s := veStart(expire, intervals, clusters)
		defer s.stop()
		s.ingest(ops)
		veSetClock(tStart)
		var obs []string
		if serve {
			for _, g := range gets {
				veSetClock(tStart + g.dt)
				rr, crashed, bad := httpserver.VerifServe(s.http, g.method, g.raw)
				switch {
				case bad:
					obs = append(obs, "BADURL")
				case crashed:
					obs = append(obs, "CRASH")
				default:
					obs = append(obs, veProject(rr))
				}
			}
		}
		veSetClock(tEnd)
		s.dump(clusters, topics, groups)
		return s.dump(clusters, topics, groups), obs
	}
	dA, _ := run(false)
	dB, obs := run(true)
	verdict := "same"
	keys := make([]string, 0, len(dA))
	for k := range dA {
		keys = append(keys, k)
	}
	sort.Strings(keys)
	h := sha1.New()
	for _, k := range keys {
		h.Write([]byte(k + "=" + dA[k] + "\n"))
		if verdict == "same" && dA[k] != dB[k] {
			verdict = "DIFF:" + vhHex(k) + ":" + vhHex(dA[k]) + ":" + vhHex(dB[k])
		}
	}
	if len(dA) != len(dB) {
		verdict = "DIFF:size"
	}
	live := 0
	for k, v := range dA {
		if strings.HasPrefix(k, "consumer:") && v != "nil" {
			live++
		}
	}
	return fmt.Sprintf("E2E %s n=%d live=%d dump=%s K %s", verdict, len(gets), live, hex.EncodeToString(h.Sum(nil)[:6]), strings.Join(obs, " "))
}
