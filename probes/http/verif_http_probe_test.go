//go:build verif

package httpserver

// Correspondence probe for the Coq models Burrow.Http (C16) and Burrow.ConfigRead (C18).
// Reads generated cases, drives the REAL router (coordinator.router.ServeHTTP, as the package tests do) with a
// scripted storage/evaluator responder goroutine and a viper configuration built from the case line, and prints
// the projected observables, one line per case.

import (
	"bufio"
	"bytes"
	"crypto/sha256"
	"encoding/hex"
	"encoding/json"
	"fmt"
	"math"
	"net/http"
	"net/http/httptest"
	"net/url"
	"os"
	"reflect"
	"runtime"
	"sort"
	"strconv"
	"strings"
	"sync"
	"testing"

	"github.com/spf13/viper"
	"go.uber.org/zap"

	"github.com/linkedin/Burrow/core/protocol"
)

type vhToks struct {
	f []string
	i int
}

func (t *vhToks) next() string { s := t.f[t.i]; t.i++; return s }
func (t *vhToks) int() int {
	v, err := strconv.Atoi(t.next())
	if err != nil {
		panic(err)
	}
	return v
}
func (t *vhToks) i64() int64 {
	v, err := strconv.ParseInt(t.next(), 10, 64)
	if err != nil {
		panic(err)
	}
	return v
}

func vhUnhex(h string) string {
	if h == "-" {
		return ""
	}
	b, err := hex.DecodeString(h)
	if err != nil {
		panic(err)
	}
	return string(b)
}

func vhHex(s string) string {
	if s == "" {
		return "-"
	}
	return hex.EncodeToString([]byte(s))
}

// vhTree reads a configuration tree; password leaves ("L p <idx>") are filled by tok(idx).
func vhTree(t *vhToks, tok func(int) string) interface{} {
	switch t.next() {
	case "L":
		switch t.next() {
		case "s":
			return vhUnhex(t.next())
		case "n":
			return t.i64()
		case "b":
			return t.int() == 1
		case "l":
			n := t.int()
			l := make([]string, n)
			for i := range l {
				l[i] = vhUnhex(t.next())
			}
			return l
		case "p":
			return tok(t.int())
		}
		panic("leaf kind")
	case "N":
		n := t.int()
		m := make(map[string]interface{}, n)
		for i := 0; i < n; i++ {
			k := vhUnhex(t.next())
			m[k] = vhTree(t, tok)
		}
		return m
	}
	panic("tree token")
}

type vhGroup struct {
	status int
	finite bool
}
type vhCluster struct {
	name   string
	topics map[string][]int64
	tnames []string
	groups map[string]vhGroup
	gnames []string
}

func vhWorld(t *vhToks) []*vhCluster {
	n := t.int()
	w := make([]*vhCluster, n)
	for i := range w {
		c := &vhCluster{name: vhUnhex(t.next()), topics: map[string][]int64{}, groups: map[string]vhGroup{}}
		nt := t.int()
		for j := 0; j < nt; j++ {
			tn := vhUnhex(t.next())
			no := t.int()
			offs := make([]int64, no)
			for k := range offs {
				offs[k] = t.i64()
			}
			if _, dup := c.topics[tn]; !dup {
				c.topics[tn] = offs
			}
			c.tnames = append(c.tnames, tn)
		}
		ng := t.int()
		for j := 0; j < ng; j++ {
			gn := vhUnhex(t.next())
			st := t.int()
			fin := t.int() == 1
			if _, dup := c.groups[gn]; !dup {
				c.groups[gn] = vhGroup{st, fin}
			}
			c.gnames = append(c.gnames, gn)
		}
		w[i] = c
	}
	return w
}

func vhFind(w []*vhCluster, name string) *vhCluster {
	for _, c := range w {
		if c.name == name {
			return c
		}
	}
	return nil
}

type vhForeign struct{ X int }

// vhResponder answers App.StorageChannel / App.EvaluatorChannel from the world, like the scripted backend of the
// model (Http.world_backend), and logs every request it sees.
type vhResponder struct {
	mu   sync.Mutex
	log  []string
	done chan struct{}
	wg   sync.WaitGroup
}

func vhStartResponder(app *protocol.ApplicationContext, w []*vhCluster, override int) *vhResponder {
	r := &vhResponder{done: make(chan struct{})}
	r.wg.Add(1)
	go func() {
		defer r.wg.Done()
		for {
			select {
			case <-r.done:
				return
			case q := <-app.StorageChannel:
				r.mu.Lock()
				r.log = append(r.log, fmt.Sprintf("S:%d:%s:%s:%s", int(q.RequestType), vhHex(q.Cluster), vhHex(q.Group), vhHex(q.Topic)))
				r.mu.Unlock()
				if q.Reply == nil {
					continue
				}
				var base interface{}
				switch q.RequestType {
				case protocol.StorageFetchClusters:
					l := make([]string, len(w))
					for i, c := range w {
						l[i] = c.name
					}
					base = l
				default:
					if c := vhFind(w, q.Cluster); c != nil {
						switch q.RequestType {
						case protocol.StorageFetchTopics:
							base = append([]string{}, c.tnames...)
						case protocol.StorageFetchConsumers, protocol.StorageFetchConsumersForTopic:
							base = append([]string{}, c.gnames...)
						case protocol.StorageFetchTopic:
							if o, ok := c.topics[q.Topic]; ok {
								base = o
							}
						case protocol.StorageFetchConsumer:
							if _, ok := c.groups[q.Group]; ok {
								base = protocol.ConsumerTopics{"t": protocol.ConsumerPartitions{&protocol.ConsumerPartition{Owner: "o"}, nil}}
							}
						}
					}
				}
				switch {
				case override == 1 && q.RequestType == protocol.StorageFetchClusters:
					base = nil
				case override == 2 && base != nil:
					base = vhForeign{1}
				}
				if base != nil {
					q.Reply <- base
				}
				close(q.Reply)
			case e := <-app.EvaluatorChannel:
				all := 0
				if e.ShowAll {
					all = 1
				}
				r.mu.Lock()
				r.log = append(r.log, fmt.Sprintf("E:%s:%s:%d", vhHex(e.Cluster), vhHex(e.Group), all))
				r.mu.Unlock()
				if override == 3 {
					close(e.Reply)
					continue
				}
				st := &protocol.ConsumerGroupStatus{Cluster: e.Cluster, Group: e.Group, Status: protocol.StatusNotFound,
					Partitions: make([]*protocol.PartitionStatus, 0)}
				if c := vhFind(w, e.Cluster); c != nil {
					if g, ok := c.groups[e.Group]; ok {
						st.Status = protocol.StatusConstant(g.status)
						st.Complete = 1.0
						st.TotalPartitions = 1
						if !g.finite {
							st.Complete = float32(math.NaN())
						}
					}
				}
				if override == 4 {
					st.Complete = float32(math.NaN())
				}
				e.Reply <- st
				close(e.Reply)
			}
		}
	}()
	return r
}

func (r *vhResponder) stop() []string {
	close(r.done)
	r.wg.Wait()
	return r.log
}

func vhCoordinator(cfg interface{}, ready bool) *Coordinator {
	logLevel := zap.NewAtomicLevelAt(zap.InfoLevel)
	coordinator := &Coordinator{
		Log: zap.NewNop(),
		App: &protocol.ApplicationContext{
			Logger:           zap.NewNop(),
			LogLevel:         &logLevel,
			StorageChannel:   make(chan *protocol.StorageRequest),
			EvaluatorChannel: make(chan *protocol.EvaluatorRequest),
			AppReady:         ready,
		},
	}
	viper.Reset()
	js, err := json.Marshal(cfg)
	if err != nil {
		panic(err)
	}
	viper.SetConfigType("json")
	if err := viper.ReadConfig(bytes.NewReader(js)); err != nil {
		panic(err)
	}
	coordinator.Configure()
	return coordinator
}

func vhServe(coordinator *Coordinator, method, rawpath string, body string) (rr *httptest.ResponseRecorder, crashed bool, badurl bool) {
	var rd *strings.Reader
	if body != "" {
		rd = strings.NewReader(body)
	}
	var req *http.Request
	var err error
	if rd != nil {
		req, err = http.NewRequest(method, rawpath, rd)
	} else {
		req, err = http.NewRequest(method, rawpath, http.NoBody)
	}
	if err != nil {
		return nil, false, true
	}
	// a server parses the request target with url.ParseRequestURI (a target starting with "//" is a path, not an authority)
	if u, perr := url.ParseRequestURI(rawpath); perr == nil {
		req.URL = u
	} else {
		return nil, false, true
	}
	rr = httptest.NewRecorder()
	func() {
		defer func() {
			if r := recover(); r != nil {
				crashed = true
			}
		}()
		coordinator.router.ServeHTTP(rr, req)
	}()
	return rr, crashed, false
}

var vhBodies = map[string]string{"0": "{not json", "1": `{"level":"bogus"}`, "2": `{"level":"info"}`, "-": ""}

func vhReq(t *vhToks) string {
	method := t.next()
	rawpath := vhUnhex(t.next())
	decoded := vhUnhex(t.next())
	bodyKind := t.next()
	ready := t.int() == 1
	override := t.int()
	if t.next() != "C" {
		panic("expected C")
	}
	cfg := vhTree(t, func(i int) string { return "PWTOKEN" + strconv.Itoa(i) })
	if t.next() != "W" {
		panic("expected W")
	}
	w := vhWorld(t)

	coordinator := vhCoordinator(cfg, ready)
	// which registration does httprouter select, with which parameters?  (compared with the model's dispatch)
	handle, ps, _ := coordinator.router.Lookup(method, decoded)
	resp := vhStartResponder(coordinator.App, w, override)
	rr, crashed, badurl := vhServe(coordinator, method, rawpath, vhBodies[bodyKind])
	reqs := resp.stop()
	if badurl {
		return "BADURL"
	}
	if rr != nil && !crashed {
		// sanity: the request the router saw carried the decoded path of the case line
		_ = decoded
	}
	// the headers a client receives are those present when the status line was written (a header set after
	// WriteHeader is lost): rr.Result() holds that snapshot, rr.Header() is the handler's live map
	var sent http.Header
	if rr != nil {
		sent = rr.Result().Header
	}
	if handle == nil {
		allow := "-"
		if a := sent.Get("Allow"); a != "" {
			allow = "allow"
		}
		loc := "-"
		if sent.Get("Location") != "" {
			loc = "loc"
		}
		return fmt.Sprintf("U %d %s %s %d", rr.Code, allow, loc, len(reqs))
	}
	var sb strings.Builder
	if crashed {
		sb.WriteString("CRASH")
	} else {
		ct := sent.Get("Content-Type")
		ctk := "other"
		switch {
		case ct == "application/json" || strings.HasPrefix(ct, "application/json;"):
			ctk = "json"
		case ct == "":
			ctk = "none"
		}
		body := rr.Body.Bytes()
		bk, errf, msg, rq, status := "plain", "-", 0, 0, "-"
		var obj map[string]json.RawMessage
		if len(body) == 0 {
			bk = "empty"
		} else if json.Unmarshal(body, &obj) == nil && obj != nil {
			bk = "json"
			if e, ok := obj["error"]; ok {
				switch string(e) {
				case "true":
					errf = "t"
				case "false":
					errf = "f"
				default:
					errf = "?"
				}
			}
			if m, ok := obj["message"]; ok {
				var s string
				if json.Unmarshal(m, &s) == nil && s != "" {
					msg = 1
				}
			}
			if r, ok := obj["request"]; ok {
				var ri map[string]json.RawMessage
				if json.Unmarshal(r, &ri) == nil {
					_, a := ri["url"]
					_, b := ri["host"]
					if a && b {
						rq = 1
					}
				}
			}
			if s, ok := obj["status"]; ok {
				var so map[string]json.RawMessage
				if json.Unmarshal(s, &so) == nil {
					var name string
					if json.Unmarshal(so["status"], &name) == nil {
						status = name
					}
				}
			}
		}
		fmt.Fprintf(&sb, "H %d %s %s %s %d %d %s", rr.Code, ctk, bk, errf, msg, rq, status)
	}
	fmt.Fprintf(&sb, " R %d", len(reqs))
	for _, r := range reqs {
		sb.WriteString(" " + r)
	}
	fmt.Fprintf(&sb, " P %d", len(ps))
	for _, p := range ps {
		sb.WriteString(" " + vhHex(p.Key) + "=" + vhHex(p.Value))
	}
	return sb.String()
}

func vhToken(seed string, i int) string {
	h := sha256.Sum256([]byte(seed + ":" + strconv.Itoa(i)))
	return "pw" + hex.EncodeToString(h[:12])
}

// vhLeak: the same configuration with two different sets of password tokens; every listed request is served under
// both; the bodies must be byte-identical and contain no token.
func vhLeak(t *vhToks) string {
	seedA, seedB := t.next(), t.next()
	if t.next() != "C" {
		panic("expected C")
	}
	start := t.i
	usedA := map[int]string{}
	cfgA := vhTree(t, func(i int) string { usedA[i] = vhToken(seedA, i); return usedA[i] })
	end := t.i
	t.i = start
	usedB := map[int]string{}
	cfgB := vhTree(t, func(i int) string { usedB[i] = vhToken(seedB, i); return usedB[i] })
	t.i = end
	if t.next() != "Q" {
		panic("expected Q")
	}
	n := t.int()
	type rq struct{ method, raw string }
	reqs := make([]rq, n)
	for i := range reqs {
		reqs[i] = rq{t.next(), vhUnhex(t.next())}
	}
	run := func(cfg interface{}) ([]string, []int) {
		coordinator := vhCoordinator(cfg, true)
		resp := vhStartResponder(coordinator.App, nil, 0)
		bodies := make([]string, n)
		codes := make([]int, n)
		for i, r := range reqs {
			rr, crashed, bad := vhServe(coordinator, r.method, r.raw, "")
			switch {
			case bad:
				bodies[i], codes[i] = "BADURL", -1
			case crashed:
				bodies[i], codes[i] = "CRASH", -2
			default:
				hs := make([]string, 0)
				for k, v := range rr.Header() {
					hs = append(hs, k+"="+strings.Join(v, ","))
				}
				sort.Strings(hs)
				bodies[i], codes[i] = strings.Join(hs, ";")+"\n"+rr.Body.String(), rr.Code
			}
		}
		resp.stop()
		return bodies, codes
	}
	bodiesA, codesA := run(cfgA)
	bodiesB, codesB := run(cfgB)
	bytesTotal := 0
	for i := range reqs {
		bytesTotal += len(bodiesA[i])
		for _, tk := range usedA {
			if strings.Contains(bodiesA[i], tk) {
				return fmt.Sprintf("LEAK token %d %s %s", i, reqs[i].method, vhHex(reqs[i].raw))
			}
		}
		for _, tk := range usedB {
			if strings.Contains(bodiesB[i], tk) {
				return fmt.Sprintf("LEAK token %d %s %s", i, reqs[i].method, vhHex(reqs[i].raw))
			}
		}
		if bodiesA[i] != bodiesB[i] || codesA[i] != codesB[i] {
			return fmt.Sprintf("LEAK differ %d %s %s", i, reqs[i].method, vhHex(reqs[i].raw))
		}
	}
	ok200 := 0
	for _, c := range codesA {
		if c == 200 {
			ok200++
		}
	}
	return fmt.Sprintf("LEAK ok %d tokens=%d ok200=%d bytes=%d", n, len(usedA), ok200, bytesTotal)
}

// vhRoutes: which of the given (method, pattern) registrations does the REAL router hold, and with which handler?
// httprouter has no public listing; Lookup with the pattern itself as the path selects the registration, and the
// parameters it extracts (key = name, value = ":name") must be exactly the pattern's.  Used by checks/c16.py only when
// the translator cannot resolve a registration statically.
//   routes n (METHOD PATTERNHEX)*   =>   ROUTES (METHOD PATTERNHEX HANDLER|-)*
func vhRoutes(t *vhToks) string {
	n := t.int()
	coordinator := vhCoordinator(map[string]interface{}{}, true)
	var sb strings.Builder
	sb.WriteString("ROUTES")
	for i := 0; i < n; i++ {
		method, pat := t.next(), vhUnhex(t.next())
		name := "-"
		if h, ps, _ := coordinator.router.Lookup(method, pat); h != nil {
			want := 0
			ok := true
			for _, seg := range strings.Split(pat, "/") {
				if strings.HasPrefix(seg, ":") {
					if want >= len(ps) || ps[want].Key != seg[1:] || ps[want].Value != seg {
						ok = false
						break
					}
					want++
				}
			}
			if ok && want == len(ps) {
				full := runtime.FuncForPC(reflect.ValueOf(h).Pointer()).Name()
				full = strings.TrimSuffix(full, "-fm")
				name = full[strings.LastIndex(full, ".")+1:]
			}
		}
		fmt.Fprintf(&sb, " %s %s %s", method, vhHex(pat), name)
	}
	return sb.String()
}

// Hooks for the storage-backed probe (verif_http_e2e_probe_test.go).  It has to live in the external test package
// httpserver_test: the storage package imports httpserver, so an in-package test file cannot import storage.
var VerifE2E func(fields []string) string
var VerifFile func(fields []string) string

func VerifServe(hc *Coordinator, method, rawpath string) (*httptest.ResponseRecorder, bool, bool) {
	return vhServe(hc, method, rawpath, "")
}

func vhRunLine(line string) (res string) {
	defer func() {
		if r := recover(); r != nil {
			res = fmt.Sprintf("PROBE-ERROR %v", r)
		}
	}()
	t := &vhToks{f: strings.Fields(line)}
	switch t.next() {
	case "req", "req0":
		return vhReq(t)
	case "leak":
		return vhLeak(t)
	case "routes":
		return vhRoutes(t)
	case "filecfg":
		if VerifFile == nil {
			return "PROBE-ERROR filecfg hook not registered"
		}
		return VerifFile(t.f[t.i:])
	case "e2e":
		if VerifE2E == nil {
			return "PROBE-ERROR e2e hook not registered"
		}
		return VerifE2E(t.f[t.i:])
	}
	return "PROBE-ERROR unknown case kind"
}

func TestVerifProbeHttp(t *testing.T) {
	in, err := os.Open(os.Getenv("VERIF_CASES"))
	if err != nil {
		t.Skip("VERIF_CASES not set")
	}
	defer in.Close()
	out, err := os.Create(os.Getenv("VERIF_OUT"))
	if err != nil {
		t.Fatal(err)
	}
	defer out.Close()
	w := bufio.NewWriter(out)
	defer w.Flush()
	sc := bufio.NewScanner(in)
	sc.Buffer(make([]byte, 1<<20), 1<<26)
	for sc.Scan() {
		line := sc.Text()
		if strings.TrimSpace(line) == "" {
			continue
		}
		fmt.Fprintln(w, vhRunLine(line))
	}
}
