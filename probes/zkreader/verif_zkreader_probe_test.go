//go:build verif

package consumer

// Correspondence probe for the Coq model Burrow.ZkReader (C10, Zookeeper reader half).
// A real KafkaZkClient (fixtureKafkaZkModule + Configure + Start) reads a scripted /consumers tree from a fake
// protocol.ZookeeperClient with working one-shot watches; allow/deny patterns are compiled and evaluated by the module
// itself.  After the initial walk and after every scripted mutation the probe waits for the module to go quiet and
// records the storage requests it sent.  Output:
//   <phase> | <phase> ... || K <groupList> || A <gid=a_set a_match d_set d_match> ...
// a phase is the sorted list of O:g:t:p:offset:ts:order / W:g:t:p:owner requests ("-" if none).

import (
	"bufio"
	"fmt"
	"os"
	"sort"
	"strconv"
	"strings"
	"sync"
	"sync/atomic"
	"testing"
	"time"

	zk "github.com/linkedin/go-zk"
	"github.com/spf13/viper"
	"go.uber.org/zap"

	"github.com/linkedin/Burrow/core/protocol"
)

type vzPart struct {
	exists       bool
	data         string
	mtime, mzxid int64
	owner        int
}
type vzTopic struct {
	id    int
	parts []*vzPart
}
type vzGroup struct {
	id         int
	name       string
	hasOffsets bool
	topics     []*vzTopic
	expect     string // a_set a_match d_set d_match as given to the model
}

type vzFake struct {
	mu       sync.Mutex
	groups   []*vzGroup
	watches  map[string][]chan zk.Event // path -> armed one-shot watches (child, data and exists watches keyed apart)
	activity atomic.Int64
	events   chan zk.Event
	closed   bool
}

func (z *vzFake) group(name string) *vzGroup {
	for _, g := range z.groups {
		if g.name == name {
			return g
		}
	}
	return nil
}

func (g *vzGroup) topic(name string) *vzTopic {
	for _, t := range g.topics {
		if "t"+strconv.Itoa(t.id) == name {
			return t
		}
	}
	return nil
}

func (z *vzFake) arm(key string) <-chan zk.Event {
	ch := make(chan zk.Event, 1)
	z.watches[key] = append(z.watches[key], ch)
	return ch
}

// fire must be called with mu held
func (z *vzFake) fire(key string, ev zk.Event) {
	for _, ch := range z.watches[key] {
		ch <- ev
	}
	delete(z.watches, key)
}

func (z *vzFake) Close() {
	z.mu.Lock()
	defer z.mu.Unlock()
	if z.closed {
		return
	}
	z.closed = true
	for k := range z.watches {
		z.fire(k, zk.Event{Type: zk.EventNotWatching})
	}
	close(z.events)
}

func (z *vzFake) ChildrenW(path string) ([]string, *zk.Stat, <-chan zk.Event, error) {
	z.activity.Add(1)
	z.mu.Lock()
	defer z.mu.Unlock()
	parts := strings.Split(strings.TrimPrefix(path, "/consumers"), "/")
	// "" | "", g, "offsets" | "", g, "offsets", t
	switch {
	case path == "/consumers":
		var names []string
		for _, g := range z.groups {
			names = append(names, g.name)
		}
		return names, &zk.Stat{}, z.arm("c:" + path), nil
	case len(parts) == 3 && parts[2] == "offsets":
		g := z.group(parts[1])
		if g == nil || !g.hasOffsets {
			return nil, nil, nil, zk.ErrNoNode
		}
		var names []string
		for _, t := range g.topics {
			names = append(names, "t"+strconv.Itoa(t.id))
		}
		return names, &zk.Stat{}, z.arm("c:" + path), nil
	case len(parts) == 4 && parts[2] == "offsets":
		g := z.group(parts[1])
		if g == nil || !g.hasOffsets || g.topic(parts[3]) == nil {
			return nil, nil, nil, zk.ErrNoNode
		}
		var names []string
		for i, p := range g.topic(parts[3]).parts {
			if p.exists {
				names = append(names, strconv.Itoa(i))
			} else {
				names = append(names, "x"+strconv.Itoa(i))
			}
		}
		return names, &zk.Stat{}, z.arm("c:" + path), nil
	}
	return nil, nil, nil, zk.ErrNoNode
}

func (z *vzFake) GetW(path string) ([]byte, *zk.Stat, <-chan zk.Event, error) {
	z.activity.Add(1)
	z.mu.Lock()
	defer z.mu.Unlock()
	parts := strings.Split(strings.TrimPrefix(path, "/consumers/"), "/")
	if len(parts) != 4 {
		return nil, nil, nil, zk.ErrNoNode
	}
	g := z.group(parts[0])
	if g == nil {
		return nil, nil, nil, zk.ErrNoNode
	}
	t := g.topic(parts[2])
	idx, err := strconv.Atoi(parts[3])
	if t == nil || err != nil || idx < 0 || idx >= len(t.parts) || !t.parts[idx].exists {
		return nil, nil, nil, zk.ErrNoNode
	}
	p := t.parts[idx]
	switch parts[1] {
	case "offsets":
		if !g.hasOffsets {
			return nil, nil, nil, zk.ErrNoNode
		}
		return []byte(p.data), &zk.Stat{Mtime: p.mtime, Mzxid: p.mzxid}, z.arm("d:" + path), nil
	case "owners":
		if p.owner == 0 {
			return nil, nil, nil, zk.ErrNoNode
		}
		return []byte("o" + strconv.Itoa(p.owner)), &zk.Stat{}, z.arm("d:" + path), nil
	}
	return nil, nil, nil, zk.ErrNoNode
}

func (z *vzFake) Exists(path string) (bool, *zk.Stat, error) { return false, nil, zk.ErrNoNode }

func (z *vzFake) ExistsW(path string) (bool, *zk.Stat, <-chan zk.Event, error) {
	z.activity.Add(1)
	z.mu.Lock()
	defer z.mu.Unlock()
	parts := strings.Split(strings.TrimPrefix(path, "/consumers/"), "/")
	if len(parts) == 2 && parts[1] == "offsets" {
		if g := z.group(parts[0]); g != nil && g.hasOffsets {
			return true, &zk.Stat{}, z.arm("d:" + path), nil
		}
	}
	return false, nil, z.arm("e:" + path), nil
}

func (z *vzFake) Create(string, []byte, int32, []zk.ACL) (string, error) { return "", zk.ErrNoNode }
func (z *vzFake) NewLock(path string) protocol.ZookeeperLock                { return nil }

// ---- case parsing ------------------------------------------------------------------------------------------------

type vzToks struct {
	f []string
	i int
}

func (t *vzToks) next() string { s := t.f[t.i]; t.i++; return s }
func (t *vzToks) int() int {
	v, err := strconv.Atoi(t.next())
	if err != nil {
		panic(err)
	}
	return v
}
func (t *vzToks) i64() int64 {
	v, err := strconv.ParseInt(t.next(), 10, 64)
	if err != nil {
		panic(err)
	}
	return v
}

func vzReadPart(t *vzToks) *vzPart {
	p := &vzPart{}
	p.exists = t.int() == 1
	p.data = t.next()
	if p.data == "~" {
		p.data = ""
	}
	t.next() // parsed flag (model side)
	t.next() // parsed value (model side)
	p.mtime, p.mzxid = t.i64(), t.i64()
	p.owner = t.int()
	return p
}

func vzReadTopic(t *vzToks) *vzTopic {
	tp := &vzTopic{id: t.int()}
	n := t.int()
	for i := 0; i < n; i++ {
		tp.parts = append(tp.parts, vzReadPart(t))
	}
	return tp
}

func vzReadGroup(t *vzToks) *vzGroup {
	g := &vzGroup{id: t.int(), name: t.next()}
	g.expect = t.next() + " " + t.next() + " " + t.next() + " " + t.next()
	g.hasOffsets = t.int() == 1
	n := t.int()
	for i := 0; i < n; i++ {
		g.topics = append(g.topics, vzReadTopic(t))
	}
	return g
}

type vzCase struct {
	module *KafkaZkClient
	fake   *vzFake
	toks   *vzToks
	mu     sync.Mutex
	reqs   []string
	bad    bool
}

func vzGid(name string, fake *vzFake) int {
	fake.mu.Lock()
	defer fake.mu.Unlock()
	if g := fake.group(name); g != nil {
		return g.id
	}
	return -1
}

// vzNewCase must be called serially (viper).
func vzNewCase(line string) *vzCase {
	t := &vzToks{f: strings.Fields(line)}
	t.next() // "zk"
	allow, deny := t.next(), t.next()
	module := fixtureKafkaZkModule()
	if allow != "-" {
		viper.Set("consumer.test.group-allowlist", allow)
	}
	if deny != "-" {
		viper.Set("consumer.test.group-denylist", deny)
	}
	module.Log = zap.NewNop()
	module.Configure("test", "consumer.test")
	fake := &vzFake{watches: make(map[string][]chan zk.Event), events: make(chan zk.Event)}
	ng := t.int()
	for i := 0; i < ng; i++ {
		fake.groups = append(fake.groups, vzReadGroup(t))
	}
	module.connectFunc = func([]string, time.Duration, *zap.Logger) (protocol.ZookeeperClient, <-chan zk.Event, error) {
		return fake, fake.events, nil
	}
	return &vzCase{module: module, fake: fake, toks: t}
}

func (c *vzCase) quiet() string {
	last := int64(-1)
	stable := 0
	need := 4
	if v, err := strconv.Atoi(os.Getenv("VERIF_QUIET_MULT")); err == nil && v > 0 {
		need *= v
	}
	for k := 0; k < 800 && stable < need; k++ {
		time.Sleep(10 * time.Millisecond)
		c.mu.Lock()
		n := c.fake.activity.Load() + int64(len(c.reqs))
		c.mu.Unlock()
		if n == last {
			stable++
		} else {
			stable = 0
			last = n
		}
	}
	c.mu.Lock()
	defer c.mu.Unlock()
	r := c.reqs
	c.reqs = nil
	if len(r) == 0 {
		return "-"
	}
	sort.Strings(r)
	return strings.Join(r, ",")
}

func (c *vzCase) run() string {
	done := make(chan struct{})
	go func() {
		for {
			select {
			case r := <-c.module.App.StorageChannel:
				c.fake.activity.Add(1)
				gid := vzGid(r.Group, c.fake)
				s := ""
				switch r.RequestType {
				case protocol.StorageSetConsumerOffset:
					s = fmt.Sprintf("O:%d:%s:%d:%d:%d:%d", gid, strings.TrimPrefix(r.Topic, "t"), r.Partition, r.Offset, r.Timestamp, r.Order)
				case protocol.StorageSetConsumerOwner:
					ow := "0"
					if r.Owner != "" {
						ow = strings.TrimPrefix(r.Owner, "o")
					}
					s = fmt.Sprintf("W:%d:%s:%d:%s", gid, strings.TrimPrefix(r.Topic, "t"), r.Partition, ow)
				default:
					s = fmt.Sprintf("?:%d", int(r.RequestType))
				}
				c.mu.Lock()
				if r.Cluster != "test" {
					c.bad = true
				}
				c.reqs = append(c.reqs, s)
				c.mu.Unlock()
			case <-done:
				return
			}
		}
	}()
	defer close(done)

	if err := c.module.Start(); err != nil {
		return "STARTERR"
	}
	phases := []string{c.quiet()}
	t := c.toks
	nm := t.int()
	for m := 0; m < nm; m++ {
		f := c.fake
		switch t.next() {
		case "setoff":
			gid, tid, p := t.int(), t.int(), t.int()
			np := vzReadPart(&vzToks{f: append([]string{"1"}, t.f[t.i:t.i+6]...)})
			t.i += 6
			f.mu.Lock()
			for _, g := range f.groups {
				if g.id == gid {
					if tp := g.topic("t" + strconv.Itoa(tid)); tp != nil && p < len(tp.parts) {
						np.exists = tp.parts[p].exists
						tp.parts[p] = np
						f.fire("d:/consumers/"+g.name+"/offsets/t"+strconv.Itoa(tid)+"/"+strconv.Itoa(p), zk.Event{Type: zk.EventNodeDataChanged})
					}
				}
			}
			f.mu.Unlock()
		case "addgroup":
			g := vzReadGroup(t)
			f.mu.Lock()
			f.groups = append(f.groups, g)
			f.fire("c:/consumers", zk.Event{Type: zk.EventNodeChildrenChanged})
			f.mu.Unlock()
		case "addtopic":
			gid := t.int()
			tp := vzReadTopic(t)
			f.mu.Lock()
			for _, g := range f.groups {
				if g.id == gid {
					g.topics = append(g.topics, tp)
					f.fire("c:/consumers/"+g.name+"/offsets", zk.Event{Type: zk.EventNodeChildrenChanged})
				}
			}
			f.mu.Unlock()
		case "addpart":
			gid, tid := t.int(), t.int()
			p := vzReadPart(t)
			f.mu.Lock()
			for _, g := range f.groups {
				if g.id == gid {
					if tp := g.topic("t" + strconv.Itoa(tid)); tp != nil {
						tp.parts = append(tp.parts, p)
						f.fire("c:/consumers/"+g.name+"/offsets/t"+strconv.Itoa(tid), zk.Event{Type: zk.EventNodeChildrenChanged})
					}
				}
			}
			f.mu.Unlock()
		case "mkoffsets":
			gid := t.int()
			f.mu.Lock()
			for _, g := range f.groups {
				if g.id == gid && !g.hasOffsets {
					g.hasOffsets = true
					f.fire("e:/consumers/"+g.name+"/offsets", zk.Event{Type: zk.EventNodeCreated})
				}
			}
			f.mu.Unlock()
		case "expire":
			f.mu.Lock()
			for k := range f.watches {
				f.fire(k, zk.Event{Type: zk.EventNotWatching, State: zk.StateDisconnected})
			}
			f.mu.Unlock()
			f.events <- zk.Event{Type: zk.EventSession, State: zk.StateExpired}
			time.Sleep(15 * time.Millisecond) // let the invalidated watchers exit before the session is back
			f.events <- zk.Event{Type: zk.EventSession, State: zk.StateConnected}
		default:
			return "BADMUT"
		}
		phases = append(phases, c.quiet())
	}

	// groupList and the list verdicts as the module computes them (real regexp)
	var kn []string
	c.module.groupLock.RLock()
	for name, tl := range c.module.groupList {
		var ts []string
		for tn, pc := range tl.topics {
			ts = append(ts, fmt.Sprintf("%s=%d", strings.TrimPrefix(tn, "t"), pc.count))
		}
		sort.Slice(ts, func(a, b int) bool {
			x, _ := strconv.Atoi(strings.SplitN(ts[a], "=", 2)[0])
			y, _ := strconv.Atoi(strings.SplitN(ts[b], "=", 2)[0])
			return x < y
		})
		kn = append(kn, fmt.Sprintf("%d[%s]", vzGid(name, c.fake), strings.Join(ts, ";")))
	}
	c.module.groupLock.RUnlock()
	sort.Slice(kn, func(a, b int) bool {
		x, _ := strconv.Atoi(strings.SplitN(kn[a], "[", 2)[0])
		y, _ := strconv.Atoi(strings.SplitN(kn[b], "[", 2)[0])
		return x < y
	})
	b2s := func(b bool) string {
		if b {
			return "1"
		}
		return "0"
	}
	var ac []string
	for _, g := range c.fake.groups {
		aSet, dSet := c.module.groupAllowlist != nil, c.module.groupDenylist != nil
		aM := aSet && c.module.groupAllowlist.MatchString(g.name)
		dM := dSet && c.module.groupDenylist.MatchString(g.name)
		ac = append(ac, fmt.Sprintf("%d=%s %s %s %s", g.id, b2s(aSet), b2s(aM), b2s(dSet), b2s(dM)))
	}
	stopped := make(chan struct{})
	go func() { c.module.Stop(); close(stopped) }()
	select {
	case <-stopped:
	case <-time.After(3 * time.Second):
		return "STOPHANG"
	}
	res := strings.Join(phases, " | ") + " || K " + strings.Join(kn, " ") + " || A " + strings.Join(ac, " ")
	if c.bad {
		res += " BADCLUSTER"
	}
	return res
}

func TestVerifProbeZkreader(t *testing.T) {
	casesPath, outPath := os.Getenv("VERIF_CASES"), os.Getenv("VERIF_OUT")
	if casesPath == "" || outPath == "" {
		t.Skip("VERIF_CASES / VERIF_OUT not set")
	}
	in, err := os.Open(casesPath)
	if err != nil {
		t.Fatal(err)
	}
	defer in.Close()
	var lines []string
	sc := bufio.NewScanner(in)
	sc.Buffer(make([]byte, 1<<20), 1<<26)
	for sc.Scan() {
		if l := strings.TrimSpace(sc.Text()); l != "" {
			lines = append(lines, l)
		}
	}
	cases := make([]*vzCase, len(lines))
	for i, l := range lines {
		cases[i] = vzNewCase(l) // serial: Configure reads viper's global state
	}
	res := make([]string, len(lines))
	sem := make(chan struct{}, 24)
	var wg sync.WaitGroup
	for i := range cases {
		wg.Add(1)
		sem <- struct{}{}
		go func(i int) {
			defer wg.Done()
			defer func() { <-sem }()
			defer func() {
				if r := recover(); r != nil {
					res[i] = fmt.Sprintf("PANIC %v", r)
				}
			}()
			res[i] = cases[i].run()
		}(i)
	}
	wg.Wait()
	outf, err := os.Create(outPath)
	if err != nil {
		t.Fatal(err)
	}
	defer outf.Close()
	w := bufio.NewWriter(outf)
	defer w.Flush()
	for _, r := range res {
		fmt.Fprintln(w, r)
	}
}
