//go:build verif

package evaluator

// Correspondence probe for the Coq model Burrow.Eval (C03, C04).  Reads generated cases, runs the
// real evaluator on them and prints its projected observables, one line per case.

import (
	"bufio"
	"fmt"
	"math"
	"os"
	"strconv"
	"strings"
	"testing"

	"github.com/spf13/viper"
	"go.uber.org/zap"

	"github.com/linkedin/Burrow/core/protocol"
)

type vtoks struct {
	f []string
	i int
}

func (t *vtoks) next() string { s := t.f[t.i]; t.i++; return s }
func (t *vtoks) i64() int64 {
	v, err := strconv.ParseInt(t.next(), 10, 64)
	if err != nil {
		panic(err)
	}
	return v
}
func (t *vtoks) u64() uint64 {
	v, err := strconv.ParseUint(t.next(), 10, 64)
	if err != nil {
		panic(err)
	}
	return v
}
func (t *vtoks) int() int { return int(t.i64()) }

func vname(prefix string, id int64) string {
	if id == 0 {
		return ""
	}
	return prefix + strconv.FormatInt(id, 10)
}
func vid(prefix, s string) string {
	if s == "" {
		return "0"
	}
	return strings.TrimPrefix(s, prefix)
}

func vreadOffsets(t *vtoks) []*protocol.ConsumerOffset {
	n := t.int()
	offs := make([]*protocol.ConsumerOffset, n)
	for i := 0; i < n; i++ {
		present := t.int()
		off, order, ts := t.i64(), t.i64(), t.i64()
		haslag := t.int()
		lag := t.u64()
		if present == 1 {
			o := &protocol.ConsumerOffset{Offset: off, Order: order, Timestamp: ts}
			if haslag == 1 {
				o.Lag = &protocol.Lag{Value: lag}
			}
			offs[i] = o
		}
	}
	return offs
}

func vreadBrokers(t *vtoks) []int64 {
	n := t.int()
	b := make([]int64, n)
	for i := 0; i < n; i++ {
		b[i] = t.i64()
	}
	return b
}

func vfmtOff(o *protocol.ConsumerOffset) string {
	if o == nil {
		return "nil"
	}
	lag := "n"
	if o.Lag != nil {
		lag = strconv.FormatUint(o.Lag.Value, 10)
	}
	return fmt.Sprintf("(%d,%d,%d,%s)", o.Offset, o.Order, o.Timestamp, lag)
}

func vfmtPart(p *protocol.PartitionStatus) string {
	return fmt.Sprintf("%s %d %s %s %d %s %s %d %d", vid("t", p.Topic), p.Partition, vid("o", p.Owner), vid("c", p.ClientID),
		int(p.Status), vfmtOff(p.Start), vfmtOff(p.End), p.CurrentLag, math.Float32bits(p.Complete))
}

func vfmtGroup(g *protocol.ConsumerGroupStatus) string {
	var sb strings.Builder
	fmt.Fprintf(&sb, "G %d %d %d %d M ", int(g.Status), math.Float32bits(g.Complete), g.TotalPartitions, g.TotalLag)
	if g.Maxlag == nil {
		sb.WriteString("-")
	} else {
		sb.WriteString(vfmtPart(g.Maxlag))
	}
	fmt.Fprintf(&sb, " P %d", len(g.Partitions))
	for _, p := range g.Partitions {
		sb.WriteString(" " + vfmtPart(p))
	}
	return sb.String()
}

func vcalc(t *vtoks) (res string) {
	defer func() {
		if r := recover(); r != nil {
			res = "CRASH"
		}
	}()
	curlag, now, allowed := t.u64(), t.i64(), t.u64()
	brokers := vreadBrokers(t)
	offs := vreadOffsets(t)
	st := calculatePartitionStatus(offs, brokers, curlag, now, allowed)
	return "S " + strconv.Itoa(int(st))
}

func TestVerifProbeEval(t *testing.T) {
	casesPath, outPath := os.Getenv("VERIF_CASES"), os.Getenv("VERIF_OUT")
	if casesPath == "" || outPath == "" {
		t.Skip("VERIF_CASES / VERIF_OUT not set")
	}
	in, err := os.Open(casesPath)
	if err != nil {
		t.Fatal(err)
	}
	defer in.Close()
	outf, err := os.Create(outPath)
	if err != nil {
		t.Fatal(err)
	}
	defer outf.Close()
	w := bufio.NewWriter(outf)
	defer w.Flush()

	sc := bufio.NewScanner(in)
	sc.Buffer(make([]byte, 1<<20), 1<<26)
	caseNo := 0
	for sc.Scan() {
		line := strings.TrimSpace(sc.Text())
		if line == "" {
			continue
		}
		caseNo++
		tk := &vtoks{f: strings.Fields(line)}
		switch tk.next() {
		case "calc":
			fmt.Fprintln(w, vcalc(tk))
		case "group":
			fmt.Fprintln(w, vgroup(tk, caseNo, false))
		case "groupd":
			fmt.Fprintln(w, vgroup(tk, caseNo, true))
		default:
			t.Fatalf("unknown case kind in %q", line)
		}
	}
}

// vgroup evaluates one generated group through the real module: request channel, cache, evaluateConsumerStatus,
// with the storage reply supplied by the probe.  Both views are requested from one cached evaluation, in both orders.
func vgroup(t *vtoks, caseNo int, decimal bool) (res string) {
	minimumBits := uint32(t.u64())
	// minimum-complete reaches the module the way a configuration file delivers it: as a float64 through viper and
	// Configure's float32(viper.GetFloat64(...)) conversion - never by assigning the field.  In a "groupd" case the
	// configured value is the DECIMAL text that follows (e.g. 0.7, whose float64 and float32 roundings differ).
	minimumCfg := float64(math.Float32frombits(minimumBits))
	if decimal {
		v, err := strconv.ParseFloat(t.next(), 64)
		if err != nil {
			panic(err)
		}
		minimumCfg = v
	}
	allowed, now := t.u64(), t.i64()
	ntopics := t.int()
	topics := make(protocol.ConsumerTopics)
	for i := 0; i < ntopics; i++ {
		topic := vname("t", t.i64())
		nparts := t.int()
		parts := make(protocol.ConsumerPartitions, nparts)
		for p := 0; p < nparts; p++ {
			owner, client := vname("o", t.i64()), vname("c", t.i64())
			curlag := t.u64()
			brokers := vreadBrokers(t)
			offs := vreadOffsets(t)
			parts[p] = &protocol.ConsumerPartition{Offsets: offs, BrokerOffsets: brokers, Owner: owner, ClientID: client, CurrentLag: curlag}
		}
		topics[topic] = parts
	}

	viper.Reset()
	viper.Set("evaluator.test.class-name", "caching")
	viper.Set("evaluator.test.expire-cache", 30)
	viper.Set("evaluator.test.allowed-lag", allowed)
	viper.Set("evaluator.test.minimum-complete", minimumCfg)
	module := &CachingEvaluator{Log: zap.NewNop()}
	module.App = &protocol.ApplicationContext{Logger: zap.NewNop(), StorageChannel: make(chan *protocol.StorageRequest)}
	module.Configure("test", "evaluator.test")
	VerifSetClock(now * 1000000000)
	defer VerifSetClock(0)
	module.Start()
	defer module.Stop()

	cluster := "k" + strconv.Itoa(caseNo)
	fetches := 0
	done := make(chan struct{})
	go func() {
		for {
			select {
			case r := <-module.App.StorageChannel:
				fetches++
				if r.RequestType == protocol.StorageFetchConsumer && r.Cluster == cluster && r.Group == "grp" {
					r.Reply <- topics
				}
				close(r.Reply)
			case <-done:
				return
			}
		}
	}()
	defer close(done)

	ask := func(showAll bool) string {
		req := &protocol.EvaluatorRequest{Reply: make(chan *protocol.ConsumerGroupStatus, 1), Cluster: cluster, Group: "grp", ShowAll: showAll}
		module.GetCommunicationChannel() <- req
		resp := <-req.Reply
		if resp.Cluster != cluster || resp.Group != "grp" {
			return "BADNAME"
		}
		return vfmtGroup(resp)
	}
	// every third case asks for the filtered view FIRST (so that the cached evaluation is created by a filtered
	// request and the full view is served from it), the others full first; the view asked first is asked again last
	var all, filt string
	same := "1"
	if caseNo%3 == 1 {
		filt = ask(false)
		all = ask(true)
		if ask(false) != filt {
			same = "0"
		}
	} else {
		all = ask(true)
		filt = ask(false)
		if ask(true) != all {
			same = "0"
		}
	}
	return all + " || " + filt + " || SAME " + same + " FETCHES " + strconv.Itoa(fetches)
}
