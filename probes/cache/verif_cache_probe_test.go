//go:build verif

package evaluator

// Correspondence probe for the Coq model Burrow.Cache (C05).
//
// Every case line is one scenario: a table of cluster names, group names and storage contents, then a script of
// storage updates (U), sequential status requests (Q), sleeps (S) and bursts of concurrent requests from 8 requesters
// (C); W ms = the storage subsystem stalls: nothing is taken off App.StorageChannel for ms; WR ms = the next storage
// fetch is taken at once but answered ms later; M buf delay = from here on requesters use a reply channel of capacity
// buf (0 = unbuffered) and read it delay ms after handing the request over (a slow requester).  The real CachingEvaluator is driven through its request channel; the storage subsystem is played by the
// probe (a scripted responder on App.StorageChannel whose answers change over time).  goswarm reads the real clock,
// so scenarios really sleep; they run in parallel goroutines on separate module instances.  The evaluation clock
// (time.Now inside the evaluator package, rewritten to verifNow by the overlay) is pinned.
//
// Output, one line per scenario: every observed event in order, stamped with strictly increasing microseconds since
// the start of the scenario:
//   U t ci gi v            storage content of (cluster ci, group gi) becomes version v (0 = no such group)
//   L t chex ghex v        storage was asked for (cluster, group) -- as it arrived on the storage channel -- and
//                          answered version v (0 = nil); the answer carries t as the client id of every partition
//   Q i t ci gi showall    request i handed to the evaluator
//   W t ms                 the storage responder stops taking requests for ms (WR: answers the next one ms late)
//   X t n                  the cache lifetime (seconds) the module read from its configuration
//   R i t chex ghex n tok*n   a reply for request i arrived (names of the reply, then the group status)
// then  RC n c_0 .. c_{n-1}  (replies seen per request, counted after a grace period)
// and   ALIAS a             (1 = some reply object handed out earlier differs from the snapshot taken on receipt).

import (
	"bufio"
	"encoding/hex"
	"fmt"
	"math"
	"os"
	"strconv"
	"strings"
	"sync"
	"testing"
	"time"

	"github.com/spf13/viper"
	"go.uber.org/zap"

	"github.com/linkedin/Burrow/core/protocol"
)

const vcEvalClock = int64(1600000000) // seconds; the evaluation rules see this clock

type vcToks struct {
	f []string
	i int
}

func (t *vcToks) next() string { s := t.f[t.i]; t.i++; return s }
func (t *vcToks) i64() int64 {
	v, err := strconv.ParseInt(t.next(), 10, 64)
	if err != nil {
		panic(err)
	}
	return v
}
func (t *vcToks) u64() uint64 {
	v, err := strconv.ParseUint(t.next(), 10, 64)
	if err != nil {
		panic(err)
	}
	return v
}
func (t *vcToks) int() int { return int(t.i64()) }
func (t *vcToks) expect(s string) {
	if g := t.next(); g != s {
		panic("expected " + s + " got " + g)
	}
}

func vcName(prefix string, id int64) string {
	if id == 0 {
		return ""
	}
	return prefix + strconv.FormatInt(id, 10)
}
func vcID(prefix, s string) string {
	if s == "" {
		return "0"
	}
	return strings.TrimPrefix(s, prefix)
}
func vcHex(s string) string {
	if s == "" {
		return "-"
	}
	return hex.EncodeToString([]byte(s))
}
func vcUnhex(s string) string {
	if s == "-" {
		return ""
	}
	b, err := hex.DecodeString(s)
	if err != nil {
		panic(err)
	}
	return string(b)
}

type vcOff struct {
	present          bool
	off, order, ts   int64
	haslag           bool
	lag              uint64
}
type vcPart struct {
	owner   string
	curlag  uint64
	brokers []int64
	offs    []vcOff
}
type vcReq struct {
	ci, gi int
	sa     bool
}
type vcStep struct {
	kind       string
	ci, gi, v  int
	sa         bool
	ms         int
	k          int // C: apply the update (ci, gi, v) after the k-th storage lookup of the burst (k < 0: none)
	reqs       []vcReq
}
type vcScen struct {
	id       string
	lsec     int
	clusters []string
	groups   []string
	contents [][]vcPart // version v is contents[v-1]
	steps    []vcStep
}

func vcParse(line string) *vcScen {
	t := &vcToks{f: strings.Fields(line)}
	t.expect("scn")
	sc := &vcScen{id: t.next(), lsec: t.int()}
	t.expect("NC")
	for n := t.int(); n > 0; n-- {
		sc.clusters = append(sc.clusters, vcUnhex(t.next()))
	}
	t.expect("NG")
	for n := t.int(); n > 0; n-- {
		sc.groups = append(sc.groups, vcUnhex(t.next()))
	}
	t.expect("NV")
	for n := t.int(); n > 0; n-- {
		var parts []vcPart
		for np := t.int(); np > 0; np-- {
			p := vcPart{owner: vcName("o", t.i64())}
			_ = t.i64() // client id: replaced by the lookup stamp
			p.curlag = t.u64()
			for nb := t.int(); nb > 0; nb-- {
				p.brokers = append(p.brokers, t.i64())
			}
			for no := t.int(); no > 0; no-- {
				o := vcOff{present: t.int() == 1}
				o.off, o.order, o.ts = t.i64(), t.i64(), t.i64()
				o.haslag = t.int() == 1
				o.lag = t.u64()
				p.offs = append(p.offs, o)
			}
			parts = append(parts, p)
		}
		sc.contents = append(sc.contents, parts)
	}
	t.expect("ST")
	for n := t.int(); n > 0; n-- {
		st := vcStep{kind: t.next()}
		switch st.kind {
		case "U":
			st.ci, st.gi, st.v = t.int(), t.int(), t.int()
		case "Q":
			st.ci, st.gi = t.int(), t.int()
			st.sa = t.int() == 1
		case "S", "W", "WR":
			st.ms = t.int()
		case "M":
			st.k, st.ms = t.int(), t.int() // capacity of the reply channel, read delay
		case "C":
			st.k, st.ci, st.gi, st.v = t.int(), t.int(), t.int(), t.int()
			for m := t.int(); m > 0; m-- {
				r := vcReq{ci: t.int(), gi: t.int()}
				r.sa = t.int() == 1
				st.reqs = append(st.reqs, r)
			}
		default:
			panic("unknown step " + st.kind)
		}
		sc.steps = append(sc.steps, st)
	}
	return sc
}

// vcBuild makes a fresh storage answer for content `parts`, stamped with the lookup time.
func vcBuild(parts []vcPart, stamp int64) protocol.ConsumerTopics {
	cps := make(protocol.ConsumerPartitions, len(parts))
	for i, p := range parts {
		cp := &protocol.ConsumerPartition{Owner: p.owner, ClientID: "c" + strconv.FormatInt(stamp, 10), CurrentLag: p.curlag}
		cp.BrokerOffsets = append([]int64{}, p.brokers...)
		cp.Offsets = make([]*protocol.ConsumerOffset, len(p.offs))
		for j, o := range p.offs {
			if o.present {
				co := &protocol.ConsumerOffset{Offset: o.off, Order: o.order, Timestamp: o.ts}
				if o.haslag {
					co.Lag = &protocol.Lag{Value: o.lag}
				}
				cp.Offsets[j] = co
			}
		}
		cps[i] = cp
	}
	topics := make(protocol.ConsumerTopics)
	if len(parts) > 0 {
		topics["t1"] = cps
	}
	return topics
}

func vcFmtOff(o *protocol.ConsumerOffset) string {
	if o == nil {
		return "nil"
	}
	lag := "n"
	if o.Lag != nil {
		lag = strconv.FormatUint(o.Lag.Value, 10)
	}
	return fmt.Sprintf("(%d,%d,%d,%s)", o.Offset, o.Order, o.Timestamp, lag)
}

func vcFmtPart(p *protocol.PartitionStatus) string {
	if p == nil {
		return "NILPART"
	}
	return fmt.Sprintf("%s %d %s %s %d %s %s %d %d", vcID("t", p.Topic), p.Partition, vcID("o", p.Owner), vcID("c", p.ClientID),
		int(p.Status), vcFmtOff(p.Start), vcFmtOff(p.End), p.CurrentLag, math.Float32bits(p.Complete))
}

func vcFmtReply(g *protocol.ConsumerGroupStatus) string {
	if g == nil {
		return "- - 1 NILREPLY"
	}
	var sb strings.Builder
	fmt.Fprintf(&sb, "G %d %d %d %d M ", int(g.Status), math.Float32bits(g.Complete), g.TotalPartitions, g.TotalLag)
	if g.Maxlag == nil {
		sb.WriteString("-")
	} else {
		sb.WriteString(vcFmtPart(g.Maxlag))
	}
	fmt.Fprintf(&sb, " P %d", len(g.Partitions))
	for _, p := range g.Partitions {
		sb.WriteString(" " + vcFmtPart(p))
	}
	body := sb.String()
	return fmt.Sprintf("%s %s %d %s", vcHex(g.Cluster), vcHex(g.Group), len(strings.Fields(body)), body)
}

type vcKept struct {
	obj  *protocol.ConsumerGroupStatus
	snap string
}

func vcRun(sc *vcScen, module *CachingEvaluator) (res string) {
	var mu sync.Mutex
	start := time.Now()
	last := int64(0)
	stamp := func() int64 { // mu held
		t := time.Since(start).Microseconds()
		if t <= last {
			t = last + 1
		}
		last = t
		return t
	}
	var events []string
	var kept []vcKept
	store := map[[2]string]int{}
	burstLookups, burstK := 0, -1
	var burstUpd vcStep
	applyUpdate := func(ci, gi, v int) { // mu held
		events = append(events, fmt.Sprintf("U %d %d %d %d", stamp(), ci, gi, v))
		k := [2]string{sc.clusters[ci], sc.groups[gi]}
		if v == 0 {
			delete(store, k)
		} else {
			store[k] = v
		}
	}

	done := make(chan struct{})
	stall := make(chan int)     // the responder takes nothing off the storage channel for that many ms
	slowAnswer := make(chan int) // the next fetch is answered that many ms late
	var responder sync.WaitGroup
	responder.Add(1)
	go func() {
		defer responder.Done()
		answerDelay := 0
		for {
			select {
			case ms := <-stall:
				time.Sleep(time.Duration(ms) * time.Millisecond)
			case ms := <-slowAnswer:
				answerDelay = ms
			case r := <-module.App.StorageChannel:
				mu.Lock()
				t := stamp()
				v := 0
				if r.RequestType == protocol.StorageFetchConsumer {
					v = store[[2]string{r.Cluster, r.Group}]
				}
				events = append(events, fmt.Sprintf("L %d %s %s %d", t, vcHex(r.Cluster), vcHex(r.Group), v))
				var answer protocol.ConsumerTopics
				if v > 0 {
					answer = vcBuild(sc.contents[v-1], t)
				}
				burstLookups++
				if burstK >= 0 && burstLookups == burstK {
					applyUpdate(burstUpd.ci, burstUpd.gi, burstUpd.v)
					burstK = -1
				}
				mu.Unlock()
				delay := answerDelay
				answerDelay = 0
				// answered from a goroutine of its own: an evaluator that has stopped listening for the answer must
				// not be able to wedge the storage side (and with it the rest of the scenario)
				go func() {
					if delay > 0 {
						// a slow answer does not hold up the fetches that come after it
						time.Sleep(time.Duration(delay) * time.Millisecond)
					}
					if v > 0 {
						r.Reply <- answer
					}
					close(r.Reply)
				}()
			case <-done:
				return
			}
		}
	}()

	module.Start()
	mu.Lock()
	events = append(events, fmt.Sprintf("X %d %d", stamp(), module.expireCache)) // the lifetime Configure read
	mu.Unlock()

	var reqs []*protocol.EvaluatorRequest
	replyCap, readDelay := 4, 0
	issue := func(i int, rq *protocol.EvaluatorRequest, ci, gi int, delay int) {
		mu.Lock()
		sa := 0
		if rq.ShowAll {
			sa = 1
		}
		events = append(events, fmt.Sprintf("Q %d %d %d %d %d", i, stamp(), ci, gi, sa))
		mu.Unlock()
		select {
		case module.GetCommunicationChannel() <- rq:
		case <-time.After(3 * time.Second):
			return
		}
		if delay > 0 {
			time.Sleep(time.Duration(delay) * time.Millisecond) // a requester that comes back for its answer late
		}
		select {
		case resp := <-rq.Reply:
			mu.Lock()
			snap := vcFmtReply(resp)
			events = append(events, fmt.Sprintf("R %d %d %s", i, stamp(), snap))
			if resp != nil {
				kept = append(kept, vcKept{resp, snap})
			}
			mu.Unlock()
		case <-time.After(3 * time.Second):
		}
	}
	newReq := func(ci, gi int, sa bool) (int, *protocol.EvaluatorRequest) {
		rq := &protocol.EvaluatorRequest{Reply: make(chan *protocol.ConsumerGroupStatus, replyCap),
			Cluster: sc.clusters[ci], Group: sc.groups[gi], ShowAll: sa}
		reqs = append(reqs, rq)
		return len(reqs) - 1, rq
	}

	for _, st := range sc.steps {
		switch st.kind {
		case "U":
			mu.Lock()
			applyUpdate(st.ci, st.gi, st.v)
			mu.Unlock()
		case "S":
			time.Sleep(time.Duration(st.ms) * time.Millisecond)
		case "W", "WR":
			mu.Lock()
			events = append(events, fmt.Sprintf("W %d %d", stamp(), st.ms))
			mu.Unlock()
			if st.kind == "W" {
				stall <- st.ms
			} else {
				slowAnswer <- st.ms
			}
		case "M":
			replyCap, readDelay = st.k, st.ms
		case "Q":
			i, rq := newReq(st.ci, st.gi, st.sa)
			issue(i, rq, st.ci, st.gi, readDelay)
			time.Sleep(40 * time.Millisecond) // lets a background refresh started by this request finish
		case "C":
			mu.Lock()
			burstLookups, burstK, burstUpd = 0, st.k, st
			mu.Unlock()
			type job struct {
				i      int
				rq     *protocol.EvaluatorRequest
				ci, gi int
			}
			lanes := make([][]job, 8)
			for n, r := range st.reqs {
				i, rq := newReq(r.ci, r.gi, r.sa)
				lanes[n%8] = append(lanes[n%8], job{i, rq, r.ci, r.gi})
			}
			gate := make(chan struct{})
			var wg sync.WaitGroup
			delay := readDelay
			for _, lane := range lanes {
				wg.Add(1)
				go func(lane []job) {
					defer wg.Done()
					<-gate
					for _, j := range lane {
						issue(j.i, j.rq, j.ci, j.gi, delay)
					}
				}(lane)
			}
			close(gate)
			wg.Wait()
			mu.Lock()
			burstK = -1
			mu.Unlock()
			time.Sleep(40 * time.Millisecond)
		}
	}

	time.Sleep(150 * time.Millisecond) // grace period: late or duplicated replies
	mu.Lock()
	var sb strings.Builder
	fmt.Fprintf(&sb, "OBS %s %d", sc.id, len(events))
	for _, e := range events {
		sb.WriteString(" " + e)
	}
	counts := make([]int, len(reqs))
	for _, e := range events {
		if strings.HasPrefix(e, "R ") {
			i, _ := strconv.Atoi(strings.Fields(e)[1])
			counts[i]++
		}
	}
	fmt.Fprintf(&sb, " RC %d", len(reqs))
	for i, rq := range reqs {
	drain:
		for {
			select {
			case <-rq.Reply:
				counts[i]++
			default:
				break drain
			}
		}
		fmt.Fprintf(&sb, " %d", counts[i])
	}
	alias := 0
	for _, k := range kept {
		if vcFmtReply(k.obj) != k.snap {
			alias = 1
		}
	}
	fmt.Fprintf(&sb, " ALIAS %d", alias)
	mu.Unlock()

	module.Stop()
	close(done)
	responder.Wait()
	return sb.String()
}

func TestVerifProbeCache(t *testing.T) {
	casesPath, outPath := os.Getenv("VERIF_CASES"), os.Getenv("VERIF_OUT")
	if casesPath == "" || outPath == "" {
		t.Skip("VERIF_CASES / VERIF_OUT not set")
	}
	in, err := os.Open(casesPath)
	if err != nil {
		t.Fatal(err)
	}
	defer in.Close()
	var scens []*vcScen
	sc := bufio.NewScanner(in)
	sc.Buffer(make([]byte, 1<<20), 1<<26)
	for sc.Scan() {
		line := strings.TrimSpace(sc.Text())
		if line == "" {
			continue
		}
		scens = append(scens, vcParse(line))
	}

	par := 48
	if s := os.Getenv("VERIF_PAR"); s != "" {
		par, _ = strconv.Atoi(s)
	}
	VerifSetClock(vcEvalClock * 1000000000)
	defer VerifSetClock(0)

	// viper is process-global and not safe for concurrent use: configure every module first, one after the other
	viper.Reset()
	modules := make([]*CachingEvaluator, len(scens))
	for n, s := range scens {
		root := "evaluator.m" + strconv.Itoa(n)
		viper.Set(root+".class-name", "caching")
		if s.lsec >= 0 {
			viper.Set(root+".expire-cache", s.lsec)
		} // lsec < 0: expire-cache is left unset, Configure's SetDefault applies
		m := &CachingEvaluator{Log: zap.NewNop()}
		m.App = &protocol.ApplicationContext{Logger: zap.NewNop(), StorageChannel: make(chan *protocol.StorageRequest)}
		m.Configure("m"+strconv.Itoa(n), root)
		modules[n] = m
	}

	out := make([]string, len(scens))
	sem := make(chan struct{}, par)
	var wg sync.WaitGroup
	for n := range scens {
		wg.Add(1)
		sem <- struct{}{}
		go func(n int) {
			defer wg.Done()
			defer func() { <-sem }()
			defer func() {
				if r := recover(); r != nil {
					out[n] = fmt.Sprintf("OBS %s CRASH %v", scens[n].id, r)
				}
			}()
			out[n] = vcRun(scens[n], modules[n])
		}(n)
	}
	wg.Wait()

	outf, err := os.Create(outPath)
	if err != nil {
		t.Fatal(err)
	}
	defer outf.Close()
	w := bufio.NewWriter(outf)
	defer w.Flush()
	for _, o := range out {
		fmt.Fprintln(w, o)
	}
}
