//go:build verif

package core

// Correspondence probe for the Coq model Burrow.ConfigValid (C19).
//
// Every case line describes ONE complete configuration as explicit viper key/value tokens plus "facts" about the
// outside world (which files exist and what they contain).  The probe loads the configuration into the (global)
// viper instance, calls the exported core.Start with its own ApplicationContext (zap observer logger) and a closed
// exit channel, and prints
//
//	RET <rc> valid=<bool> configured=<coordinators that logged "configuring"> started=<coordinators that logged "starting"> listening=<n>[@port,...]
//	PANIC <kind>            (kind: string | error | zap | other) when a panic escapes core.Start
//
// listening = the TCP sockets in state LISTEN that this process owns after core.Start returned and did not own before
// (read from /proc/self/fd and /proc/net/tcp{,6}; sockets that a still running Serve goroutine is about to close are given
// a grace period).  This is the direct observation of "listeners opened"; it does not depend on any log line.
//
// The ApplicationContext that Start is handed is part of the case (token X:<state>, default fresh):
//
//	X:fresh    a new context (ConfigurationValid = false)
//	X:preset   a new context constructed with ConfigurationValid = true (and AppReady = true)
//	X:reuse    the context an earlier call of Start returned from: the P-prefixed tokens (Ps:, Pl:, PF:, ...) describe
//	           the configuration of that earlier call; the output line then ends in " pre=<rc>/<ConfigurationValid>"
//	           of the earlier call, and configured= / started= are those of the SECOND call only
//
// Token grammar (tokens separated by blanks, values hex encoded):
//
//	cfg <base> <edits>  then any number of
//	s:<key>:<hex>              string value          l:<key>:<hex>,<hex>,...   list of strings
//	i:<key>:<decimal>          integer value         b:<key>:<0|1>             boolean value
//	t:<key>                    empty table
//	F:<kind>:<hex>[:<hex>]:<0|1>   fact (only F:file, F:tmpl and F:pair are materialised by the probe; the other kinds are
//	                               the model's oracles for behaviour the real code computes itself)
//
// A decoded value that starts with "@/" names a file in this case's scratch directory (created under os.MkdirTemp,
// outside /repo and /verif, removed afterwards).  "@/shipped-<name>" is a copy of config/<name> of the tree under test
// (directory in $VERIF_REPO_CONFIG, else found relative to this package); "@/helpers.tmpl" calls every documented helper.

import (
	"bufio"
	"crypto/ecdsa"
	"crypto/elliptic"
	"crypto/rand"
	"crypto/x509"
	"crypto/x509/pkix"
	"encoding/hex"
	"encoding/pem"
	"fmt"
	"math/big"
	"os"
	"path/filepath"
	"runtime"
	"sort"
	"strconv"
	"strings"
	"testing"
	"time"

	"github.com/spf13/viper"
	"go.uber.org/zap"
	"go.uber.org/zap/zapcore"
	"go.uber.org/zap/zaptest/observer"

	"github.com/linkedin/Burrow/core/protocol"
)

func vcfgUnhex(s string) string {
	b, err := hex.DecodeString(s)
	if err != nil {
		panic("bad hex in case line: " + s)
	}
	return string(b)
}

// vcfgPath maps "@/name" to a file of the case's scratch directory.
func vcfgPath(dir, v string) string {
	if strings.HasPrefix(v, "@/") {
		return filepath.Join(dir, v[2:])
	}
	return v
}

type vcfgKeypair struct{ cert, key []byte }

func vcfgMakeKeypair() vcfgKeypair {
	priv, err := ecdsa.GenerateKey(elliptic.P256(), rand.Reader)
	if err != nil {
		panic(err)
	}
	tmpl := &x509.Certificate{
		SerialNumber: big.NewInt(1),
		Subject:      pkix.Name{CommonName: "verif"},
		NotBefore:    time.Now().Add(-time.Hour),
		NotAfter:     time.Now().Add(24 * time.Hour),
		KeyUsage:     x509.KeyUsageDigitalSignature,
		IsCA:         true, BasicConstraintsValid: true,
	}
	der, err := x509.CreateCertificate(rand.Reader, tmpl, tmpl, &priv.PublicKey, priv)
	if err != nil {
		panic(err)
	}
	kb, err := x509.MarshalECPrivateKey(priv)
	if err != nil {
		panic(err)
	}
	return vcfgKeypair{
		cert: pem.EncodeToMemory(&pem.Block{Type: "CERTIFICATE", Bytes: der}),
		key:  pem.EncodeToMemory(&pem.Block{Type: "EC PRIVATE KEY", Bytes: kb}),
	}
}

const vcfgGoodTemplate = `{"group":"{{.Group}}","cluster":"{{.Cluster}}","id":"{{.ID}}"}` + "\n"
const vcfgBadTemplate = `{"group":"{{.Group ` + "\n"

// every function of the documented template helper set (notifier/helpers.go helperFunctionMap; Burrow wiki "Templates")
const vcfgHelpersTemplate = `{{jsonencoder .}} {{topicsbystatus .Result}} {{partitioncounts .Result.Partitions}} ` +
	`{{add 1 2}} {{minus 3 1}} {{multiply 2 3}} {{divide 6 2}} {{maxlag .Result}} {{formattimestamp 0 "15:04:05"}}` + "\n"

// vcfgShipped returns the content of config/<name> of the tree the probe was built from.
func vcfgShipped(name string) []byte {
	dirs := []string{}
	if d := os.Getenv("VERIF_REPO_CONFIG"); d != "" {
		dirs = append(dirs, d)
	}
	if _, file, _, ok := runtime.Caller(0); ok {
		dirs = append(dirs, filepath.Join(filepath.Dir(file), "..", "config"))
	}
	dirs = append(dirs, "/repo/config")
	for _, d := range dirs {
		if b, err := os.ReadFile(filepath.Join(d, name)); err == nil {
			return b
		}
	}
	panic("shipped template " + name + " not found in " + strings.Join(dirs, ", "))
}

// vcfgMaterialise creates the files the facts call for.  Content by role: a file that is the certificate (resp. key)
// of a pair fact with value 1 gets the generated certificate (key); *.tmpl files get a template that parses unless a
// tmpl fact says 0; every other readable file gets the certificate (so that it is also a usable CA bundle).
func vcfgMaterialise(dir string, toks []string, kp vcfgKeypair) {
	readable := map[string]bool{}
	tmplBad := map[string]bool{}
	role := map[string]string{}
	for _, tk := range toks {
		if !strings.HasPrefix(tk, "F:") {
			continue
		}
		f := strings.Split(tk, ":")
		switch f[1] {
		case "file":
			if f[3] == "1" {
				readable[vcfgUnhex(f[2])] = true
			}
		case "tmpl":
			if f[3] == "0" {
				tmplBad[vcfgUnhex(f[2])] = true
			}
		case "pair":
			if f[4] == "1" {
				role[vcfgUnhex(f[2])] = "cert"
				role[vcfgUnhex(f[3])] = "key"
			}
		}
	}
	for name := range readable {
		if !strings.HasPrefix(name, "@/") {
			continue
		}
		var content []byte
		switch {
		case strings.HasPrefix(name, "@/shipped-"):
			content = vcfgShipped(strings.TrimPrefix(name, "@/shipped-"))
		case name == "@/helpers.tmpl":
			content = []byte(vcfgHelpersTemplate)
		case strings.HasSuffix(name, ".tmpl"):
			if tmplBad[name] {
				content = []byte(vcfgBadTemplate)
			} else {
				content = []byte(vcfgGoodTemplate)
			}
		case role[name] == "key":
			content = kp.key
		case role[name] == "cert":
			content = kp.cert
		case strings.HasSuffix(name, ".txt"):
			content = []byte("this is not PEM\n")
		default:
			content = kp.cert
		}
		if err := os.WriteFile(vcfgPath(dir, name), content, 0o600); err != nil {
			panic(err)
		}
	}
}

func vcfgLoad(dir string, toks []string) {
	for _, tk := range toks {
		if len(tk) < 2 || tk[1] != ':' || tk[0] == 'F' {
			continue
		}
		f := strings.SplitN(tk, ":", 3)
		switch f[0] {
		case "s":
			viper.Set(f[1], vcfgPath(dir, vcfgUnhex(f[2])))
		case "l":
			lst := []string{}
			if f[2] != "" {
				for _, h := range strings.Split(f[2], ",") {
					lst = append(lst, vcfgUnhex(h))
				}
			}
			viper.Set(f[1], lst)
		case "i":
			v, err := strconv.ParseInt(f[2], 10, 64)
			if err != nil {
				panic(err)
			}
			viper.Set(f[1], v)
		case "b":
			viper.Set(f[1], f[2] == "1")
		case "t":
			viper.Set(f[1], map[string]interface{}{})
		default:
			panic("unknown token " + tk)
		}
	}
}

func vcfgCoordinators(logs *observer.ObservedLogs, msg string) []string {
	var out []string
	for _, e := range logs.All() {
		if e.Message != msg {
			continue
		}
		m := e.ContextMap()
		if m["type"] == "coordinator" {
			out = append(out, fmt.Sprint(m["name"]))
		}
	}
	sort.Strings(out)
	return out
}

// vcfgSetup puts one configuration in place: the files of the scratch directory and the global viper.
func vcfgSetup(dir string, toks []string, kp vcfgKeypair) {
	if err := os.RemoveAll(dir); err != nil {
		panic(err)
	}
	if err := os.MkdirAll(dir, 0o700); err != nil {
		panic(err)
	}
	viper.Reset()
	vcfgMaterialise(dir, toks, kp)
	vcfgLoad(dir, toks)
}

// vcfgListening returns the listening TCP sockets owned by this process: socket inode -> local port.
func vcfgListening() map[string]string {
	mine := map[string]bool{}
	fds, err := os.ReadDir("/proc/self/fd")
	if err != nil {
		panic("cannot read /proc/self/fd: " + err.Error())
	}
	for _, fd := range fds {
		if target, err := os.Readlink("/proc/self/fd/" + fd.Name()); err == nil && strings.HasPrefix(target, "socket:[") {
			mine[strings.TrimSuffix(strings.TrimPrefix(target, "socket:["), "]")] = true
		}
	}
	out := map[string]string{}
	for _, table := range []string{"/proc/net/tcp", "/proc/net/tcp6"} {
		b, err := os.ReadFile(table)
		if err != nil {
			continue
		}
		for _, line := range strings.Split(string(b), "\n")[1:] {
			f := strings.Fields(line)
			if len(f) < 10 || f[3] != "0A" || !mine[f[9]] { // 0A = TCP_LISTEN
				continue
			}
			port := f[1]
			if i := strings.LastIndex(port, ":"); i >= 0 {
				if n, err := strconv.ParseUint(port[i+1:], 16, 32); err == nil {
					port = strconv.FormatUint(n, 10)
				}
			}
			out[f[9]] = port
		}
	}
	return out
}

// vcfgNewListeners: the listening sockets that are not in `before`, polled until none is left or the grace period is over.
func vcfgNewListeners(before map[string]string, grace time.Duration) []string {
	deadline := time.Now().Add(grace)
	for {
		var ports []string
		for inode, port := range vcfgListening() {
			if _, old := before[inode]; !old {
				ports = append(ports, port)
			}
		}
		if len(ports) == 0 || time.Now().After(deadline) {
			sort.Strings(ports)
			return ports
		}
		time.Sleep(5 * time.Millisecond)
	}
}

func vcfgListeningField(before map[string]string, somethingStarted bool) string {
	grace := 300 * time.Millisecond
	if somethingStarted {
		grace = 3 * time.Second // http.Server.Close may run before the Serve goroutine has taken over the listener
	}
	ports := vcfgNewListeners(before, grace)
	if len(ports) == 0 {
		return "listening=0"
	}
	return fmt.Sprintf("listening=%d@%s", len(ports), strings.Join(ports, ","))
}

func vcfgClosedExit() chan os.Signal {
	exit := make(chan os.Signal, 1)
	close(exit) // a configuration that starts is shut down at once
	return exit
}

func vcfgRunCase(scratch string, idx int, line string, kp vcfgKeypair) (result string) {
	toks := strings.Fields(line)
	if len(toks) < 3 || toks[0] != "cfg" {
		return "BADCASE"
	}
	dir := filepath.Join(scratch, "c"+strconv.Itoa(idx))
	defer os.RemoveAll(dir)

	ctx := "fresh"
	var mainToks, preToks []string
	for _, tk := range toks[3:] {
		switch {
		case strings.HasPrefix(tk, "X:"):
			ctx = tk[2:]
		case strings.HasPrefix(tk, "P"):
			preToks = append(preToks, tk[1:])
		default:
			mainToks = append(mainToks, tk)
		}
	}

	core, logs := observer.New(zapcore.DebugLevel)
	level := zap.NewAtomicLevelAt(zapcore.DebugLevel)
	app := &protocol.ApplicationContext{Logger: zap.New(core), LogLevel: &level}
	pre := ""
	atEntry := vcfgListening()
	switch ctx {
	case "fresh":
	case "preset":
		app.ConfigurationValid = true
		app.AppReady = true
	case "reuse":
		// an earlier Start on the same context, with its own configuration
		vcfgSetup(dir, preToks, kp)
		prc := "PANIC"
		func() {
			defer func() { _ = recover() }()
			prc = strconv.Itoa(Start(app, vcfgClosedExit()))
		}()
		pre = fmt.Sprintf(" pre=%s/%v", prc, app.ConfigurationValid)
		logs.TakeAll()
		vcfgNewListeners(atEntry, 3*time.Second) // let the earlier Start's listeners go away
	default:
		return "BADCASE context " + ctx
	}

	vcfgSetup(dir, mainToks, kp)
	exit := vcfgClosedExit()
	before := vcfgListening()

	defer func() {
		if r := recover(); r != nil {
			kind := "other"
			switch v := r.(type) {
			case string:
				kind = "string"
				all := logs.All()
				if n := len(all); n > 0 && all[n-1].Level == zapcore.PanicLevel && all[n-1].Message == v {
					kind = "zap"
				}
			case error:
				kind = "error"
			}
			result = "PANIC " + kind
		}
	}()
	rc := Start(app, exit)
	started := vcfgCoordinators(logs, "starting")
	return fmt.Sprintf("RET %d valid=%v configured=%s started=%s %s%s", rc, app.ConfigurationValid,
		strings.Join(vcfgCoordinators(logs, "configuring"), ","), strings.Join(started, ","),
		vcfgListeningField(before, app.ConfigurationValid || len(started) > 0 || rc == 0), pre)
}

func TestVerifProbeConfig(t *testing.T) {
	in, err := os.Open(os.Getenv("VERIF_CASES"))
	if err != nil {
		t.Skip("VERIF_CASES not set")
	}
	defer in.Close()
	out, err := os.Create(os.Getenv("VERIF_OUT"))
	if err != nil {
		t.Fatal(err)
	}
	defer out.Close()
	w := bufio.NewWriter(out)
	defer w.Flush()

	scratch, err := os.MkdirTemp("", "verif-config-")
	if err != nil {
		t.Fatal(err)
	}
	defer os.RemoveAll(scratch)
	defer viper.Reset()
	kp := vcfgMakeKeypair()

	sc := bufio.NewScanner(in)
	sc.Buffer(make([]byte, 1<<20), 1<<26)
	idx := 0
	for sc.Scan() {
		line := strings.TrimSpace(sc.Text())
		if line == "" {
			continue
		}
		fmt.Fprintln(w, vcfgRunCase(scratch, idx, line, kp))
		w.Flush()
		idx++
	}
}
