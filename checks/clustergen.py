"""Generators, parser and property oracle for the cluster layer (C11 broker offsets, C12 topic deletion).

A scenario is 1..6 consecutive refresh cycles of one Kafka cluster module.  Case line (see ocaml/drv_cluster.ml):

  scn|scnx <ncycles> { <tick> <topics_ok> <k> <topic>*k
                       <nT> { <topic> <parts_ok> <np> { <pid> <leader|-1> <kerror> <noffs> <off>* } }
                       <nF> <failing broker>* }

`scnx` = some scripted answer has ErrNoError and no offsets (the implementation may panic; the probe runs those in a
child process).  Output line: cycles joined by " | ", each
  M<refresh attempted> F<fetchMetadata after> R <b:t:p,..|-> U <t:p:off:count,..|-> D <t,..|->     or CRASH | HANG

Second format (what the generators below emit; the old one is still read: corpus, old replay files):

  sc2|sc2x|sc2s|sc2w <kafka-version index> <ncycles> { <sd> <su> <rp> <rm> <cycle as above> }

  kafka-version index: into KAFKA_VERSIONS (the probe configures the module through the real Configure with that
      client-profile kafka-version; the scripted broker answers in the wire format of the request version it receives
      and refuses versions the configured kafka-version does not have, as sarama does)
  sd: the storage side takes nothing for 1.5 s from the start of the cycle (or until the first broker is asked)
  su: the storage side takes nothing while broker answers are turned into requests (every 1 s timeout send is lost)
  rp: the groups-reaper tick after the cycle finds a working ListConsumerGroups (storage answers FetchConsumers)
  rm: client.RefreshMetadata returns an error in this cycle
  in kind sc2w the <sd> slot holds <mv>: the id (>= 2) of a broker that re-registers under a new address before the
      cycle (0: none), and rp = 1 runs the real reapNonExistingGroups / ListConsumerGroups after the cycle
  Third format sc3|sc3x (worlds outside the two assumptions of the model's `env`, ClusterMod.xenv): as sc2, but a
      partition row is { <pid> <leader at refresh|-1> <leader in generateOffsetRequests|-1> <omit> <kerror> <noffs> <off>* }
      and after the failing brokers comes <nX> { <broker> <topic> <pid> <kerror> <noffs> <off>* } (blocks a broker adds
      although nobody asked for them).
  kind suffix (routing inside the probe only): x = child process (may panic), s = unbuffered storage channel with a
      scripted reader, run in parallel (real time: stalls), w = real sarama client against sarama.MockBroker (wire).
  U / D = what the storage side RECEIVED.
"""

# kafka-versions for which the wire scenarios run the groups reaper: Start() needs >= 0.11.0.0, and below 2.4.0 the
# ListGroups exchange is in the non-flexible format that sarama's MockBroker is known to decode and encode
REAPER_WIRE_VERSIONS = ("0.11.0.2", "1.0.0", "1.1.1", "2.0.0", "2.1.0")

KAFKA_VERSIONS = ["", "0.8", "0.8.2", "0.8.2.2", "0.9", "0.9.0.1", "0.10", "0.10.0.1", "0.10.1", "0.10.1.0",
                  "0.10.2.1", "0.11.0.2", "1.0.0", "1.1.1", "2.0.0", "2.1.0", "2.4.0", "2.8.0", "3.6.0"]

KERRORS = [3, 6, 5, 1, -1, 9, 7, 43]
I64MAX = 2 ** 63 - 1


# ------------------------------------------------------------------------------------------------
# generation
# ------------------------------------------------------------------------------------------------

def _new_topic(rng, nb, np_=None):
    n = np_ if np_ is not None else rng.choice([1, 1, 2, 2, 3, 3, 4, 5, 6])
    base = rng.choice([0, 1, 1000, 10 ** 6, rng.randrange(0, 10 ** 12), 2 ** 62, I64MAX - 10 ** 6])
    return {
        "present": True,
        "ids": list(range(n)),
        "leader": {p: (None if rng.random() < 0.2 else rng.randrange(1, nb + 1)) for p in range(n)},
        "off": {p: base + rng.randrange(0, 1000) for p in range(n)},
        "keep_rows": False,
    }


def gen_scenario(rng, idx, force=None, bias=None, crash_p=0.01, mode=None, stall=(0.0, 0.0)):
    """Returns (case line, tags).  tags: set of fault / topology-change kinds present in the scenario.
    bias="topics": topic-set trajectories (more vanishing / re-appearing topics, more refresh faults and ticks).
    mode=None: scripted client, buffered storage channel (kind sc2 / sc2x);
    mode="stall": small layouts, the storage side stalls (kind sc2s): stall = (p of sd, p of su) per cycle;
    mode="deviant": kind sc3 / sc3x -- Leader may answer differently during the refresh and in generateOffsetRequests
                 of one cycle (p=0.1 per partition and cycle), a broker may omit an asked block (p=0.06) or add blocks
                 that were not asked (p=0.15 per cycle);
    mode="wire": what sarama.MockBroker can express (kind sc2w): every call succeeds, one offset per partition, a
                 metadata tick in every cycle (the real client caches metadata between refreshes)."""
    tags = set()
    tb = bias == "topics"
    small = mode in ("stall", "wire")
    wire = mode == "wire"
    dev = mode == "deviant"
    ntop = rng.randint(1, 2 if mode == "stall" else (3 if wire else 4))
    nb = rng.randint(2, 3) if (wire and rng.random() < 0.7) else rng.randint(1, 3)
    world = {}
    for t in range(1, ntop + 1):
        world[t] = _new_topic(rng, nb, rng.choice([1, 2, 2]) if small else None)
        if rng.random() < 0.15 and not (wire and t == 1):
            world[t]["present"] = False     # will (perhaps) appear later
    ncyc = rng.randint(1, 5) if wire else (rng.randint(2, 5) if mode == "stall" else rng.randint(1, 6))
    weird = rng.random() < 0.04 and not small
    crash_cycle = None
    if not small and (force == "crash" or (force is None and rng.random() < crash_p)):
        crash_cycle = rng.randrange(0, ncyc)
    kv = rng.randrange(0, len(KAFKA_VERSIONS))
    if wire and rng.random() < 0.5:
        kv = KAFKA_VERSIONS.index(rng.choice(REAPER_WIRE_VERSIONS))
    tags.add("kafka-version:" + (KAFKA_VERSIONS[kv] or "(default)"))
    n_sd = n_su = n_mv = 0
    cycles = []
    for c in range(ncyc):
        # ---- topology changes since the last cycle
        vanished_now = False
        if c > 0:
            for t, tw in world.items():
                if tw["present"]:
                    r = rng.random()
                    if r < (0.25 if tb else 0.12):
                        tw["present"] = False
                        tw["keep_rows"] = rng.random() < 0.5
                        vanished_now = True
                        tags.add("topic-vanishes")
                    elif r < (0.35 if tb else 0.20):
                        for p in tw["ids"]:
                            tw["leader"][p] = None
                        tags.add("topic-loses-all-leaders")
                    elif r < (0.40 if tb else 0.28) and len(tw["ids"]) < (2 if small else 6):
                        p = len(tw["ids"])
                        tw["ids"].append(p)
                        tw["leader"][p] = None if rng.random() < 0.2 else rng.randrange(1, nb + 1)
                        tw["off"][p] = rng.randrange(0, 1000)
                        tags.add("partition-added")
                    for p in tw["ids"]:
                        r = rng.random()
                        if r < 0.12:
                            old = tw["leader"][p]
                            tw["leader"][p] = rng.randrange(1, nb + 1)
                            if old != tw["leader"][p]:
                                tags.add("leader-gained" if old is None else "leader-change")
                        elif r < 0.17:
                            if tw["leader"][p] is not None:
                                tags.add("leader-lost")
                            tw["leader"][p] = None
                else:
                    if rng.random() < (0.5 if tb else 0.35):
                        was = tw.get("ever", False)
                        nw = _new_topic(rng, nb) if rng.random() < 0.5 else None
                        if nw is not None:
                            world[t] = nw
                            tw = nw
                        tw["present"] = True
                        tags.add("topic-reappears" if was else "topic-appears")
        for t, tw in world.items():
            if tw["present"]:
                tw["ever"] = True
            for p in tw["ids"]:
                tw["off"][p] = min(I64MAX, tw["off"][p] + rng.choice([0, 1, 5, 100, 10 ** 4]))
        # ---- faults of this cycle
        tick = 1 if (wire or rng.random() < (0.85 if (c == 0 or (mode == "stall" and vanished_now)) else (0.7 if tb else 0.4))) else 0
        topics_ok = 1
        if not wire and rng.random() < (0.2 if tb else 0.15):
            topics_ok = 0
            tags.add("fault:topic-list")
        parts_fail = set()
        if not wire and rng.random() < (0.2 if tb else 0.15):
            parts_fail.add(rng.randint(1, ntop))
            tags.add("fault:partition-list")
        all_tp = [(t, p) for t, tw in world.items() for p in tw["ids"]]
        leader_fail = set()
        if not wire and all_tp and rng.random() < 0.15:
            for _ in range(rng.choice([1, 1, 2])):
                leader_fail.add(rng.choice(all_tp))
            tags.add("fault:leader-lookup")
        failing = []
        if not wire and rng.random() < 0.15:
            failing = sorted(set(rng.randrange(1, nb + 1) for _ in range(rng.choice([1, 1, 2]))))
            tags.add("fault:broker-call")
        part_err = {}
        if not wire and all_tp and rng.random() < 0.15:
            for _ in range(rng.choice([1, 1, 2, 3])):
                part_err[rng.choice(all_tp)] = rng.choice(KERRORS)
            tags.add("fault:partition-error")
        # ---- the storage side, the reaper, the metadata refresh call
        sd = su = rp = rm = 0
        if mode == "stall":
            if n_sd < 3 and rng.random() < (max(stall[0], 0.75) if vanished_now else stall[0]):
                sd, n_sd = 1, n_sd + 1
                tags.add("storage:stall-at-cycle-start")
            if n_su < 2 and rng.random() < stall[1]:
                su, n_su = 1, n_su + 1
                tags.add("storage:no-reader-during-updates")
        if wire:
            # a broker (never the seed, id 1) that leads something now re-registers under a new address
            movable = sorted({tw["leader"][p] for tw in world.values() if tw["present"] for p in tw["ids"]
                              if tw["leader"][p] is not None and tw["leader"][p] >= 2})
            if c > 0 and movable and n_mv < 2 and rng.random() < 0.4:
                sd, n_mv = rng.choice(movable), n_mv + 1       # the <sd> slot is <mv> in this kind
                tags.add("wire:broker-re-registers-under-new-address")
            if c < ncyc - 1 and KAFKA_VERSIONS[kv] in REAPER_WIRE_VERSIONS and rng.random() < 0.4:
                rp = 1
                tags.add("wire:reaper-run-with-real-ListConsumerGroups")
        if not wire:
            if c > 0 and rng.random() < 0.08:
                rp = 1
                tags.add("reaper-run")
            if rng.random() < 0.08:
                rm = 1
                tags.add("fault:refresh-metadata-call")
        empty = None
        if crash_cycle == c and all_tp:
            empty = rng.choice(all_tp)
            tags.add("fault:empty-offsets")
        # ---- the cycle's tables
        tlist = [t for t, tw in world.items() if tw["present"]]
        rng.shuffle(tlist)
        if weird and tlist and rng.random() < 0.5:
            tlist.append(rng.choice(tlist))
            tags.add("weird:duplicate-topic")
        toks = [str(sd), str(su), str(rp), str(rm), str(tick), str(topics_ok), str(len(tlist))] + [str(t) for t in tlist]
        rows = []
        for t, tw in world.items():
            if not tw["present"] and (wire or not tw["keep_rows"]):
                continue
            ids = list(tw["ids"])
            if weird and rng.random() < 0.3:
                if rng.random() < 0.5:
                    ids.append(rng.choice(ids))
                    tags.add("weird:duplicate-partition")
                else:
                    ids = [p for p in ids if p != 0] or ids
                    tags.add("weird:gap-in-partition-ids")
            rt = [str(t), "0" if t in parts_fail else "1", str(len(ids))]
            for p in ids:
                ld = tw["leader"][p]
                if (t, p) in leader_fail:
                    ld = None
                if not tw["present"] and rng.random() < 0.5:
                    ld = None
                err = part_err.get((t, p), 0)
                if not tw["present"] and err == 0 and rng.random() < 0.6:
                    err = 3
                offs = [tw["off"][p]]
                if not wire and rng.random() < 0.05:
                    offs.append(rng.randrange(0, 1000))
                if empty == (t, p):
                    offs, err = [], 0
                elif err != 0 and rng.random() < 0.7:
                    offs = []
                lead_toks = [str(-1 if ld is None else ld)]
                if dev:
                    ld2, om = ld, 0
                    r = rng.random()
                    if r < 0.04:
                        ld2 = None if ld is not None else rng.randrange(1, nb + 1)
                        tags.add("deviant:leader-differs-between-call-sites")
                    elif r < 0.07:
                        ld2 = None
                        if ld is not None:
                            tags.add("deviant:leader-differs-between-call-sites")
                    elif r < 0.10:
                        ld2 = rng.randrange(1, nb + 1)
                        if ld2 != ld:
                            tags.add("deviant:leader-differs-between-call-sites")
                    if rng.random() < 0.06 and empty != (t, p):
                        om = 1
                        tags.add("deviant:asked-block-omitted")
                    lead_toks += [str(-1 if ld2 is None else ld2), str(om)]
                rt += [str(p)] + lead_toks + [str(err), str(len(offs))] + [str(o) for o in offs]
            rows.append(rt)
        toks += [str(len(rows))]
        for rt in rows:
            toks += rt
        toks += [str(len(failing))] + [str(b) for b in failing]
        if dev:
            extras = []
            if rng.random() < 0.15:
                for _ in range(rng.choice([1, 1, 2])):
                    xt = rng.choice([8, 9] + list(world.keys()))
                    xp = rng.randrange(0, 3) if xt in (8, 9) else 50 + rng.randrange(0, 3)   # never an asked key
                    xerr = rng.choice([0, 0, 0, 3, 6])
                    xoffs = [rng.randrange(0, 10 ** 6)] if (xerr == 0 or rng.random() < 0.3) else []
                    if any(ex[1] == str(xt) and ex[2] == str(xp) for ex in extras):
                        continue          # one block per key in a response map
                    extras.append([str(rng.randrange(1, nb + 1)), str(xt), str(xp), str(xerr), str(len(xoffs))] + [str(o) for o in xoffs])
                tags.add("deviant:unasked-block-in-response")
            toks += [str(len(extras))]
            for ex in extras:
                toks += ex
        cycles.append(toks)
    body = [str(kv), str(ncyc)]
    for toks in cycles:
        body += toks
    line = " ".join(body)
    if wire:
        kind = "sc2w"
    elif mode == "stall":
        kind = "sc2s"
    elif dev:
        kind = "sc3x" if may_panic(parse("sc3 " + line)) else "sc3"
    else:
        kind = "sc2x" if may_panic(parse("sc2 " + line)) else "sc2"
    return kind + " " + line, tags


# ------------------------------------------------------------------------------------------------
# parsing (shared by the oracle)
# ------------------------------------------------------------------------------------------------

def parse(line):
    f = line.split()
    pos = [1]

    def nx():
        v = f[pos[0]]
        pos[0] += 1
        return v

    scripted = f[0].startswith("sc2") or f[0].startswith("sc3")
    fmt3 = f[0].startswith("sc3")
    kv = int(nx()) if scripted else 0
    cycles = []
    for _ in range(int(nx())):
        cyc = {"kv": kv, "sd": False, "su": False, "rp": False, "rm": False, "mv": 0}
        if scripted:
            for k in ("sd", "su", "rp", "rm"):
                cyc[k] = nx()
            if f[0] == "sc2w":
                cyc["mv"], cyc["sd"] = int(cyc["sd"]), "0"
            for k in ("sd", "su", "rp", "rm"):
                cyc[k] = cyc[k] == "1"
        cyc["tick"] = nx() == "1"
        cyc["topics_ok"] = nx() == "1"
        cyc["topics"] = [int(nx()) for _ in range(int(nx()))]
        table = {}
        ldreq, omit = {}, set()       # leader in generateOffsetRequests per (t, p); omitted asked blocks
        for _ in range(int(nx())):
            t = int(nx())
            ok = nx() == "1"
            parts, rows = [], {}
            first_t = t not in table
            for _ in range(int(nx())):
                p = int(nx())
                ld = int(nx())
                ld2, om = ld, False
                if fmt3:
                    ld2 = int(nx())
                    om = nx() == "1"
                err = int(nx())
                offs = [int(nx()) for _ in range(int(nx()))]
                parts.append(p)
                if first_t and p not in rows:
                    ldreq[(t, p)] = ld2
                    if om:
                        omit.add((t, p))
                rows.setdefault(p, (ld, err, offs))
            table.setdefault(t, (ok, parts, rows))
        cyc["table"] = table
        cyc["ldreq"], cyc["omit"] = ldreq, omit
        cyc["failing"] = set(int(nx()) for _ in range(int(nx())))
        cyc["extras"] = []            # (broker, topic, partition, kerror, offsets): blocks answered although not asked
        if fmt3:
            for _ in range(int(nx())):
                b, t, p, err = int(nx()), int(nx()), int(nx()), int(nx())
                cyc["extras"].append((b, t, p, err, [int(nx()) for _ in range(int(nx()))]))
        cycles.append(cyc)
    assert pos[0] == len(f), "trailing tokens in case line"
    return cycles


def may_panic(cycles):
    return any(err == 0 and not offs for c in cycles for (_, _, rows) in c["table"].values() for (_, err, offs) in rows.values()) \
        or any(err == 0 and not offs for c in cycles for (_, _, _, err, offs) in c["extras"])


def parse_out(line):
    """-> list of dicts (M, F, R, U, D multisets as sorted lists of int tuples) or 'CRASH' per cycle."""
    res = []
    for part in line.split(" | "):
        part = part.strip()
        if part in ("CRASH", "HANG"):
            res.append(part)
            continue
        f = part.split()
        d = {"M": f[0] == "M1", "F": f[1] == "F1", "X": " X " in (" " + part + " ")}

        def items(s):
            return [] if s == "-" else sorted(tuple(int(x) for x in it.split(":")) for it in s.split(","))
        d["R"] = items(f[3])
        d["U"] = items(f[5])
        d["D"] = items(f[7])
        res.append(d)
    return res


def project_c11(line):
    """what C11 compares per cycle: refresh attempted, flag, broker requests, broker-offset updates"""
    out = []
    for part in line.split(" | "):
        f = part.split()
        out.append(part if part.strip() in ("CRASH", "HANG") or len(f) < 8 else " ".join(f[0:6] + f[8:]))
    return " | ".join(out)


def project_c12(line):
    """what C12 compares per cycle: refresh attempted, deletions"""
    out = []
    for part in line.split(" | "):
        f = part.split()
        out.append(part if part.strip() in ("CRASH", "HANG") or len(f) < 8 else " ".join([f[0]] + f[6:8]))
    return " | ".join(out)


# ------------------------------------------------------------------------------------------------
# the properties' own oracle, evaluated on observed outputs
# ------------------------------------------------------------------------------------------------

def _leader(cyc, t, p):
    """client.Leader(t, p) as the REFRESH sees it (kafka_cluster.go:179)"""
    row = cyc["table"].get(t)
    if row is None or p not in row[2]:
        return None
    ld = row[2][p][0]
    return None if ld < 0 else ld


def _leader_req(cyc, t, p):
    """client.Leader(t, p) as generateOffsetRequests sees it (:219); the same unless the case is an sc3 one"""
    ld = cyc["ldreq"].get((t, p))
    return None if ld is None or ld < 0 else ld


def _answer(cyc, t, p):
    row = cyc["table"].get(t)
    if row is None or p not in row[2]:
        return (3, [])
    return row[2][p][1], row[2][p][2]


def _refreshed_snapshot(cyc):
    """metadata as a complete refresh of this cycle reads it, or None if a Topics/Partitions call fails"""
    if not cyc["topics_ok"] or not all(cyc["table"].get(t, (False,))[0] for t in cyc["topics"]):
        return None
    snap = {}
    for t in cyc["topics"]:
        parts = cyc["table"][t][1]
        snap[t] = ([p for p in parts if _leader(cyc, t, p) is not None], len(parts), parts == list(range(len(parts))))
    return snap


def _unknown_leader_at_refresh(cyc):
    """did a refresh of this cycle meet a partition without leader?  (topic by topic, until the first failing
    Partitions call, as maybeUpdateMetadataAndDeleteTopics walks the list)"""
    if not cyc["topics_ok"]:
        return False
    for t in cyc["topics"]:
        row = cyc["table"].get(t)
        if row is None or not row[0]:
            return False
        if any(_leader(cyc, t, p) is None for p in row[1]):
            return True
    return False


def _any_empty_answer(cyc):
    """some partition (or unasked block) that a reachable broker would answer with ErrNoError and no offset"""
    for t, (_, _, rows) in cyc["table"].items():
        for p, (_, err, offs) in rows.items():
            ld = _leader_req(cyc, t, p)
            if err == 0 and not offs and ld is not None and ld not in cyc["failing"]:
                return True
    return any(err == 0 and not offs and b not in cyc["failing"] for (b, _, _, err, offs) in cyc["extras"])


def _expect(cyc, snap, asked_brokers=()):
    """-> (requests, updates, unknown_leader, partition_error, undefined, tolerated, outside) for the partitions known
    to have a leader.  tolerated: (t, p, off) of successful blocks that brokers add unasked; outside: some answering
    broker omitted an asked block or added an unasked one -- the texts say nothing about such brokers."""
    want_r, want_u = set(), set()
    unknown_leader = partition_error = undefined = outside = False
    answering = set()
    for t, (ids, count, _) in snap.items():
        for p in ids:
            ld = _leader_req(cyc, t, p)
            if ld is None:
                unknown_leader = True
                continue
            want_r.add((ld, t, p))
            if ld in cyc["failing"]:
                continue
            answering.add(ld)
            if (t, p) in cyc["omit"]:
                outside = True
                continue                 # the broker did not answer this block: no answer, no update, no error
            err, offs = _answer(cyc, t, p)
            if err != 0:
                partition_error = True
            elif offs:
                want_u.add((t, p, offs[0], count))
            else:
                undefined = True     # ErrNoError without any offset: the texts say nothing (the implementation panics)
    answering |= {b for b in asked_brokers if b not in cyc["failing"]}
    tolerated = set()
    for (b, t, p, err, offs) in cyc["extras"]:
        if b in answering:
            outside = True
            if err == 0 and not offs:
                undefined = True
            elif err == 0:
                tolerated.add((t, p, offs[0]))
    return want_r, want_u, unknown_leader, partition_error, undefined, tolerated, outside


FINDING_LEADERLESS = "C11:leaderless-at-refresh"
TAG_LEADERLESS = "[leaderless-at-refresh] "


def oracle(case, out_line):
    f11, f12, _ = oracle_ex(case, out_line)
    return f11, f12


def oracle_ex(case, out_line):
    """-> (c11_failures, c12_failures, index of the first cycle in which a broker behaves in a way the texts do not cover:
    an ErrNoError block without any offset among the due answers, an asked block missing from a response, a block in a
    response that was not asked -- or None).  Evaluates what the texts of C11 and C12 require on one observed run, from the scripted environment alone plus
    the observation of *whether* metadata was re-read in a cycle (M).  Returns (c11_failures, c12_failures): lists of
    (cycle index, text).  State carried: the last completely refreshed metadata (ghost) and whether the previous
    cycle obliges a re-read.

    The storage side: U and D are what storage RECEIVED.  C12 ("reported to storage as deleted exactly once") is
    demanded whatever the storage side does (sd, su).  C11's "every successful answer produces exactly one update" is
    demanded in full only in cycles where the storage side was reading while the answers came in (su = 0: "storage
    took the request within the timeout"); with su = 1 only soundness is demanded (every update received is a due one,
    none twice).  The kafka-version never enters: the recorded offset must be the broker's answer for every legal
    configuration.  A failing RefreshMetadata call (rm) is not mentioned by the texts: the re-read may or may not be
    attempted then."""
    cycles = parse(case)
    obs = parse_out(out_line)
    f11, f12 = [], []
    undefined_at = None
    ghost = None          # topic -> (ids with a leader at refresh time, total partition count, ids are 0..n-1)
    must_refresh = True   # Start() reads metadata in the first cycle
    must_refresh_literal = False   # the previous cycle's refresh met a partition without leader (an "unknown leader")
    for i, cyc in enumerate(cycles):
        if i >= len(obs):
            f11.append((i, "no output for this cycle"))
            break
        o = obs[i]
        if o == "HANG":
            f11.append((i, "the module stopped taking ticks (getOffsets did not return within 45 s): no cycle, no update"))
            break
        if o == "CRASH":
            cands = [ghost or {}]
            if _refreshed_snapshot(cyc) is not None:
                cands.append(_refreshed_snapshot(cyc))
            if not any(_expect(cyc, sn)[4] for sn in cands) and not _any_empty_answer(cyc):
                f11.append((i, "implementation crashed in a cycle without an empty successful answer"))
            else:
                undefined_at = i
            break
        if o["X"]:
            f11.append((i, "unexpected storage request / request block not for the newest offset / reaper misbehaviour"))
        if must_refresh and not o["M"] and not cyc["rm"]:
            f11.append((i, "metadata not re-read although the previous cycle saw a partition error / an unknown leader in "
                           "generateOffsetRequests (or this is the first cycle)"))
        elif must_refresh_literal and not o["M"] and not cyc["rm"]:
            f11.append((i, TAG_LEADERLESS + "metadata not re-read although the previous cycle's refresh met a partition "
                           "without leader (\"an unknown leader causes cluster metadata to be re-read on the next cycle\")"))
        new = _refreshed_snapshot(cyc) if o["M"] else None
        # C12: deletions exactly = topics of the last complete refresh that a complete refresh of this cycle lacks
        want_d = []
        if new is not None and ghost is not None:
            want_d = sorted((t,) for t in ghost if t not in new)
        if o["D"] != want_d:
            f12.append((i, "storage received SetDeleteTopic %s, the property requires %s (complete refresh in this cycle: %s%s)"
                        % (o["D"], want_d, new is not None,
                           "; storage was busy for 1.5 s at the start of the cycle" if cyc["sd"] else "")))
        if new is not None:
            ghost = new
        snap = ghost or {}
        # C11: exactly the current leaders of the partitions known to have one are asked; answers <-> updates
        want_r, want_u, unknown_leader, partition_error, undefined, tolerated, outside = \
            _expect(cyc, snap, {r[0] for r in o["R"]})
        if outside and undefined_at is None:
            undefined_at = i      # the oracle goes on (it knows what to tolerate); the comparison with the model does not count from here
        # the partitions known to have a leader must be asked (of their current leader); whatever else is asked must
        # also be asked of the broker Leader names now, no partition twice.  (An implementation that resolves more
        # partitions than the last metadata read knew is closer to the text, not further.)
        missing = sorted(want_r - set(o["R"]))
        wrong = sorted(r for r in o["R"] if _leader_req(cyc, r[1], r[2]) != r[0])
        twice = len({(r[1], r[2]) for r in o["R"]}) != len(o["R"])
        if missing or wrong or twice:
            f11.append((i, "broker requests %s: not asked %s, asked of somebody who is not the current leader %s%s; required at least %s"
                        % (o["R"], missing, wrong, ", a partition asked twice" if twice else "", sorted(want_r))))
        # Requests beyond the known-leader set: their successful answers are answers too and must be recorded; as count
        # both the module's last complete read and the current partition list are "the topic's total partition count".
        want_more = {}
        for (b, t, p) in sorted(set(o["R"]) - want_r):
            if missing or wrong or twice or b in cyc["failing"] or (t, p) in cyc["omit"]:
                continue
            err, offs = _answer(cyc, t, p)
            row = cyc["table"].get(t)
            if err == 0 and offs and row is not None:
                want_more[(t, p, offs[0])] = {len(row[1])} | ({snap[t][1]} if t in snap else set())
            elif err == 0 and not offs:
                undefined = True
        if undefined:
            undefined_at = i if undefined_at is None else undefined_at
            break   # the texts say nothing about what follows
        got_u = [u for u in o["U"] if u in want_u or (u[0], u[1], u[2]) not in tolerated]
        more_seen = {(u[0], u[1], u[2]) for u in got_u if u not in want_u and u[3] in want_more.get((u[0], u[1], u[2]), ())}
        core_u = [u for u in got_u if (u[0], u[1], u[2]) not in more_seen or u in want_u]
        if cyc["su"]:
            extra = [u for u in core_u if u not in want_u]
            if extra or len(set(got_u)) != len(got_u):
                f11.append((i, "storage (not reading in time) received SetBrokerOffset %s; only %s were due, each at most once"
                            % (o["U"], sorted(want_u) + sorted(want_more))))
        elif core_u != sorted(want_u) or more_seen != set(want_more) or len(set((u[0], u[1]) for u in got_u)) != len(got_u):
            f11.append((i, "SetBrokerOffset %s, the property requires %s%s (kafka-version %s)"
                        % (got_u, sorted(want_u), (" and " + str(sorted(want_more))) if want_more else "",
                           KAFKA_VERSIONS[cyc["kv"]] or "(default)")))
        for (t, p, off, count) in got_u:
            if t in snap and snap[t][2] and not 0 <= p < count:
                f11.append((i, "update for partition %d with TopicPartitionCount %d" % (p, count)))
        must_refresh = unknown_leader or partition_error
        must_refresh_literal = bool(o["M"]) and _unknown_leader_at_refresh(cyc)
        if must_refresh and not o["F"]:
            f11.append((i, "fetchMetadata not set after a partition error / unknown leader"))
    return f11, f12, undefined_at


def first_difference(a, b, project):
    """index of the first cycle in which the projected outputs differ"""
    pa, pb = project(a).split(" | "), project(b).split(" | ")
    for i, (x, y) in enumerate(zip(pa, pb)):
        if x != y:
            return i
    return min(len(pa), len(pb))


def split_failures(case, out_line, which):
    """-> (failures that count, failures that are the recorded finding C11:leaderless-at-refresh)"""
    f11, f12 = oracle(case, out_line)
    if which == 12:
        return f12, []
    return ([x for x in f11 if not x[1].startswith(TAG_LEADERLESS)], [x for x in f11 if x[1].startswith(TAG_LEADERLESS)])


def kinds_of(cycles):
    """structural description used for the evidence distribution"""
    nt = len({t for c in cycles for t in c["table"]} | {t for c in cycles for t in c["topics"]})
    nb = len({ld for c in cycles for (_, _, rows) in c["table"].values() for (ld, _, _) in rows.values() if ld >= 0})
    return nt, nb


# ------------------------------------------------------------------------------------------------
# the check shared by c11.py / c12.py (they differ in projection, generator bias and which oracle half decides)
# ------------------------------------------------------------------------------------------------

def run_check(chk, failed, which):
    import common as C
    pid = chk.pid
    project = project_c11 if which == 11 else project_c12
    bias = None if which == 11 else "topics"
    n = (5000 if which == 11 else 4000) if not chk.thorough else 150000
    n_stall = 96 if not chk.thorough else 1000
    n_wire = (64 if which == 11 else 32) if not chk.thorough else 800
    n_dev = ((1000 if which == 11 else 300) if not chk.thorough else 30000)
    stall_p = (0.25, 0.5) if which == 11 else (0.6, 0.15)     # (p of sd, p of su) per cycle
    cases, tags = [], []
    for ln in C.read_corpus(pid):
        cases.append(ln)
        tags.append({"corpus"})
    for i in range(n_stall):
        ln, tg = gen_scenario(chk.rng, i, bias="topics", mode="stall", stall=stall_p)
        cases.append(ln)
        tags.append(tg)
    for i in range(n_wire):
        ln, tg = gen_scenario(chk.rng, i, bias=bias, mode="wire")
        cases.append(ln)
        tags.append(tg)
    for i in range(n):
        ln, tg = gen_scenario(chk.rng, i, bias=bias, crash_p=(0.012 if which == 11 else 0.003))
        cases.append(ln)
        tags.append(tg)
    for i in range(n_dev):
        ln, tg = gen_scenario(chk.rng, i, bias=bias, crash_p=0.005, mode="deviant")
        cases.append(ln)
        tags.append(tg)
    chk.rule = (
        "scenarios of 1..6 consecutive cycles of a fresh module configured by the real Configure (client-profile "
        "kafka-version drawn from 19 legal strings, 0.8 .. 3.6.0 and unset), cycle 0 as Start() runs it, later cycles through "
        "the real mainLoop with scripted tickers: 1-4 topics x 1-6 partitions, 1-3 brokers, each "
        "partition leaderless with p=0.2; per cycle, each with p~0.15: Topics() failure, Partitions() failure, transient "
        "Leader() failure, GetAvailableOffsets failure, per-partition KError; RefreshMetadata error and a groups-reaper run "
        "with p=0.08; between cycles: leader change/loss/gain, "
        "topics appearing / vanishing / re-appearing / losing all leaders, partitions added; metadata ticker per the case"
        + ("; C12 bias: topic-set trajectories (vanish 0.25, re-appear 0.5, tick 0.7, refresh faults 0.2)" if which == 12 else
           "; 1.2% of the scenarios script an ErrNoError answer without offsets (child process, CRASH compared)")
        + "; %d storage-stall scenarios (unbuffered storage channel, real time: the storage side takes nothing for 1.5 s at the "
          "start of a cycle with p=%.2f / takes nothing while broker answers arrive with p=%.2f; topic-set bias) and %d wire "
          "scenarios (real BurrowSaramaClient + sarama.Client against sarama.MockBroker: every answer goes through sarama's "
          "encoder/decoder in the version of the request; 1-5 cycles, a broker id re-registering under a new address between "
          "cycles with p=0.4, the real groups reaper / ListConsumerGroups between cycles with p=0.4 for kafka-versions "
          "0.11 .. 2.1)" % (n_stall, stall_p[0], stall_p[1], n_wire)
        + "; %d scenarios in worlds outside the model's two environment assumptions (kind sc3, ClusterMod.xrun): Leader "
          "answering differently during the refresh and in generateOffsetRequests (p=0.1 per partition and cycle), brokers "
          "omitting asked blocks (p=0.06) or adding unasked ones (p=0.15 per cycle)" % n_dev
        + ". non-trivial = at least one fault, topology change or storage stall in the scenario; distinct by the case line")
    impl, model, mism = chk.differential("cluster", "cluster", "TestVerifProbeCluster", cases,
                                         name="scn%d" % which, project=project)
    # The stall and wire scenarios run in real time (1 s timeouts, TCP on localhost): a mismatch there is re-run once
    # on its own and only counts when it shows again.
    timing = [i for (i, c, a, b) in mism if c.split(None, 1)[0] in ("sc2s", "sc2w")]
    if timing:
        impl2, model2, mism2 = chk.differential("cluster", "cluster", "TestVerifProbeCluster", [cases[i] for i in timing],
                                                name="rerun%d" % which, project=project)
        still = {timing[j] for (j, _, _, _) in mism2}
        for j, i in enumerate(timing):
            impl[i] = impl2[j]
        chk.notes.append("%d real-time scenario(s) mismatched in the big run and were re-run on their own: %d still mismatch"
                         % (len(timing), len(still)))
        mism = [(i, c, impl[i], b) for (i, c, a, b) in mism if i not in timing or i in still]
    # An ErrNoError block without any offset is outside both texts (the model, like HEAD, dies on Offsets[0]); so is a
    # broker that omits an asked block or answers blocks nobody asked for (the model does what HEAD does: silence /
    # an update with cap(unknown slice) as count).  A difference that begins in such a cycle is recorded, not reported.
    tolerated = []
    for m in mism:
        u = oracle_ex(m[1], m[2])[2]
        if u is not None and first_difference(m[2], m[3], project) >= u:
            tolerated.append(m)
    if tolerated:
        mism = [m for m in mism if m not in tolerated]
        chk.count("tolerated:differs-from-the-model-only-after-a-broker-left-the-texts", len(tolerated))
        chk.notes.append("%d case(s) differ from the model only from a cycle on in which a broker answered ErrNoError without "
                         "any offset, omitted an asked block or added an unasked one (the property texts do not cover such brokers): "
                         "first: %s -> impl %s / model %s" % (len(tolerated), tolerated[0][1], tolerated[0][2], tolerated[0][3]))
    n_orc_fail = n_known = 0
    first_orc = first_known = None
    for i, (c, tg, a) in enumerate(zip(cases, tags, impl)):
        cyc = parse(c)
        if any(not x.startswith("kafka-version:") for x in tg - {"corpus"}):
            chk.nontrivial.add(C.case_hash(c))
        else:
            chk.count("plain (no fault, no change)")
        for t in sorted(tg):
            chk.count(t)
        chk.count("cycles:%d" % len(cyc))
        chk.count("kind:" + c.split(None, 1)[0])
        obs0 = parse_out(a)
        for cy, o in zip(cyc, obs0):
            if isinstance(o, dict):
                if cy["sd"] and o["D"]:
                    chk.count("cycle:storage-stall-while-a-deletion-is-due")
                if cy["su"] and o["R"]:
                    chk.count("cycle:no-storage-reader-while-brokers-answer")
                if cy["rp"]:
                    chk.count("cycle:reaper-run" + (" (wire: real ListConsumerGroups)" if c.startswith("sc2w") else ""))
                if cy["mv"] and any(r[0] == cy["mv"] for r in o["R"]):
                    chk.count("cycle:wire-broker-asked-at-its-new-address")
        nt, nb = kinds_of(cyc)
        chk.count("topics:%d" % nt)
        chk.count("brokers:%d" % nb)
        obs = parse_out(a)
        if any(o == "CRASH" for o in obs):
            chk.count("impl:CRASH")
        elif any(o == "HANG" for o in obs):
            chk.count("impl:HANG")
        else:
            if any(o["D"] for o in obs):
                chk.count("impl:some-deletion")
            if any(o["U"] for o in obs):
                chk.count("impl:some-update")
            if any(o["F"] for o in obs):
                chk.count("impl:refresh-forced")
        fl, kn = split_failures(c, a, which)
        if kn:
            n_known += 1
            chk.count("known-finding:" + FINDING_LEADERLESS)
            if first_known is None:
                first_known = (i, kn)
        if fl:
            n_orc_fail += 1
            if first_orc is None:
                first_orc = (i, fl)
    for i in (0, len(cases) // 3, (2 * len(cases)) // 3, len(cases) - 1):
        chk.sample({"case": cases[i], "impl": impl[i], "model": model[i], "tags": sorted(tags[i])})

    probe = "cluster/TestVerifProbeCluster"
    corr = "corr:cluster.getOffsets" if which == 11 else "corr:cluster.maybeUpdateMetadataAndDeleteTopics"
    reported = 0
    # mismatching cases first: does the property's own oracle reject the implementation's output there?
    for (i, c, a, b) in mism:
        fl, _ = split_failures(c, a, which)
        if fl and reported < 5:
            reported += 1
            chk.violation("scn_%d" % i, {"kind": "history", "probe": probe, "case": c, "impl_output": a, "model_output": b,
                                         "broken": corr, "oracle_verdict": ["cycle %d: %s" % x for x in fl],
                                         "cmd": "bin/check %s --replay <this file>" % pid})
    # then every other case (the oracle is cheap: all outputs of this run were evaluated above)
    if not reported and first_orc is not None:
        i, fl = first_orc
        reported += 1
        chk.violation("scn_%d" % i, {"kind": "history", "probe": probe, "case": cases[i], "impl_output": impl[i],
                                     "model_output": model[i], "broken": corr,
                                     "oracle_verdict": ["cycle %d: %s" % x for x in fl],
                                     "cmd": "bin/check %s --replay <this file>" % pid})
    if mism and not reported:
        # focused batch around the mismatch: same generator, 20x, oracle on the implementation only
        extra = [gen_scenario(chk.rng, j, bias=bias)[0] for j in range(20 * min(n, 1000))]
        extra += [gen_scenario(chk.rng, j, bias="topics", mode="stall", stall=stall_p)[0] for j in range(200)]
        extra += [gen_scenario(chk.rng, j, bias=bias, mode="wire")[0] for j in range(200)]
        impl2, model2, mism2 = chk.differential("cluster", "cluster", "TestVerifProbeCluster", extra,
                                                name="focus%d" % which, project=project)
        for j, (c, a) in enumerate(zip(extra, impl2)):
            fl, _ = split_failures(c, a, which)
            if fl:
                reported += 1
                chk.violation("focus_%d" % j, {"kind": "history", "probe": probe, "case": c, "impl_output": a,
                                               "model_output": model2[j], "broken": corr,
                                               "oracle_verdict": ["cycle %d: %s" % x for x in fl]})
                break
    if mism and not reported:
        i, c, a, b = mism[0]
        chk.violation("scn_%d" % i, {"kind": "correspondence", "probe": probe, "case": c, "impl_output": a, "model_output": b,
                                     "broken": corr, "mismatches": len(mism),
                                     "oracle_verdict": "the property oracle accepts the implementation's output on every case tried; "
                                                       "the model no longer describes the implementation"}, found_input=False)
    if failed and not mism and not reported:
        chk.violation("obligation", {"kind": "theorem", "broken": [nm for nm, _ in failed],
                                     "detail": [d for _, d in failed]}, found_input=False)
    # The recorded, unrepaired defect: a partition without leader at a metadata read does not force the next read.
    if n_known:
        i, kn = first_known
        if chk.known_finding(FINDING_LEADERLESS):
            chk.notes.append("known finding %s: the literal text rejects %d of %d cases for this reason only; first: %s -> %s (%s)"
                             % (FINDING_LEADERLESS, n_known, len(cases), cases[i], impl[i], kn[0][1]))
        else:
            chk.violation("leaderless_at_refresh_%d" % i,
                          {"kind": "history", "probe": probe, "case": cases[i], "impl_output": impl[i], "model_output": model[i],
                           "broken": "C11 clause 4, literal: an unknown leader causes cluster metadata to be re-read on the next cycle",
                           "finding_key": FINDING_LEADERLESS, "cases_rejected_for_this_reason": n_known,
                           "oracle_verdict": ["cycle %d: %s" % x for x in kn],
                           "note": "this is the recorded finding of findings/C11.json; it is reported as a violation because "
                                   "known_findings.json does not list the key (run bin/merge-findings)",
                           "cmd": "bin/check %s --replay <this file>" % pid})
    chk.notes.append("oracle (property text on the implementation's output) rejected %d of %d cases (not counting the %d known-finding cases)"
                     % (n_orc_fail, len(cases), n_known))
    chk.assumptions += [
        "the run-level theorems are about worlds with the two NAMED properties leader_stable (Leader answers the same during the refresh and in generateOffsetRequests of one cycle) and answers_match_asks (a response holds exactly the asked blocks); the general cycle xcycle / xrun drops both, is tied by the sc3 cases and has its own one-cycle theorems (C11_x*)",
        "Topics/Partitions answer consistently within one cycle; Sarama returns duplicate-free topic and partition lists (the model and the probe agree on duplicates anyway)",
        "C11 clauses 1 and 4 in their literal reading are refuted for HEAD (known finding C11:leaderless-at-refresh; C11_*_refuted); the cases the literal oracle rejects for this reason only are counted under known-finding:*",
        "storage side: the model states per offered broker-offset update whether storage takes it within the 1 s of TimeoutSendStorageRequest (storage_beh); the tie exercises the two constant behaviours (always in time / nobody reading while the brokers' answers arrive) and a 1.5 s stall at the start of a cycle; partial stalls (some updates of a cycle lost, which ones depends on Go map order) are covered by the theorems only",
        "C11 'every successful answer produces exactly one update' is proved and checked under the named hypothesis storage_in_time (storage took the request within the timeout); without it only soundness (nothing fabricated, stale or doubled)",
        "the request version is not in the model: the scripted broker answers in the wire format of the version it is asked in (v0: Offsets only; v1+: Offset/Timestamp, Offsets=[Offset]) and refuses versions the configured kafka-version lacks; the wire scenarios check that this is what sarama really does",
        "RefreshMetadata errors are ignored by the module (and the model); the groups reaper does not touch the refresh state (checked: a reaper run between cycles changes nothing the model predicts)",
        "an ErrNoError block without offsets makes getOffsets panic (modelled as Crash, compared through a child process); the property texts do not cover such a broker",
        "count_bounds_partition assumes Kafka's contiguous partition ids (every id returned by Partitions(t) is in [0, len))",
    ]


def replay(path, which):
    """bin/check Cxx --replay FILE: re-runs the recorded case on the implementation and the model, prints both and the oracle."""
    import json
    import common as C
    import framework
    obj = json.load(open(path))
    case = obj.get("case")
    if not case:
        print("replay file has no case (theorem-level failure): %s" % obj.get("broken"))
        return 1
    chk = framework.Check("C%d" % which, "quick", int(obj.get("seed", 1)))
    impl, model, mism = chk.differential("cluster", "cluster", "TestVerifProbeCluster", [case], name="replay")
    fl, kn = split_failures(case, impl[0], which)
    print("case  : %s\nimpl  : %s\nmodel : %s\noracle: %s" % (case, impl[0], model[0], fl or "accepts"))
    if kn:
        print("known finding %s: %s" % (FINDING_LEADERLESS, kn))
    return 1 if (mism or fl or (kn and obj.get("finding_key") == FINDING_LEADERLESS)) else 0
