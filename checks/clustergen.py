"""Generators, parser and property oracle for the cluster layer (C11 broker offsets, C12 topic deletion).

A scenario is 1..6 consecutive refresh cycles of one Kafka cluster module.  Case line (see ocaml/drv_cluster.ml):

  scn|scnx <ncycles> { <tick> <topics_ok> <k> <topic>*k
                       <nT> { <topic> <parts_ok> <np> { <pid> <leader|-1> <kerror> <noffs> <off>* } }
                       <nF> <failing broker>* }

`scnx` = some scripted answer has ErrNoError and no offsets (the implementation may panic; the probe runs those in a
child process).  Output line: cycles joined by " | ", each
  M<refresh attempted> F<fetchMetadata after> R <b:t:p,..|-> U <t:p:off:count,..|-> D <t,..|->     or CRASH
"""

KERRORS = [3, 6, 5, 1, -1, 9, 7, 43]
I64MAX = 2 ** 63 - 1


# ------------------------------------------------------------------------------------------------
# generation
# ------------------------------------------------------------------------------------------------

def _new_topic(rng, nb, np_=None):
    n = np_ if np_ is not None else rng.choice([1, 1, 2, 2, 3, 3, 4, 5, 6])
    base = rng.choice([0, 1, 1000, 10 ** 6, rng.randrange(0, 10 ** 12), 2 ** 62, I64MAX - 10 ** 6])
    return {
        "present": True,
        "ids": list(range(n)),
        "leader": {p: (None if rng.random() < 0.2 else rng.randrange(1, nb + 1)) for p in range(n)},
        "off": {p: base + rng.randrange(0, 1000) for p in range(n)},
        "keep_rows": False,
    }


def gen_scenario(rng, idx, force=None, bias=None, crash_p=0.01):
    """Returns (case line, tags).  tags: set of fault / topology-change kinds present in the scenario.
    bias="topics": topic-set trajectories (more vanishing / re-appearing topics, more refresh faults and ticks)."""
    tags = set()
    tb = bias == "topics"
    ntop = rng.randint(1, 4)
    nb = rng.randint(1, 3)
    world = {}
    for t in range(1, ntop + 1):
        world[t] = _new_topic(rng, nb)
        if rng.random() < 0.15:
            world[t]["present"] = False     # will (perhaps) appear later
    ncyc = rng.randint(1, 6)
    weird = rng.random() < 0.04
    crash_cycle = None
    if force == "crash" or (force is None and rng.random() < crash_p):
        crash_cycle = rng.randrange(0, ncyc)
    cycles = []
    for c in range(ncyc):
        # ---- topology changes since the last cycle
        if c > 0:
            for t, tw in world.items():
                if tw["present"]:
                    r = rng.random()
                    if r < (0.25 if tb else 0.12):
                        tw["present"] = False
                        tw["keep_rows"] = rng.random() < 0.5
                        tags.add("topic-vanishes")
                    elif r < (0.35 if tb else 0.20):
                        for p in tw["ids"]:
                            tw["leader"][p] = None
                        tags.add("topic-loses-all-leaders")
                    elif r < (0.40 if tb else 0.28) and len(tw["ids"]) < 6:
                        p = len(tw["ids"])
                        tw["ids"].append(p)
                        tw["leader"][p] = None if rng.random() < 0.2 else rng.randrange(1, nb + 1)
                        tw["off"][p] = rng.randrange(0, 1000)
                        tags.add("partition-added")
                    for p in tw["ids"]:
                        r = rng.random()
                        if r < 0.12:
                            old = tw["leader"][p]
                            tw["leader"][p] = rng.randrange(1, nb + 1)
                            if old != tw["leader"][p]:
                                tags.add("leader-gained" if old is None else "leader-change")
                        elif r < 0.17:
                            if tw["leader"][p] is not None:
                                tags.add("leader-lost")
                            tw["leader"][p] = None
                else:
                    if rng.random() < (0.5 if tb else 0.35):
                        was = tw.get("ever", False)
                        nw = _new_topic(rng, nb) if rng.random() < 0.5 else None
                        if nw is not None:
                            world[t] = nw
                            tw = nw
                        tw["present"] = True
                        tags.add("topic-reappears" if was else "topic-appears")
        for t, tw in world.items():
            if tw["present"]:
                tw["ever"] = True
            for p in tw["ids"]:
                tw["off"][p] = min(I64MAX, tw["off"][p] + rng.choice([0, 1, 5, 100, 10 ** 4]))
        # ---- faults of this cycle
        tick = 1 if (rng.random() < (0.85 if c == 0 else (0.7 if tb else 0.4))) else 0
        topics_ok = 1
        if rng.random() < (0.2 if tb else 0.15):
            topics_ok = 0
            tags.add("fault:topic-list")
        parts_fail = set()
        if rng.random() < (0.2 if tb else 0.15):
            parts_fail.add(rng.randint(1, ntop))
            tags.add("fault:partition-list")
        all_tp = [(t, p) for t, tw in world.items() for p in tw["ids"]]
        leader_fail = set()
        if all_tp and rng.random() < 0.15:
            for _ in range(rng.choice([1, 1, 2])):
                leader_fail.add(rng.choice(all_tp))
            tags.add("fault:leader-lookup")
        failing = []
        if rng.random() < 0.15:
            failing = sorted(set(rng.randrange(1, nb + 1) for _ in range(rng.choice([1, 1, 2]))))
            tags.add("fault:broker-call")
        part_err = {}
        if all_tp and rng.random() < 0.15:
            for _ in range(rng.choice([1, 1, 2, 3])):
                part_err[rng.choice(all_tp)] = rng.choice(KERRORS)
            tags.add("fault:partition-error")
        empty = None
        if crash_cycle == c and all_tp:
            empty = rng.choice(all_tp)
            tags.add("fault:empty-offsets")
        # ---- the cycle's tables
        tlist = [t for t, tw in world.items() if tw["present"]]
        rng.shuffle(tlist)
        if weird and tlist and rng.random() < 0.5:
            tlist.append(rng.choice(tlist))
            tags.add("weird:duplicate-topic")
        toks = [str(tick), str(topics_ok), str(len(tlist))] + [str(t) for t in tlist]
        rows = []
        for t, tw in world.items():
            if not tw["present"] and not tw["keep_rows"]:
                continue
            ids = list(tw["ids"])
            if weird and rng.random() < 0.3:
                if rng.random() < 0.5:
                    ids.append(rng.choice(ids))
                    tags.add("weird:duplicate-partition")
                else:
                    ids = [p for p in ids if p != 0] or ids
                    tags.add("weird:gap-in-partition-ids")
            rt = [str(t), "0" if t in parts_fail else "1", str(len(ids))]
            for p in ids:
                ld = tw["leader"][p]
                if (t, p) in leader_fail:
                    ld = None
                if not tw["present"] and rng.random() < 0.5:
                    ld = None
                err = part_err.get((t, p), 0)
                if not tw["present"] and err == 0 and rng.random() < 0.6:
                    err = 3
                offs = [tw["off"][p]]
                if rng.random() < 0.05:
                    offs.append(rng.randrange(0, 1000))
                if empty == (t, p):
                    offs, err = [], 0
                elif err != 0 and rng.random() < 0.7:
                    offs = []
                rt += [str(p), str(-1 if ld is None else ld), str(err), str(len(offs))] + [str(o) for o in offs]
            rows.append(rt)
        toks += [str(len(rows))]
        for rt in rows:
            toks += rt
        toks += [str(len(failing))] + [str(b) for b in failing]
        cycles.append(toks)
    body = [str(ncyc)]
    for toks in cycles:
        body += toks
    line = " ".join(body)
    kind = "scnx" if may_panic(parse("scn " + line)) else "scn"
    return kind + " " + line, tags


# ------------------------------------------------------------------------------------------------
# parsing (shared by the oracle)
# ------------------------------------------------------------------------------------------------

def parse(line):
    f = line.split()
    pos = [1]

    def nx():
        v = f[pos[0]]
        pos[0] += 1
        return v

    cycles = []
    for _ in range(int(nx())):
        cyc = {"tick": nx() == "1", "topics_ok": nx() == "1"}
        cyc["topics"] = [int(nx()) for _ in range(int(nx()))]
        table = {}
        for _ in range(int(nx())):
            t = int(nx())
            ok = nx() == "1"
            parts, rows = [], {}
            for _ in range(int(nx())):
                p = int(nx())
                ld = int(nx())
                err = int(nx())
                offs = [int(nx()) for _ in range(int(nx()))]
                parts.append(p)
                rows.setdefault(p, (ld, err, offs))
            table.setdefault(t, (ok, parts, rows))
        cyc["table"] = table
        cyc["failing"] = set(int(nx()) for _ in range(int(nx())))
        cycles.append(cyc)
    assert pos[0] == len(f), "trailing tokens in case line"
    return cycles


def may_panic(cycles):
    return any(err == 0 and not offs for c in cycles for (_, _, rows) in c["table"].values() for (_, err, offs) in rows.values())


def parse_out(line):
    """-> list of dicts (M, F, R, U, D multisets as sorted lists of int tuples) or 'CRASH' per cycle."""
    res = []
    for part in line.split(" | "):
        part = part.strip()
        if part == "CRASH":
            res.append("CRASH")
            continue
        f = part.split()
        d = {"M": f[0] == "M1", "F": f[1] == "F1", "X": " X " in (" " + part + " ")}

        def items(s):
            return [] if s == "-" else sorted(tuple(int(x) for x in it.split(":")) for it in s.split(","))
        d["R"] = items(f[3])
        d["U"] = items(f[5])
        d["D"] = items(f[7])
        res.append(d)
    return res


def project_c11(line):
    """what C11 compares per cycle: refresh attempted, flag, broker requests, broker-offset updates"""
    out = []
    for part in line.split(" | "):
        f = part.split()
        out.append(part if part.strip() == "CRASH" or len(f) < 8 else " ".join(f[0:6] + f[8:]))
    return " | ".join(out)


def project_c12(line):
    """what C12 compares per cycle: refresh attempted, deletions"""
    out = []
    for part in line.split(" | "):
        f = part.split()
        out.append(part if part.strip() == "CRASH" or len(f) < 8 else " ".join([f[0]] + f[6:8]))
    return " | ".join(out)


# ------------------------------------------------------------------------------------------------
# the properties' own oracle, evaluated on observed outputs
# ------------------------------------------------------------------------------------------------

def _leader(cyc, t, p):
    row = cyc["table"].get(t)
    if row is None or p not in row[2]:
        return None
    ld = row[2][p][0]
    return None if ld < 0 else ld


def _answer(cyc, t, p):
    row = cyc["table"].get(t)
    if row is None or p not in row[2]:
        return (3, [])
    return row[2][p][1], row[2][p][2]


def _refreshed_snapshot(cyc):
    """metadata as a complete refresh of this cycle reads it, or None if a Topics/Partitions call fails"""
    if not cyc["topics_ok"] or not all(cyc["table"].get(t, (False,))[0] for t in cyc["topics"]):
        return None
    snap = {}
    for t in cyc["topics"]:
        parts = cyc["table"][t][1]
        snap[t] = ([p for p in parts if _leader(cyc, t, p) is not None], len(parts), parts == list(range(len(parts))))
    return snap


def _expect(cyc, snap):
    """-> (requests, updates, unknown_leader, partition_error, undefined) for the partitions known to have a leader"""
    want_r, want_u = set(), set()
    unknown_leader = partition_error = undefined = False
    for t, (ids, count, _) in snap.items():
        for p in ids:
            ld = _leader(cyc, t, p)
            if ld is None:
                unknown_leader = True
                continue
            want_r.add((ld, t, p))
            if ld in cyc["failing"]:
                continue
            err, offs = _answer(cyc, t, p)
            if err != 0:
                partition_error = True
            elif offs:
                want_u.add((t, p, offs[0], count))
            else:
                undefined = True     # ErrNoError without any offset: the texts say nothing (the implementation panics)
    return want_r, want_u, unknown_leader, partition_error, undefined


def oracle(case, out_line):
    """Evaluates what the texts of C11 and C12 require on one observed run, from the scripted environment alone plus
    the observation of *whether* metadata was re-read in a cycle (M).  Returns (c11_failures, c12_failures): lists of
    (cycle index, text).  State carried: the last completely refreshed metadata (ghost) and whether the previous
    cycle obliges a re-read."""
    cycles = parse(case)
    obs = parse_out(out_line)
    f11, f12 = [], []
    ghost = None          # topic -> (ids with a leader at refresh time, total partition count, ids are 0..n-1)
    must_refresh = True   # Start() reads metadata in the first cycle
    for i, cyc in enumerate(cycles):
        if i >= len(obs):
            f11.append((i, "no output for this cycle"))
            break
        o = obs[i]
        if o == "CRASH":
            cands = [ghost or {}]
            if _refreshed_snapshot(cyc) is not None:
                cands.append(_refreshed_snapshot(cyc))
            if not any(_expect(cyc, sn)[4] for sn in cands):
                f11.append((i, "implementation crashed in a cycle without an empty successful answer"))
            break
        if o["X"]:
            f11.append((i, "unexpected storage request / request block shape"))
        if (must_refresh or cyc["tick"]) and not o["M"]:
            f11.append((i, "metadata not re-read although the ticker fired or the previous cycle saw an error / unknown leader"))
        new = _refreshed_snapshot(cyc) if o["M"] else None
        # C12: deletions exactly = topics of the last complete refresh that a complete refresh of this cycle lacks
        want_d = []
        if new is not None and ghost is not None:
            want_d = sorted((t,) for t in ghost if t not in new)
        if o["D"] != want_d:
            f12.append((i, "SetDeleteTopic %s, the property requires %s (complete refresh in this cycle: %s)"
                        % (o["D"], want_d, new is not None)))
        if new is not None:
            ghost = new
        snap = ghost or {}
        # C11: exactly the current leaders of the partitions known to have one are asked; answers <-> updates
        want_r, want_u, unknown_leader, partition_error, undefined = _expect(cyc, snap)
        if o["R"] != sorted(want_r):
            f11.append((i, "broker requests %s, the property requires %s" % (o["R"], sorted(want_r))))
        if undefined:
            break   # the texts say nothing about what follows
        if o["U"] != sorted(want_u):
            f11.append((i, "SetBrokerOffset %s, the property requires %s" % (o["U"], sorted(want_u))))
        for (t, p, off, count) in o["U"]:
            if t in snap and snap[t][2] and not 0 <= p < count:
                f11.append((i, "update for partition %d with TopicPartitionCount %d" % (p, count)))
        must_refresh = unknown_leader or partition_error
        if must_refresh and not o["F"]:
            f11.append((i, "fetchMetadata not set after a partition error / unknown leader"))
    return f11, f12


def kinds_of(cycles):
    """structural description used for the evidence distribution"""
    nt = len({t for c in cycles for t in c["table"]} | {t for c in cycles for t in c["topics"]})
    nb = len({ld for c in cycles for (_, _, rows) in c["table"].values() for (ld, _, _) in rows.values() if ld >= 0})
    return nt, nb


# ------------------------------------------------------------------------------------------------
# the check shared by c11.py / c12.py (they differ in projection, generator bias and which oracle half decides)
# ------------------------------------------------------------------------------------------------

def run_check(chk, failed, which):
    import common as C
    pid = chk.pid
    project = project_c11 if which == 11 else project_c12
    bias = None if which == 11 else "topics"
    n = (5000 if which == 11 else 4000) if not chk.thorough else 150000
    cases, tags = [], []
    for ln in C.read_corpus(pid):
        cases.append(ln)
        tags.append({"corpus"})
    for i in range(n):
        ln, tg = gen_scenario(chk.rng, i, bias=bias, crash_p=(0.012 if which == 11 else 0.003))
        cases.append(ln)
        tags.append(tg)
    chk.rule = (
        "scenarios of 1..6 consecutive getOffsets cycles on a fresh module: 1-4 topics x 1-6 partitions, 1-3 brokers, each "
        "partition leaderless with p=0.2; per cycle, each with p~0.15: Topics() failure, Partitions() failure, transient "
        "Leader() failure, GetAvailableOffsets failure, per-partition KError; between cycles: leader change/loss/gain, "
        "topics appearing / vanishing / re-appearing / losing all leaders, partitions added; metadata ticker per the case"
        + ("; C12 bias: topic-set trajectories (vanish 0.25, re-appear 0.5, tick 0.7, refresh faults 0.2)" if which == 12 else
           "; 1.2% of the scenarios script an ErrNoError answer without offsets (child process, CRASH compared)")
        + ". non-trivial = at least one fault or topology change in the scenario (tag set non-empty); distinct by the case line")
    impl, model, mism = chk.differential("cluster", "cluster", "TestVerifProbeCluster", cases,
                                         name="scn%d" % which, project=project)
    n_orc_fail = 0
    first_orc = None
    for i, (c, tg, a) in enumerate(zip(cases, tags, impl)):
        cyc = parse(c)
        if tg - {"corpus"}:
            chk.nontrivial.add(C.case_hash(c))
        else:
            chk.count("plain (no fault, no change)")
        for t in sorted(tg):
            chk.count(t)
        chk.count("cycles:%d" % len(cyc))
        nt, nb = kinds_of(cyc)
        chk.count("topics:%d" % nt)
        chk.count("brokers:%d" % nb)
        obs = parse_out(a)
        if any(o == "CRASH" for o in obs):
            chk.count("impl:CRASH")
        else:
            if any(o["D"] for o in obs):
                chk.count("impl:some-deletion")
            if any(o["U"] for o in obs):
                chk.count("impl:some-update")
            if any(o["F"] for o in obs):
                chk.count("impl:refresh-forced")
        f11, f12 = oracle(c, a)
        fl = f11 if which == 11 else f12
        if fl:
            n_orc_fail += 1
            if first_orc is None:
                first_orc = (i, fl)
    for i in (0, len(cases) // 3, (2 * len(cases)) // 3, len(cases) - 1):
        chk.sample({"case": cases[i], "impl": impl[i], "model": model[i], "tags": sorted(tags[i])})

    probe = "cluster/TestVerifProbeCluster"
    corr = "corr:cluster.getOffsets" if which == 11 else "corr:cluster.maybeUpdateMetadataAndDeleteTopics"
    reported = 0
    # mismatching cases first: does the property's own oracle reject the implementation's output there?
    for (i, c, a, b) in mism:
        f11, f12 = oracle(c, a)
        fl = f11 if which == 11 else f12
        if fl and reported < 5:
            reported += 1
            chk.violation("scn_%d" % i, {"kind": "history", "probe": probe, "case": c, "impl_output": a, "model_output": b,
                                         "broken": corr, "oracle_verdict": ["cycle %d: %s" % x for x in fl],
                                         "cmd": "bin/check %s --replay <this file>" % pid})
    # then every other case (the oracle is cheap: all outputs of this run were evaluated above)
    if not reported and first_orc is not None:
        i, fl = first_orc
        reported += 1
        chk.violation("scn_%d" % i, {"kind": "history", "probe": probe, "case": cases[i], "impl_output": impl[i],
                                     "model_output": model[i], "broken": corr,
                                     "oracle_verdict": ["cycle %d: %s" % x for x in fl],
                                     "cmd": "bin/check %s --replay <this file>" % pid})
    if mism and not reported:
        # focused batch around the mismatch: same generator, 20x, oracle on the implementation only
        extra = [gen_scenario(chk.rng, j, bias=bias)[0] for j in range(20 * min(n, 1000))]
        impl2, model2, mism2 = chk.differential("cluster", "cluster", "TestVerifProbeCluster", extra,
                                                name="focus%d" % which, project=project)
        for j, (c, a) in enumerate(zip(extra, impl2)):
            f11, f12 = oracle(c, a)
            fl = f11 if which == 11 else f12
            if fl:
                reported += 1
                chk.violation("focus_%d" % j, {"kind": "history", "probe": probe, "case": c, "impl_output": a,
                                               "model_output": model2[j], "broken": corr,
                                               "oracle_verdict": ["cycle %d: %s" % x for x in fl]})
                break
    if mism and not reported:
        i, c, a, b = mism[0]
        chk.violation("scn_%d" % i, {"kind": "correspondence", "probe": probe, "case": c, "impl_output": a, "model_output": b,
                                     "broken": corr, "mismatches": len(mism),
                                     "oracle_verdict": "the property oracle accepts the implementation's output on every case tried; "
                                                       "the model no longer describes the implementation"}, found_input=False)
    if failed and not mism and not reported:
        chk.violation("obligation", {"kind": "theorem", "broken": [nm for nm, _ in failed],
                                     "detail": [d for _, d in failed]}, found_input=False)
    chk.notes.append("oracle (property text on the implementation's output) rejected %d of %d cases" % (n_orc_fail, len(cases)))
    chk.assumptions += [
        "brokers answer exactly the blocks they were asked (the scripted broker does); a response block for a partition that was not asked is outside the model",
        "Topics/Partitions/Leader answer consistently within one cycle (one environment per cycle); Sarama returns duplicate-free topic and partition lists (the model and the probe agree on duplicates anyway)",
        "StorageChannel accepts every request (TimeoutSendStorageRequest would drop a request after 1 s of back-pressure; the probe's channel is buffered)",
        "an ErrNoError block without offsets makes getOffsets panic (modelled as Crash, compared through a child process); the property texts do not cover such a broker",
        "count_bounds_partition assumes Kafka's contiguous partition ids (every id returned by Partitions(t) is in [0, len))",
    ]


def replay(path, which):
    """bin/check Cxx --replay FILE: re-runs the recorded case on the implementation and the model, prints both and the oracle."""
    import json
    import common as C
    import framework
    obj = json.load(open(path))
    case = obj.get("case")
    if not case:
        print("replay file has no case (theorem-level failure): %s" % obj.get("broken"))
        return 1
    chk = framework.Check("C%d" % which, "quick", int(obj.get("seed", 1)))
    impl, model, mism = chk.differential("cluster", "cluster", "TestVerifProbeCluster", [case], name="replay")
    f11, f12 = oracle(case, impl[0])
    print("case  : %s\nimpl  : %s\nmodel : %s\noracle: %s" % (case, impl[0], model[0], (f11 if which == 11 else f12) or "accepts"))
    return 1 if (mism or (f11 if which == 11 else f12)) else 0
