"""C10 — group allow/deny lists are enforced on every path.  Assembled from four parts, one per component that has lists:
storage (three ingestion handlers), the offsets-topic reader, the Zookeeper reader, the notifier.  Each part runs the REAL
component with REAL regexps against the extracted model and evaluates the property's own oracle on the implementation's output."""
import json

import common as C
import c10_notifier
import c10_storage
import c10_wire
import c10_zk

PARTS = [("storage", c10_storage), ("wire", c10_wire), ("zk", c10_zk), ("notifier", c10_notifier)]


def run(chk, failed):
    chk.rule = ("per component: generated (pattern pair, group name) combinations covering unset/allow/deny/both lists with match and "
                "no-match on each, on every ingestion path of that component (storage: offset commit, owner update, owner clear in "
                "whole histories; Kafka reader: offset-commit and group-metadata messages; ZK reader: scripted /consumers trees with "
                "watches; notifier: histories of evaluation results to 1-4 modules); non-trivial = a case with both an accepted and a "
                "rejected group that carry data (per-part rule in the part module); distinct by the case line")
    summary = {}
    for name, mod in PARTS:
        before = len(chk.violations)
        summary[name] = mod.run_part(chk) or {}
        summary[name]["violations"] = len(chk.violations) - before
        chk.count("part:%s:violations" % name, len(chk.violations) - before)
    chk.notes.append("parts: " + json.dumps(summary, default=str))
    if failed and not chk.violations:
        chk.violation("obligation", {"kind": "theorem", "broken": [n for n, _ in failed], "detail": [d[-1500:] for _, d in failed],
                                     "note": "no case of this run showed a rejected group being tracked, forwarded or notified, or an "
                                             "accepted group being treated differently"}, found_input=False)
    chk.trusted += ["Go regexp (the module's compiled patterns are evaluated by the real code; the model receives only their verdicts)"]


def replay(path):
    import framework
    obj = json.load(open(path))
    case = obj.get("case")
    if not case:
        print("replay file has no case (broken: %s)" % obj.get("broken"))
        return 2
    chk = framework.Check("C10", "quick", int(obj.get("seed", 1)))
    C.build_coq()
    probe = obj.get("probe", "")
    part = obj.get("part") or ("wire" if "Wire" in probe else "zk" if "Zkreader" in probe else "notifier" if "Notifier" in probe else "storage")
    print("part: %s\ncase: %s" % (part, case))
    if part == "storage":
        if hasattr(c10_storage, "replay_case"):
            return c10_storage.replay_case(chk, case)
        impl = chk.run_impl("storage", "TestVerifProbeStorage", [case], name="replay")
        print("impl:", impl[0])
        return 1
    if part == "wire":
        impl = chk.run_impl("wire", "TestVerifProbeWire", [case], name="replay")
        why = c10_wire.oracle(case, impl[0])
        print("impl:  %s\noracle: %s" % (impl[0], why or "holds"))
        return 1 if why else 0
    if part == "zk":
        impl = chk.run_impl("zkreader", "TestVerifProbeZkreader", [case], name="replay")
        why = c10_zk.oracle(impl[0])
        print("impl:  %s\noracle: %s" % (impl[0], why or "holds"))
        return 1 if why else 0
    import notifiergen as G
    impl = chk.run_impl("notifier", "TestVerifProbeNotifier", [case], name="replay")
    fails = G.oracle_c10(G.parse(case), impl[0])
    print("impl:  %s\noracle: %s" % (impl[0], "; ".join(fails) if fails else "holds"))
    return 1 if fails else 0
