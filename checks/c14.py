"""C14 — notifications obey threshold / interval / send-once; every incident is announced."""
import notifiergen as G

CORR = "corr:notifier.notifyModule gating + refresh (Notifier.notify_module / on_refresh)"


def run(chk, failed):
    chk.rule = ("same probe and model as C13 (responses, group-list refreshes through the real processConsumerList, refresh cycles "
                "through the real sendClusterRequest/processClusterList), clock-directed: mostly one or two groups, clock steps from {0, "
                "1 ns, interval-1 s, interval s -1 ns, interval s, interval s +1 ns, interval+1 s, 30 s}, every module configuration of "
                "the product threshold{1,2,3} x send-interval{0,60} x send-once x send-close walked by case index; refreshes inside open "
                "incidents (the remembered notify times must survive every refresh that still lists the group), dropping and re-listing "
                "groups; a small parallel batch of histories with a refresh whose storage request times out (real time) in mid-incident; a batch with "
                "a slow module and a concurrent real refresh (liveness: a stuck coordinator is a violation of 'every incident is announced'); "
                "~3 % of the cases (about 1 000) are notifier configurations run through the real Configure()/getModuleForClass with modules "
                "of every class (email, http, null), list keys absent / present-but-empty / patterns, given by viper.Set or as a TOML "
                "document: per module and group the lists read through the Module interface and 'is a result handed to notifyModule' "
                "(real checkAndSendResponseToModules, recording notifyModuleFunc) must equal lists_accept computed from the pattern texts; the C14 oracle (threshold, lists, interval and send-once within an incident / quiet period, every incident "
                "announced - computed from the history alone) is evaluated on every call log of the implementation; non-trivial = at "
                "least two incidents of one (cluster, group); distinct by the case line")
    G.check_body(chk, failed, "C14", G.oracle_c14, ["clock", "clock", "clock", "groups"], 36000, 600000, CORR)
    chk.assumptions += [
        "'at most once per send interval' is claimed PER INCIDENT (theorem interval_respected); across incidents it is false of the code and stated so (interval_across_incidents_refuted: ERR, OK, ERR 2 s apart with send-interval 60 notifies both ERR results) - the reading under which it is compatible with 'every incident is announced, including the second and later incidents'; the distribution key histories-with-open-notifications-closer-than-send-interval-across-incidents counts the generated histories whose implementation call log contains such a pair",
        "clock readings are int64 Unix nanoseconds set through VerifSetClock; time.Time.Sub's saturation and the int64 wrap of send-interval * 1e9 are modelled, the interval theorem assumes 0 <= send-interval * 1e9 < 2^63",
        "interval and send-once are counted within an incident (and within a quiet period for thresholds <= OK): the remembered notify times are forgotten when an incident opens (fix F3), for a module that sent a close notification, and when the group leaves the notifier's list (its record is deleted; a re-listed group starts blank)",
        "configuration cases: the email module is configured with server localhost:25 and .invalid addresses, the http module with URLs on 127.0.0.1:9; nothing is dialled (notifyModuleFunc is replaced by a recorder, as in the unit tests), so Notify of the real classes (mail / HTTP delivery, templates: C20) is not exercised here",
        "slow-module scenario: the interleaving is forced through the recording module (its Notify blocks until the refresh's write-lock request is pending); deadline 2.5 s real time per wait; on the unchanged code the refresh takes effect after the response (model: HResponse, then the refresh events)",
        "same one-step-at-a-time / known-cluster / distinct module name assumptions as C13",
    ]


def replay(path):
    return G.replay("C14", G.oracle_c14, path)
