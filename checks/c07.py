"""C07 — well-formed commit and group-metadata messages are decoded exactly."""
import json
import os

import common as C
import wiregen as W

WORKERS = 16      # goroutines of the concurrent stream (the real reader runs one partitionConsumer goroutine per partition)


def classify(tags):
    return tags[0]


def kv_hex(impl_line):
    """(key hex, value hex) of a vo / vm case as the probe's encoder produced them ('-' = empty)."""
    f = impl_line.split("=>")[0].split()
    if len(f) >= 4 and f[0] == "K" and f[2] == "V":
        return f[1], f[3]
    return None, None


def run_cases(chk, cases, tags, expected, pybytes, name):
    impl, model, mism = chk.differential("wire", "wire", "TestVerifProbeWire", cases, name=name, project=W.project)
    bad = []
    for i, (c, tg, a, b) in enumerate(zip(cases, tags, impl, model)):
        for t in tg:
            chk.count(t)
        if c.startswith("re "):
            continue
        st, reqs, _ = W.parse_out(a)
        chk.count("outcome:%s" % ("crash" if st == "CRASH" else ("requests" if reqs else "nothing")))
        if reqs:
            chk.nontrivial.add(C.case_hash(c))
        # the three encoders (Go probe, Coq WireEnc, Python generator) must agree byte for byte
        if pybytes[i] is not None:
            want = "K %s V %s" % (W.hx(pybytes[i][0]), W.hx(pybytes[i][1]))
            ga = a.split("=>")[0].strip()
            gb = b.split("=>")[0].strip()
            if not (ga == gb == want):
                bad.append((i, "encoders disagree: go=%s coq=%s python=%s" % (ga, gb, want)))
        # the property's own words, evaluated on the implementation's output
        if expected[i] is not None:
            got = W.project(a.split("=>", 1)[1].strip() if "=>" in a else a)
            if got != expected[i]:
                bad.append((i, "implementation emitted %r, a well-formed message stands for %r" % (got, expected[i])))
    return impl, model, mism, bad


def gen_concurrent(rng, n):
    """n well-formed messages for ONE module (no lists), each with a group name of its own and long strings no other case
    shares: (cases, tags, expected)."""
    cfg = W.rnd_cfg(rng)
    lists = rng.choice([(0, 0), (W.EMPTY, W.EMPTY), (W.EMPTY, 0), (0, W.EMPTY)])    # no list, in one of its spellings
    cases, tags, expected = [], [], []
    for i in range(n):
        ln, tg, exp, _k, _v = W.gen_valid(rng, cfg=cfg, lists=lists, unique=i)
        cases.append(ln)
        tags.append(tg)
        expected.append(exp)
    return cases, tags, expected


def conc_results(cases, expected, impl, model):
    """Indices of the cases whose concurrent result is not the sequential one: [(i, why)]."""
    bad = []
    for i, (c, a, m) in enumerate(zip(cases, impl, model)):
        got = W.project(a.split("=>", 1)[1].strip() if "=>" in a else a)
        want_model = W.project(m.split("=>", 1)[1].strip() if "=>" in m else m)
        if got != want_model or (expected[i] is not None and got != expected[i]):
            bad.append((i, "decoded concurrently with other messages the implementation emitted %r; alone (model, and the "
                           "property's words) the message stands for %r" % (got[:700], (expected[i] or want_model)[:700])))
    return bad


def run_race(chk, cases, name):
    """The concurrent stream on a probe built with -race; returns (impl lines or None, race report or None)."""
    binp, err = C.build_probe("wire", race=True)
    if binp is None:
        raise C.BuildError("wire probe does not build with -race:\n" + (err or "")[-2000:])
    cpath = os.path.join(chk.work, name + ".txt")
    ipath = os.path.join(chk.work, name + ".impl")
    open(cpath, "w").write("\n".join(cases) + "\n")
    if os.path.exists(ipath):
        os.remove(ipath)
    rc, out = C.run_probe(binp, "TestVerifProbeWire", cpath, ipath, mem_kb=1 << 40,
                          extra_env={"VERIF_WIRE_CONC": str(WORKERS), "VERIF_WIRE_ROUNDS": "2"})
    impl = open(ipath).read().splitlines() if os.path.exists(ipath) else None
    report = None
    if "DATA RACE" in out:
        i = out.index("WARNING: DATA RACE")
        report = out[i:i + 3000]
    elif rc != 0:
        report = "race-instrumented probe exited %s:\n%s" % (rc, out[-2000:])
    return impl, report


def run_concurrent(chk):
    """Re-entrancy of the decoder: the per-partition partitionConsumer goroutines call processConsumerOffsetsMessage at the
    same time.  The same kind of messages as the valid stream, pushed through ONE module from WORKERS goroutines at once
    (3 rounds), requests attributed to messages by their unique group names; every result must be the sequential one."""
    n = 1200 if not chk.thorough else 20000
    cases, tags, expected = gen_concurrent(chk.rng, n)
    impl, model, _mism = chk.differential("wire", "wire", "TestVerifProbeWire", cases, name="concurrent", project=W.project,
                                          extra_env={"VERIF_WIRE_CONC": str(WORKERS)})
    chk.count("concurrent:messages", len(cases))
    chk.count("concurrent:goroutines", WORKERS)
    for a in impl:
        if "OK 0" not in a.split("=>", 1)[-1][:6]:
            chk.count("concurrent:messages-with-requests")
    bad = conc_results(cases, expected, impl, model)
    for (i, why) in bad[:3]:
        chk.violation("concurrent_%d" % i, {"kind": "concurrent", "probe": "consumer/TestVerifProbeWire", "goroutines": WORKERS,
                                            "case": cases[i], "case_index": i, "cases": cases, "expected_all": expected,
                                            "key_hex": kv_hex(impl[i])[0], "value_hex": kv_hex(impl[i])[1],
                                            "impl_output": impl[i], "model_output": model[i], "expected": expected[i],
                                            "failing_cases_in_batch": len(bad),
                                            "broken": "re-entrancy of consumer.processConsumerOffsetsMessage (C07 under concurrent "
                                                      "decoding)", "oracle_verdict": why,
                                            "cmd": "bin/check C07 --replay <this file>"})
    if chk.thorough and not bad:
        rimpl, report = run_race(chk, cases[:4000], "concurrent_race")
        chk.count("concurrent:race-detector-messages", min(len(cases), 4000))
        if report:
            chk.violation("concurrent_race", {"kind": "concurrent", "probe": "consumer/TestVerifProbeWire (-race)",
                                              "goroutines": WORKERS, "case": cases[0], "cases": cases[:4000],
                                              "expected_all": expected[:4000], "race": True,
                                              "broken": "re-entrancy of consumer.processConsumerOffsetsMessage (data race)",
                                              "oracle_verdict": report, "cmd": "bin/check C07 --replay <this file>"})
    return len(bad)


def run(chk, failed):
    n = 2500 if not chk.thorough else 100000
    cases, tags, expected, pybytes = [], [], [], []
    for ln in C.read_corpus(chk.pid):
        cases.append(ln)
        tags.append(["corpus"])
        expected.append(None)
        pybytes.append(None)
    for i in range(n):
        if i % 25 == 24:
            ln, tg = W.gen_re(chk.rng)
            cases.append(ln)
            tags.append(tg)
            expected.append(None)
            pybytes.append(None)
            continue
        ln, tg, exp, key, value = W.gen_valid(chk.rng)
        cases.append(ln)
        tags.append(tg)
        expected.append(exp)
        pybytes.append((key, value))
    chk.rule = ("well-formed offsets-topic messages built from random field values (null / empty / binary strings, int32 / int64 "
                "extremes, offset key v0/v1 x value v0/v1/v3/tombstone, metadata value v0..v3/tombstone, 0-5 members x 0-4 "
                "topics x 0-6 partitions, null / empty / present assignment, subscription and user data, allow/deny lists from a "
                "pattern pool); each is encoded by three independent encoders (Coq WireEnc extracted, Go in the probe, Python) "
                "which must agree byte for byte, decoded by the real processConsumerOffsetsMessage and by the model; plus `re` "
                "cases tying the accept oracle to the real regexp; the consumer module's own name differs from its configured cluster "
                "in 4 of the 6 configurations used (every request must name the cluster); a list is absent, a pattern, or present "
                "with the empty string (= no list; 18 % of the cases), and the module is configured with viper.Set or from a TOML "
                "document read by viper.ReadConfig (35 %). Then the concurrent stream: 1200 "
                "(thorough 20000) further messages with unique group names and long distinct strings through ONE module from "
                "16 goroutines at once, 3 rounds, each result compared with the sequential one (thorough: also under the race "
                "detector); non-trivial = the implementation emitted at least one storage request; distinct by the case line")
    impl, model, mism, bad = run_cases(chk, cases, tags, expected, pybytes, "valid")
    for i in (0, len(cases) // 3, 2 * len(cases) // 3, len(cases) - 1):
        chk.sample({"case": cases[i][:600], "impl": impl[i][:600], "model": model[i][:600]})
    # The property pins the output: Wire.process_message on an encoded message is proved equal to the requests the
    # message stands for (offset_roundtrip, metadata_roundtrip ...), so a well-formed message on which the
    # implementation differs from the model / from the expected requests is a failing input of the property itself.
    seen = set()
    why_of = dict(bad)
    for (i, c, a, b) in mism[:5]:
        seen.add(i)
        chk.violation("valid_%d" % i, {"kind": "input", "probe": "consumer/TestVerifProbeWire", "case": c,
                                       "impl_output": a, "model_output": b, "expected": expected[i],
                                       "key_hex": kv_hex(a)[0], "value_hex": kv_hex(a)[1],
                                       "broken": "corr:consumer.processConsumerOffsetsMessage",
                                       "oracle_verdict": why_of.get(i) or "implementation differs from the model, which is proved "
                                                         "equal to the requests a well-formed message stands for",
                                       "cmd": "bin/check C07 --replay <this file>"})
    for (i, why) in bad[:5]:
        if i in seen:
            continue
        chk.violation("valid_%d" % i, {"kind": "input", "probe": "consumer/TestVerifProbeWire", "case": cases[i],
                                       "impl_output": impl[i], "model_output": model[i], "expected": expected[i],
                                       "key_hex": kv_hex(impl[i])[0], "value_hex": kv_hex(impl[i])[1],
                                       "broken": "corr:consumer.processConsumerOffsetsMessage", "oracle_verdict": why,
                                       "cmd": "bin/check C07 --replay <this file>"})
    nconc = run_concurrent(chk)
    if failed and not mism and not bad and not nconc:
        chk.violation("obligation", {"kind": "theorem", "broken": [n for n, _ in failed],
                                     "detail": [d for _, d in failed]}, found_input=False)
    chk.assumptions += [
        "processConsumerOffsetsMessage is driven directly (symbol pinned by TestKafkaClient_processConsumerOffsetsMessage_*) on a "
        "module built like fixtureModule(); App.StorageChannel is buffered so that TimeoutSendStorageRequest never drops",
        "storage_in_time (hypothesis of every C07 statement about requests `produced`): each request is handed to "
        "helpers.TimeoutSendStorageRequest(App.StorageChannel, req, 1), which drops it silently when storage does not take it "
        "within one second; model and probe (buffered, drained channel) assume it is taken",
        "Go map iteration order inside one member is not modelled: owner updates of a message are compared as a sorted multiset; "
        "the order of requests ACROSS members (the model's list is in member order, and member order decides the final owner when "
        "two members claim one partition) is therefore not compared with the code either",
        "partitionConsumer's own `burrow-<name>` progress request per message is outside processConsumerOffsetsMessage and not "
        "driven (exempt, DESIGN 4.10): at the channel in production a commit is followed by two SetConsumerOffset requests",
        "the allow/deny oracle is a pool of 6 patterns whose meaning is re-implemented in the driver; `re` cases compare it with "
        "the real regexp through acceptConsumerGroup",
        "httpserver.DeleteConsumerMetrics (Prometheus side effect of a metadata tombstone) is not modelled",
        "re-entrancy: in the model the decoder is a pure function of (configuration, key, value, offset), so concurrent calls "
        "cannot interfere; that the Go decoder shares no mutable state between calls is established by the concurrent stream "
        "(and the race detector in the thorough tier), not by proof",
    ]


def replay(path):
    import framework
    obj = json.load(open(path))
    chk = framework.Check(obj.get("property", "C07"), "quick", obj.get("seed", 1))
    if obj.get("kind") == "concurrent":
        cases, expected = obj["cases"], obj.get("expected_all") or [None] * len(obj["cases"])
        if obj.get("race"):
            _impl, report = run_race(chk, cases, "replay_race")
            print("race detector:", report or "no race reported")
            return 1 if report else 0
        impl, model, _m = chk.differential("wire", "wire", "TestVerifProbeWire", cases, name="replay_concurrent",
                                           project=W.project, extra_env={"VERIF_WIRE_CONC": str(obj.get("goroutines", WORKERS)),
                                                                         "VERIF_WIRE_ROUNDS": "5"})
        bad = conc_results(cases, expected, impl, model)
        print("%d messages, %s goroutines, 5 rounds: %d message(s) decoded differently from the sequential result"
              % (len(cases), obj.get("goroutines", WORKERS), len(bad)))
        for (i, why) in bad[:3]:
            print("case %d: %s" % (i, cases[i][:400]))
            print("  ", why[:1500])
        return 1 if bad else 0
    case = obj["case"]
    impl, model, mism = chk.differential("wire", "wire", "TestVerifProbeWire", [case], name="replay", project=W.project)
    exp = obj.get("expected")
    got = W.project(impl[0].split("=>", 1)[1].strip() if "=>" in impl[0] else impl[0])
    print("case :", case)
    print("impl :", impl[0])
    print("model:", model[0])
    if exp is not None:
        print("a well-formed message stands for:", exp)
        print("oracle:", "holds" if got == exp else "FAILS")
    print("MISMATCH" if mism else "agree")
    return 1 if (mism or (exp is not None and got != exp)) else 0
