"""C07 — well-formed commit and group-metadata messages are decoded exactly."""
import json

import common as C
import wiregen as W


def classify(tags):
    return tags[0]


def kv_hex(impl_line):
    """(key hex, value hex) of a vo / vm case as the probe's encoder produced them ('-' = empty)."""
    f = impl_line.split("=>")[0].split()
    if len(f) >= 4 and f[0] == "K" and f[2] == "V":
        return f[1], f[3]
    return None, None


def run_cases(chk, cases, tags, expected, pybytes, name):
    impl, model, mism = chk.differential("wire", "wire", "TestVerifProbeWire", cases, name=name, project=W.project)
    bad = []
    for i, (c, tg, a, b) in enumerate(zip(cases, tags, impl, model)):
        for t in tg:
            chk.count(t)
        if c.startswith("re "):
            continue
        st, reqs, _ = W.parse_out(a)
        chk.count("outcome:%s" % ("crash" if st == "CRASH" else ("requests" if reqs else "nothing")))
        if reqs:
            chk.nontrivial.add(C.case_hash(c))
        # the three encoders (Go probe, Coq WireEnc, Python generator) must agree byte for byte
        if pybytes[i] is not None:
            want = "K %s V %s" % (W.hx(pybytes[i][0]), W.hx(pybytes[i][1]))
            ga = a.split("=>")[0].strip()
            gb = b.split("=>")[0].strip()
            if not (ga == gb == want):
                bad.append((i, "encoders disagree: go=%s coq=%s python=%s" % (ga, gb, want)))
        # the property's own words, evaluated on the implementation's output
        if expected[i] is not None:
            got = W.project(a.split("=>", 1)[1].strip() if "=>" in a else a)
            if got != expected[i]:
                bad.append((i, "implementation emitted %r, a well-formed message stands for %r" % (got, expected[i])))
    return impl, model, mism, bad


def run(chk, failed):
    n = 2500 if not chk.thorough else 100000
    cases, tags, expected, pybytes = [], [], [], []
    for ln in C.read_corpus(chk.pid):
        cases.append(ln)
        tags.append(["corpus"])
        expected.append(None)
        pybytes.append(None)
    for i in range(n):
        if i % 25 == 24:
            ln, tg = W.gen_re(chk.rng)
            cases.append(ln)
            tags.append(tg)
            expected.append(None)
            pybytes.append(None)
            continue
        ln, tg, exp, key, value = W.gen_valid(chk.rng)
        cases.append(ln)
        tags.append(tg)
        expected.append(exp)
        pybytes.append((key, value))
    chk.rule = ("well-formed offsets-topic messages built from random field values (null / empty / binary strings, int32 / int64 "
                "extremes, offset key v0/v1 x value v0/v1/v3/tombstone, metadata value v0..v3/tombstone, 0-5 members x 0-4 "
                "topics x 0-6 partitions, null / empty / present assignment, subscription and user data, allow/deny lists from a "
                "pattern pool); each is encoded by three independent encoders (Coq WireEnc extracted, Go in the probe, Python) "
                "which must agree byte for byte, decoded by the real processConsumerOffsetsMessage and by the model; plus `re` "
                "cases tying the accept oracle to the real regexp; non-trivial = the implementation emitted at least one storage "
                "request; distinct by the case line")
    impl, model, mism, bad = run_cases(chk, cases, tags, expected, pybytes, "valid")
    for i in (0, len(cases) // 3, 2 * len(cases) // 3, len(cases) - 1):
        chk.sample({"case": cases[i][:600], "impl": impl[i][:600], "model": model[i][:600]})
    # The property pins the output: Wire.process_message on an encoded message is proved equal to the requests the
    # message stands for (offset_roundtrip, metadata_roundtrip ...), so a well-formed message on which the
    # implementation differs from the model / from the expected requests is a failing input of the property itself.
    seen = set()
    why_of = dict(bad)
    for (i, c, a, b) in mism[:5]:
        seen.add(i)
        chk.violation("valid_%d" % i, {"kind": "input", "probe": "consumer/TestVerifProbeWire", "case": c,
                                       "impl_output": a, "model_output": b, "expected": expected[i],
                                       "key_hex": kv_hex(a)[0], "value_hex": kv_hex(a)[1],
                                       "broken": "corr:consumer.processConsumerOffsetsMessage",
                                       "oracle_verdict": why_of.get(i) or "implementation differs from the model, which is proved "
                                                         "equal to the requests a well-formed message stands for",
                                       "cmd": "bin/check C07 --replay <this file>"})
    for (i, why) in bad[:5]:
        if i in seen:
            continue
        chk.violation("valid_%d" % i, {"kind": "input", "probe": "consumer/TestVerifProbeWire", "case": cases[i],
                                       "impl_output": impl[i], "model_output": model[i], "expected": expected[i],
                                       "key_hex": kv_hex(impl[i])[0], "value_hex": kv_hex(impl[i])[1],
                                       "broken": "corr:consumer.processConsumerOffsetsMessage", "oracle_verdict": why,
                                       "cmd": "bin/check C07 --replay <this file>"})
    if failed and not mism and not bad:
        chk.violation("obligation", {"kind": "theorem", "broken": [n for n, _ in failed],
                                     "detail": [d for _, d in failed]}, found_input=False)
    chk.assumptions += [
        "processConsumerOffsetsMessage is driven directly (symbol pinned by TestKafkaClient_processConsumerOffsetsMessage_*) on a "
        "module built like fixtureModule(); App.StorageChannel is buffered so that TimeoutSendStorageRequest never drops",
        "Go map iteration order inside one member is not modelled: owner updates of a message are compared as a sorted multiset",
        "the allow/deny oracle is a pool of 6 patterns whose meaning is re-implemented in the driver; `re` cases compare it with "
        "the real regexp through acceptConsumerGroup",
        "httpserver.DeleteConsumerMetrics (Prometheus side effect of a metadata tombstone) is not modelled",
    ]


def replay(path):
    import framework
    obj = json.load(open(path))
    chk = framework.Check(obj.get("property", "C07"), "quick", obj.get("seed", 1))
    case = obj["case"]
    impl, model, mism = chk.differential("wire", "wire", "TestVerifProbeWire", [case], name="replay", project=W.project)
    exp = obj.get("expected")
    got = W.project(impl[0].split("=>", 1)[1].strip() if "=>" in impl[0] else impl[0])
    print("case :", case)
    print("impl :", impl[0])
    print("model:", model[0])
    if exp is not None:
        print("a well-formed message stands for:", exp)
        print("oracle:", "holds" if got == exp else "FAILS")
    print("MISMATCH" if mism else "agree")
    return 1 if (mism or (exp is not None and got != exp)) else 0
