"""PIPE - the data path as one model (extra coverage; not one of the 20 properties).

Proof obligations: coq/theories/props/PIPE.v (interface theorems: every layer's output meets the next layer's assumptions;
end-to-end theorems in terms of wire bytes and broker answers).

Tie: an end-to-end probe.  Phase 1 runs the REAL cluster module (probes/cluster, getOffsets against the scripted Sarama
client) on the cluster cycles of every case; its storage requests are what phase 2 feeds, in event order, into the REAL
storage coordinator/module (1 worker) next to the requests the REAL KafkaClient.processConsumerOffsetsMessage decodes
from the generated messages; status requests go through the REAL evaluator module.  Every status reply (both views) is
compared with the extracted composed model (Pipeline.pipe_step), and - independently of the model - with the end-to-end
oracle of pipegen.Oracle, which is computed from the events alone."""
import json
import os

import common as C
import pipegen as G


def _phase1(chk, cases, name):
    """runs the real cluster module on the cycles of every case -> per case {cluster: parsed output}"""
    lines, index = [], []
    for i, case in enumerate(cases):
        for c, ln in G.cluster_lines(case):
            lines.append(ln)
            index.append((i, c))
    per = [dict() for _ in cases]
    if lines:
        impl = chk.run_impl("cluster", "TestVerifProbeCluster", lines, name=name + "_cluster")
        for (i, c), out in zip(index, impl):
            per[i][c] = G.parse_cluster_out(out)
    return per


def run_both(chk, cases, name):
    """-> (rendered case lines, impl lines, model lines)"""
    per = _phase1(chk, cases, name)
    lines = [G.render(case, per[i]) for i, case in enumerate(cases)]
    impl = chk.run_impl("pipeline", "TestVerifProbePipeline", lines, name=name)
    model = chk.run_model("pipeline", lines, name=name)
    for i, case in enumerate(cases):
        if case.get("cluster_died"):
            # acceptable environments never crash the model's cluster module (C11_no_crash); the real one died
            impl[i] = "PROBE-PANIC " + case["cluster_died"] + " | " + impl[i]
    return lines, impl, model


def _without(case, idxs):
    ev = [e for i, e in enumerate(case["events"]) if i not in idxs]
    return dict(config=case["config"], clusters=case["clusters"], events=ev, tags=case["tags"])


def shrink(chk, case, bad, rounds=60):
    """delta debugging over the event list; `bad(case, impl_line, model_line)` must stay true"""
    for _ in range(rounds):
        n = len(case["events"])
        if n <= 1:
            break
        cands = []
        if n >= 8:
            q = n // 4
            for k in range(4):
                cands.append(_without(case, set(range(k * q, (k + 1) * q if k < 3 else n))))
        for i in range(n):
            cands.append(_without(case, {i}))
        _, impl, model = run_both(chk, cands, "shrink")
        hit = None
        for cand, a, b in zip(cands, impl, model):
            if bad(cand, a, b):
                hit = cand
                break
        if hit is None:
            break
        case = hit
    return case


def _replay_obj(chk, case, line, a, b, fails, broken):
    return {"kind": "event-sequence", "probe": "consumer/TestVerifProbePipeline (+ cluster/TestVerifProbeCluster)",
            "config": case["config"], "clusters": case["clusters"], "events": G.describe(case),
            "case": line, "impl_output": a, "model_output": b, "oracle_verdict": fails[:6], "broken": broken,
            "case_json": json.dumps(_jsonable(case)), "cmd": "bin/check PIPE --replay <this file>"}


def _jsonable(case):
    evs = []
    for e in case["events"]:
        if e[0] == "K":
            evs.append(["K", e[1], e[2], e[3].hex(), e[4].hex(), e[5]])
        elif e[0] == "S":
            evs.append(["S", e[1], e[2].hex(), e[3]])
        elif e[0] == "P":
            evs.append(["P", e[1], [[[o, k.hex(), v.hex(), tg] for (o, k, v, tg) in lst] for lst in e[2]]])
        elif e[0] == "Y":
            cyc = dict(e[2])
            cyc["failing"] = sorted(cyc["failing"])
            cyc["table"] = [[t, ok, parts, [[p, list(rows[p])] for p in rows]] for t, (ok, parts, rows) in cyc["table"].items()]
            evs.append(["Y", e[1], cyc])
        else:
            evs.append(list(e))
    return {"config": case["config"], "clusters": [list(c) for c in case["clusters"]], "events": evs}


def _from_json(obj):
    evs = []
    for e in obj["events"]:
        if e[0] == "K":
            evs.append(("K", e[1], e[2], bytes.fromhex(e[3]), bytes.fromhex(e[4]), e[5]))
        elif e[0] == "S":
            evs.append(("S", e[1], bytes.fromhex(e[2]), e[3]))
        elif e[0] == "P":
            evs.append(("P", e[1], [[(o, bytes.fromhex(k), bytes.fromhex(v), tg) for (o, k, v, tg) in lst] for lst in e[2]]))
        elif e[0] == "Y":
            cyc = dict(e[2])
            cyc["failing"] = set(cyc["failing"])
            table = {}
            for t, ok, parts, rows in cyc["table"]:
                table[t] = (ok, parts, {p: (r[0], r[1], r[2]) for p, r in rows})
            cyc["table"] = table
            evs.append(("Y", e[1], cyc))
        else:
            evs.append(tuple(e))
    return dict(config=obj["config"], clusters=[tuple(c) for c in obj["clusters"]], events=evs, tags=set())


def run(chk, failed):
    n = int(os.environ.get("VERIF_PIPE_N", "0")) or (4000 if not chk.thorough else 150000)
    cases = []
    for ln in C.read_corpus(chk.pid):
        cases.append(_from_json(json.loads(ln)))
        cases[-1]["tags"] = {"corpus"}
    for _ in range(n):
        cases.append(G.gen_case(chk.rng))
    chk.rule = (
        "one life of a small Burrow per case: 1-2 clusters, each with a scenario of 1-6 cycles (own generator) run by the real cluster module "
        "configured through Configure with a client-profile kafka-version drawn from 19 legal strings (the scripted broker "
        "answers in the wire format of the request version), (1-6 getOffsets cycles: leader "
        "loss/change, failing Topics/Partitions/Leader/broker calls, per-partition errors, topics vanishing / re-appearing, "
        "partitions added; partition ids 0..n-1 and an offset in every ErrNoError answer), 8-45 events: well-formed offset "
        "commits (key v0/v1, value v0/v1/v3) for 1-5 groups aimed at the partitions and offsets the brokers answer (behind / at / "
        "ahead / int64 extremes; timestamps around now, at the expire-group limit, in seconds, extreme; log positions "
        "ascending, replayed, backfilled, extreme), group metadata (0-3 members owning those partitions), group and commit "
        "tombstones, hostile messages (wiregen's C06 stream and the case's own commits cut short or with changed version "
        "fields), concurrent batches (focus conc and 4 % of the other cases: 8-16 goroutines push 6-30 messages each for "
        "pairwise disjoint groups through processConsumerOffsetsMessage of the one module at once), clock moves (incl. across "
        "expire-group), status requests in both views and both orders, consumer-list requests, reader and storage "
        "allow/deny lists from PIPE's own pattern pool (key absent / six patterns / key present with the empty string); intervals 1-10, min-distance 0/1/5, minimum-complete and allowed-lag from "
        "small pools.  non-trivial = the oracle checked CurrentLag of at least one partition with a stored commit against the "
        "brokers' last answer; distinct by the rendered case line")
    note = G.foreign_pool_note()
    if note:
        chk.notes.append(note)
    lines, impl, model = run_both(chk, cases, "cases")
    chk.evaluations += len(cases)
    chk.traces_validated += len(cases)
    mism, orc = [], []
    tot = {}
    for i, (case, ln, a, b) in enumerate(zip(cases, lines, impl, model)):
        for t in sorted(case["tags"]):
            chk.count(t)
        for ev in case["events"]:
            chk.count("event:" + (ev[0] if ev[0] != "K" else "K:" + ev[5]))
            if ev[0] == "P":
                chk.count("concurrent goroutines", len(ev[2]))
        if "PROBE-PANIC" in a:
            orc.append((i, ["the probe recovered a panic: " + a[-300:]]))
            continue
        fails, stats = G.check(case, a)
        for seg in G.parse_output(a):
            ans = G.parse_answer(seg)
            if ans.get("view") == "F":
                chk.count("answer:" + (ans["status"] if ans.get("found") else "NOTFOUND"))
                for part in ans.get("parts", []):
                    chk.count("partition:" + part["status"])
        for k, v in stats.items():
            tot[k] = tot.get(k, 0) + v
        if stats.get("lag_checked"):
            chk.nontrivial.add(C.case_hash(ln))
        if fails:
            orc.append((i, fails))
        if a != b:
            mism.append(i)
    for k, v in sorted(tot.items()):
        chk.count("oracle:" + k, v)
    for i in (0, len(cases) // 2, len(cases) - 1):
        chk.sample({"case": lines[i][:600], "impl": impl[i][:600], "model": model[i][:600]})

    reported = 0
    for i, fails in orc[:3]:
        case = cases[i]
        small = shrink(chk, case, lambda c, a, b: "PROBE-PANIC" in a or bool(G.check(c, a)[0]))
        sl, sa, sb = run_both(chk, [small], "final")
        sf = ["the probe recovered a panic: " + sa[0][-300:]] if "PROBE-PANIC" in sa[0] else G.check(small, sa[0])[0]
        chk.violation("e2e_%d" % i, _replay_obj(chk, small, sl[0], sa[0], sb[0], sf or fails,
                                                "end-to-end oracle (e2e_lag_exact / e2e_rejected_invisible / e2e_malformed_ignored) "
                                                "on the implementation's status replies"))
        reported += 1
    if mism and not orc:
        # model and implementation differ, the oracle is silent on those cases: shrink on the difference, then look for a
        # failing input of the end-to-end statements in a larger focused batch
        i = mism[0]
        small = shrink(chk, cases[i], lambda c, a, b: a != b)
        extra = [G.gen_case(chk.rng, focus=next(iter(t[6:] for t in cases[i]["tags"] if t.startswith("focus:")), None))
                 for _ in range(3000)]
        el, ea, eb = run_both(chk, extra, "focused")
        found = None
        for c, ln, a, b in zip(extra, el, ea, eb):
            f = G.check(c, a)[0]
            if f:
                found = (c, f)
                break
        if found:
            small2 = shrink(chk, found[0], lambda c, a, b: bool(G.check(c, a)[0]))
            sl, sa, sb = run_both(chk, [small2], "final")
            chk.violation("e2e_focused", _replay_obj(chk, small2, sl[0], sa[0], sb[0], G.check(small2, sa[0])[0] or found[1],
                                                     "end-to-end oracle on the implementation's status replies"))
        else:
            sl, sa, sb = run_both(chk, [small], "final")
            chk.violation("corr_%d" % i, _replay_obj(chk, small, sl[0], sa[0], sb[0], [],
                                                     "corr:pipeline (consumer.processConsumerOffsetsMessage -> storage -> evaluator "
                                                     "vs Pipeline.pipe_step); the end-to-end oracle is silent"), found_input=False)
        reported += 1
    if failed and not reported:
        chk.violation("obligation", {"kind": "theorem", "broken": [n for n, _ in failed], "detail": [d for _, d in failed]},
                      found_input=False)
    chk.assumptions += [
        "one storage worker (requests applied in the order the events produce them; C08: per-group FIFO for more workers); "
        "helpers.TimeoutSendStorageRequest delivers (it drops a request when storage is blocked for 1 s)",
        "virtual clock: time.Now() of storage, evaluator and consumer is the probe's clock; it moves only between events, with "
        "nothing in flight (a FetchClusters barrier before every move)",
        "one reader module and one cluster module per cluster; the evaluator cache is off (expire-cache 0; C05 relates cached "
        "answers to fresh ones)",
        "cluster environments: partition ids 0..n-1 (C11 env_ids_ok), an offset in every ErrNoError answer (env_offsets_ok), "
        "int64 offsets; the real cluster module's requests are carried from its own probe process into the storage channel by "
        "the harness, deletions before updates, updates in sorted order (goroutine order in the real module)",
        "concurrent batches: the groups of different goroutines are disjoint, so every interleaving that keeps each goroutine's "
        "order leaves the same observable state (C08: per-group FIFO + frame); the model runs the lists one after the other",
        "names: cluster names are configuration; topic ids n of the cluster tables are the names t<n>; the model's interning "
        "function is the driver's table (injective, \"\" -> 0)",
    ]


def replay(path):
    import framework
    obj = json.load(open(path))
    cj = obj.get("case_json")
    if not cj:
        print("replay file has no event sequence (broken: %s)" % obj.get("broken"))
        return 2
    case = _from_json(json.loads(cj))
    chk = framework.Check("PIPE", "quick", int(obj.get("seed", 1)))
    C.build_coq(targets=C.prop_targets("PIPE"))
    lines, impl, model = run_both(chk, [case], "replay")
    for l in G.describe(case):
        print("  " + l)
    print("impl:  " + impl[0])
    print("model: " + model[0])
    fails = G.check(case, impl[0])[0]
    for f in fails:
        print("oracle: " + f)
    differs = impl[0] != model[0]
    print("verdict: " + ("the end-to-end oracle fails on the implementation's replies" if fails else
                         ("implementation differs from the composed model" if differs else "agrees")))
    return 1 if (fails or differs) else 0
