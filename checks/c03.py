"""C03 — partition status follows the documented lag rules."""
import common as C
import evalgen
from framework import ProbeCrashed

STATUS = {0: "NOTFOUND", 1: "OK", 2: "WARN", 3: "ERR", 4: "STOP", 5: "STALL", 6: "REWIND"}


def run(chk, failed):
    n = 6000 if not chk.thorough else 200000
    cases, tags = [], []
    # corpus first
    for ln in C.read_corpus(chk.pid):
        cases.append(ln)
        tags.append(["corpus"])
    for i in range(n):
        ln, tg = evalgen.gen_calc(chk.rng, i)
        cases.append(ln)
        tags.append(tg)
    chk.rule = ("boundary-directed calculatePartitionStatus inputs: random base window (1..12 commits, lag present/absent) "
                "with one comparison atom of the documented procedure placed at -1/0/+1 of its flip point, two-atom overlaps, "
                "int64/uint64 extremes, nil-prefix windows; non-trivial = current lag > allowed lag (past the first exit); "
                "distinct by the case line")
    impl, model, mism = chk.differential("eval", "eval", "TestVerifProbeEval", cases, name="calc")
    for c, tg, a in zip(cases, tags, impl):
        f = c.split()
        if int(f[1]) > int(f[3]):
            chk.nontrivial.add(C.case_hash(c))
        chk.count("atom:" + tg[0])
        chk.count("status:" + (STATUS.get(int(a.split()[1]), "?") if a.startswith("S ") else a))
    for i in (0, len(cases) // 2, len(cases) - 1):
        chk.sample({"case": cases[i], "impl": impl[i], "model": model[i]})
    # The property pins the output: the model's value is the documented procedure's (theorem calc_status_spec),
    # so an input on which the implementation differs from it is a failing input of the property itself.
    for (i, c, a, b) in mism[:5]:
        chk.violation("calc_%d" % i, {"kind": "input", "probe": "evaluator/TestVerifProbeEval", "case": c,
                                      "impl_output": a, "model_output": b,
                                      "broken": "corr:evaluator.calculatePartitionStatus",
                                      "oracle_verdict": "implementation differs from the documented procedure (Eval.calc_status = EvalSpec.spec_status)",
                                      "cmd": "bin/check C03 --replay <this file>"})
    if failed and not mism:
        chk.violation("obligation", {"kind": "theorem", "broken": [n for n, _ in failed],
                                     "detail": [d for _, d in failed]}, found_input=False)
    chk.assumptions += [
        "calculatePartitionStatus is driven directly (symbol pinned by TestCachingEvaluator_CheckRules); the completeness gate and nil-prefix slicing are tied through the group cases of C04",
        "no-overflow guard of calc_status_spec: |timestamps| < 2^61, |timeNow| < 2^51 (outside it the model still mirrors Go's wrap-around and is compared, but the documented procedure is only claimed inside)",
    ]
