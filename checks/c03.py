"""C03 — partition status follows the documented lag rules."""
import common as C
import evalgen
from framework import ProbeCrashed

STATUS = {0: "NOTFOUND", 1: "OK", 2: "WARN", 3: "ERR", 4: "STOP", 5: "STALL", 6: "REWIND"}


def part_view(line):
    """Per-partition (topic, partition, status, completeness bits) of the full view printed by the eval probe / driver."""
    full = line.split(" || ")[0].split()
    i = full.index("P")
    n = int(full[i + 1])
    ps = [full[i + 2 + 9 * k:i + 2 + 9 * k + 9] for k in range(n)]
    return sorted((p[0], p[1], p[4], p[8]) for p in ps)


def gate_stream(chk):
    """evaluatePartitionStatus (nil-prefix slicing + completeness gate) through the real request channel: the partition
    statuses are pinned by Eval.eval_partition (theorems C03_incomplete_is_ok / C03_gate), so a differing status is a
    failing input of the property."""
    n = 500 if not chk.thorough else 20000
    groups, cases = [], []
    for ln in C.read_corpus(chk.pid):
        if ln.startswith("group"):
            groups.append(None)
            cases.append(ln)
            chk.count("gate:corpus")
    for i in range(n):
        g, tg = evalgen.gen_gate_group(chk.rng, i)
        groups.append(g)
        cases.append(evalgen.fmt_group(g))
        for t in tg:
            chk.count(t)
    impl, model, _ = chk.differential("eval", "eval", "TestVerifProbeEval", cases, name="gate")
    bad = []
    for i, (g, c, a, b) in enumerate(zip(groups, cases, impl, model)):
        try:
            va, vb = part_view(a), part_view(b)
        except Exception:
            va, vb = a, b
        sts = [int(x[2]) for x in va] if isinstance(va, list) else []
        if any(s_ > 1 for s_ in sts):
            chk.nontrivial.add(C.case_hash(c))
        for s_ in sts:
            chk.count("gate-status:" + STATUS.get(s_, "?"))
        if va != vb:
            bad.append((i, c, a, b))
    if cases:
        chk.sample({"case": cases[0], "impl": impl[0], "model": model[0]})
    for (i, c, a, b) in bad[:3]:
        chk.violation("gate_%d" % i, {"kind": "input", "probe": "evaluator/TestVerifProbeEval (EvaluatorRequest, storage reply supplied)",
                                      "case": c, "impl_output": a, "model_output": b,
                                      "broken": "corr:evaluator.evaluatePartitionStatus (slicing / completeness gate)",
                                      "oracle_verdict": "a partition's status or completeness differs from the documented procedure "
                                                        "(status = rules if Complete >= minimum-complete else OK)",
                                      "cmd": "bin/check C03 --replay <this file>"})
    return bad


def run(chk, failed):
    n = 6000 if not chk.thorough else 200000
    cases, tags = [], []
    # corpus first
    for ln in C.read_corpus(chk.pid):
        if ln.startswith("calc"):
            cases.append(ln)
            tags.append(["corpus"])
    for i in range(n):
        ln, tg = evalgen.gen_calc(chk.rng, i)
        cases.append(ln)
        tags.append(tg)
    chk.rule = ("boundary-directed calculatePartitionStatus inputs: random base window (1..12 commits, lag present/absent) "
                "with one comparison atom of the documented procedure placed at -1/0/+1 of its flip point, two-atom overlaps, "
                "int64/uint64 extremes, nil-prefix windows; non-trivial = current lag > allowed lag (past the first exit); "
                "distinct by the case line")
    impl, model, mism = chk.differential("eval", "eval", "TestVerifProbeEval", cases, name="calc")
    for c, tg, a in zip(cases, tags, impl):
        f = c.split()
        if int(f[1]) > int(f[3]):
            chk.nontrivial.add(C.case_hash(c))
        chk.count("atom:" + tg[0])
        chk.count("status:" + (STATUS.get(int(a.split()[1]), "?") if a.startswith("S ") else a))
    for i in (0, len(cases) // 2, len(cases) - 1):
        chk.sample({"case": cases[i], "impl": impl[i], "model": model[i]})
    # The property pins the output: the model's value is the documented procedure's (theorem calc_status_spec),
    # so an input on which the implementation differs from it is a failing input of the property itself.
    for (i, c, a, b) in mism[:5]:
        chk.violation("calc_%d" % i, {"kind": "input", "probe": "evaluator/TestVerifProbeEval", "case": c,
                                      "impl_output": a, "model_output": b,
                                      "broken": "corr:evaluator.calculatePartitionStatus",
                                      "oracle_verdict": "implementation differs from the documented procedure (Eval.calc_status = EvalSpec.spec_status)",
                                      "cmd": "bin/check C03 --replay <this file>"})
    gate_mism = gate_stream(chk)
    if failed and not mism and not gate_mism:
        chk.violation("obligation", {"kind": "theorem", "broken": [n for n, _ in failed],
                                     "detail": [d for _, d in failed]}, found_input=False)
    chk.assumptions += [
        "calculatePartitionStatus is driven directly (symbol pinned by TestCachingEvaluator_CheckRules); the completeness gate and nil-prefix slicing are tied through the group cases of C04",
        "no-overflow guard of calc_status_spec: |timestamps| < 2^61, |timeNow| < 2^51 (outside it the model still mirrors Go's wrap-around and is compared, but the documented procedure is only claimed inside)",
    ]


def replay(path):
    import json
    import framework
    obj = json.load(open(path))
    case = obj.get("case")
    if not case:
        print("replay file has no case (broken: %s)" % obj.get("broken"))
        return 2
    chk = framework.Check("C03", "quick", int(obj.get("seed", 1)))
    C.build_coq()
    impl, model, _ = chk.differential("eval", "eval", "TestVerifProbeEval", [case], name="replay")
    print("case:  " + case)
    print("impl:  " + impl[0])
    print("model: " + model[0] + "   (= the documented procedure, theorem C03_calc_status_spec / gate theorems)")
    if case.startswith("group"):
        differs = part_view(impl[0]) != part_view(model[0])
    else:
        differs = impl[0] != model[0]
    print("verdict: " + ("implementation differs from the documented procedure" if differs else "agrees"))
    return 1 if differs else 0
