"""C06 — offsets-topic decoding never crashes or balloons on any bytes; a malformed commit yields no update."""
import json

import common as C
import wiregen as W

BOUND_SLACK = 64 * 1024      # the property's "tens of kilobytes": allocation <= message size + 64 KiB
LARGE = 4096                 # the literal line (size + 64 KiB) is applied to messages up to this size
PER_BYTE = 32                # every size: allocation <= 64 KiB + PER_BYTE x (bytes the decoder actually consumed) + PER_REQ x requests
PER_BYTE_ZAP = 64            # ... with a real zap core (logger.With encodes its fields eagerly; control bytes expand six-fold)
PER_REQ = 1024               # one StorageRequest + one timer of TimeoutSendStorageRequest per request emitted
MODEL_MAX = 40 * 1024        # the extracted model is quadratic in the message length: larger messages run on the implementation only


def case_bytes(case):
    f = case.split()
    key = bytes.fromhex(f[7]) if f[7] != "-" else b""
    value = bytes.fromhex(f[8]) if f[8] != "-" else b""
    return int(f[4]), int(f[5]), int(f[6]), key, value


def case_cluster(case):
    c = case.split()[2]
    return bytes.fromhex(c) if c != "-" else b""


def oracle(case, impl_line):
    """The property's own oracle on the implementation's observables for one msg case; returns None or a reason."""
    allow, deny, order, key, value = case_bytes(case)
    st, reqs, info = W.parse_out(impl_line)
    if st == "CRASH":
        return "processing terminated the decoder: " + info
    f = info.split()
    if len(f) >= 3 and f[0] == "A":
        alloc, size = int(f[1]), int(f[2])
        zap = case.split()[3].endswith("Z")
        if not zap and size <= LARGE and alloc > size + BOUND_SLACK:
            return "allocated %d bytes for a message of %d bytes (bound: size + %d)" % (alloc, size, BOUND_SLACK)
        consumed, want_reqs = W.walk(allow, deny, key, value)
        if want_reqs == len(reqs):
            per = PER_BYTE_ZAP if zap else PER_BYTE
            line = BOUND_SLACK + per * consumed + PER_REQ * len(reqs)
            if alloc > line:
                return ("allocated %d bytes for a message of %d bytes of which the decoder consumed %d and which yields %d "
                        "requests (bound: %d + %d x consumed + %d x requests = %d)%s"
                        % (alloc, size, consumed, len(reqs), BOUND_SLACK, per, PER_REQ, line, " [real zap core]" if zap else ""))
    cluster = case_cluster(case)
    for r in reqs:
        if r.split()[1] != W.hx(cluster):
            return "request %r is not addressed to the module's cluster %s" % (r, W.hx(cluster))
    commits = [r for r in reqs if r.startswith("offset ")]
    if len(commits) > 1:
        return "more than one consumer-offset update for one message"
    if len(key) >= 2 and key[:2] in (b"\x00\x00", b"\x00\x01"):
        if len(reqs) != len(commits):
            return "an offset-commit message produced a request that is not a consumer-offset update"
        if commits:
            sc = W.strict_commit(key, value)
            if sc is None:
                return "storage update for a commit with a field cut short or an impossible length: " + commits[0]
            g, t, p, off, ts = sc
            want = W.fmt_req("offset", cluster, g, t, p, off, ts, order)
            if commits[0] != want:
                return "update %r does not carry the message's fields %r" % (commits[0], want)
    return None


def nontrivial(case):
    _, _, _, key, _ = case_bytes(case)
    return len(key) >= 2 and key[:2] in (b"\x00\x00", b"\x00\x01", b"\x00\x02")


def run(chk, failed):
    n = 3000 if not chk.thorough else 150000
    nlarge = 40 if not chk.thorough else 1500
    cases, tags = [], []
    for ln in C.read_corpus(chk.pid):
        cases.append(ln)
        tags.append(["corpus", "corpus"])
    # exhaustive sweeps on one small message per kind and version (thorough: three differently filled sets of messages)
    for _ in range(1 if not chk.thorough else 3):
        for ln, tg in W.gen_sweep(chk.rng):
            cases.append(ln)
            tags.append(tg)
    for i in range(n):
        ln, tg = W.gen_hostile(chk.rng)
        cases.append(ln)
        tags.append(tg)
    for i in range(nlarge):
        ln, tg = W.gen_large(chk.rng) if i % 4 else W.gen_commit_long(chk.rng)
        cases.append(ln)
        tags.append(tg)
    # 64 KiB - 1 MiB (Kafka's default message.max.bytes): on the implementation only (the extracted model is quadratic in the
    # message length); every filler shape at five sizes, plus maximal commits with and without a real zap core
    huge, huge_tags = [], []
    for size in (64 * 1024, 128 * 1024, 256 * 1024, 600 * 1024, 1000 * 1000):
        for shape in ("bad-first-topic", "topics-zero-filler", "topics-named-filler", "subscription-blob", "random-filler", "strings"):
            if chk.thorough or shape in ("bad-first-topic", "topics-named-filler") or size in (128 * 1024, 1000 * 1000):
                ln, tg = W.gen_large(chk.rng, size, size, shape)
                huge.append(ln)
                huge_tags.append(["huge", tg[1]])
    for zap in (False, True):
        ln, tg = W.gen_commit_long(chk.rng, 32767, zap)
        huge.append(ln)
        huge_tags.append(["huge", tg[1]])
    chk.rule = ("hostile offsets-topic messages. (1) sweeps: for one small well-formed message per kind and version (offset key v0/v1 x "
                "value v0/v1/v3, metadata value v0..v3 with two members) every truncation of key and of value at every byte "
                "boundary, every version field over -1..5, every length / count field over the special values below computed "
                "against both the enclosing assignment and the whole buffer. (2) random: 80% structure-aware (a small well-formed offset commit / group metadata message "
                "of a random version, then truncated at a byte boundary, or a version field set to -1..5, or one or two length / "
                "count fields set to -2,-1,0,1,remaining-1,remaining,remaining+1,remaining/4(+1),remaining/6(+1),32767,65536,2^24,"
                "2^29,2^31-1,-2^31), 20% random bytes; a quarter of them on a module with a real zap core (output discarded). (3) large: "
                "8-32 KiB metadata values in which a count / length promises far more than is present, followed by filler (an "
                "undecodable first topic, zero topics, distinct named topics, a skipped subscription blob, random bytes, maximal "
                "strings), and well-formed commits with 500-32767-byte strings of control / printable bytes. (4) huge: the same "
                "shapes at 64 KiB - 1 MB (Kafka's default message.max.bytes), on the implementation only. Each runs through the real processConsumerOffsetsMessage in a child process "
                "under ulimit -v 4 GiB (journal before execute; a dead child is an observation) and through the model; checked on "
                "the implementation: no panic / death; TotalAlloc delta <= message size + 64 KiB (nop logger, messages up to 4 KiB) and, "
                "for every size and logger, <= 64 KiB + 32 (real zap core: 64) x bytes the decoder actually consumed (an independent "
                "walk of the message) + 1 KiB x requests emitted - nothing for what a message merely announces; at most one update per commit "
                "and only for a commit whose fields a strict reader finds complete, carrying exactly those fields, every request "
                "addressed to the module's configured cluster (the module's own name differs from it in 4 of 6 configurations); "
                "non-trivial = the key carries a known version (0, 1 or 2), i.e. decoding goes past the dispatch; "
                "distinct by the case line")
    impl, model, mism = chk.differential("wire", "wire", "TestVerifProbeWire", cases, name="hostile", project=W.project)
    himpl = chk.run_impl("wire", "TestVerifProbeWire", huge, name="huge")
    chk.evaluations += len(huge)
    chk.traces_validated += len(huge)
    verdicts = []
    max_over = None
    max_large = 0
    worst_ratio = 0.0
    reported = 0
    for i, (c, tg, a) in enumerate(zip(huge, huge_tags, himpl)):
        chk.count("kind:huge")
        chk.count("mutation:" + tg[1])
        chk.nontrivial.add(C.case_hash(c))
        st, reqs, info = W.parse_out(a)
        f = info.split()
        if len(f) >= 3 and f[0] == "A" and int(f[2]):
            worst_ratio = max(worst_ratio, int(f[1]) / int(f[2]))
        why = oracle(c, a)
        if why and reported < 3:
            reported += 1
            chk.violation("huge_%d" % i, {"kind": "input", "probe": "consumer/TestVerifProbeWire", "case": c,
                                          "impl_output": a, "model_output": "(not run: message too large for the extracted model)",
                                          "oracle_verdict": why, "broken": "C06 on the implementation (memory)",
                                          "cmd": "bin/check C06 --replay <this file>"})
    chk.notes.append("huge messages (64 KiB - 1 MB): largest TotalAlloc delta / message size = %.2f (a message packed with distinct "
                     "topic entries that are really decoded; an undecodable one allocates about 1.4 KB whatever its size)" % worst_ratio)
    for c, tg, a in zip(cases, tags, impl):
        if nontrivial(c):
            chk.nontrivial.add(C.case_hash(c))
        chk.count("kind:" + tg[0])
        chk.count("mutation:" + tg[1].split(":")[0])
        st, reqs, info = W.parse_out(a)
        chk.count("outcome:" + ("crash" if st == "CRASH" else ("requests" if reqs else "nothing")))
        f = info.split()
        if len(f) >= 3 and f[0] == "A":
            over = int(f[1]) - int(f[2])
            if int(f[2]) <= LARGE and (max_over is None or over > max_over):
                max_over = over
            if int(f[2]) > LARGE and len(reqs) <= 50:
                max_large = max(max_large, int(f[1]))
        verdicts.append(oracle(c, a))
    chk.notes.append("largest measured TotalAlloc delta minus message size over this run (messages <= %d bytes): %s bytes (bound %d); "
                     "largest TotalAlloc delta on the 4-40 KiB messages yielding <= 50 requests: %d bytes" % (LARGE, max_over, BOUND_SLACK, max_large))
    for i in (0, len(cases) // 3, 2 * len(cases) // 3, len(cases) - 1 - nlarge):
        chk.sample({"case": cases[i][:500], "impl": impl[i][:500], "model": model[i][:500]})
    # crash, allocation beyond the property's bound or an update for a malformed commit is directly the violation
    for i, why in enumerate(verdicts):
        if why is None or reported >= 5:
            continue
        reported += 1
        chk.violation("hostile_%d" % i, {"kind": "input", "probe": "consumer/TestVerifProbeWire", "case": cases[i],
                                         "impl_output": impl[i], "model_output": model[i], "oracle_verdict": why,
                                         "broken": "C06 on the implementation",
                                         "cmd": "bin/check C06 --replay <this file>"})
    # a difference between model and code without an oracle failure: the correspondence no longer checks
    for (i, c, a, b) in mism[:5]:
        if verdicts[i] is not None:
            continue
        chk.violation("corr_%d" % i, {"kind": "input", "probe": "consumer/TestVerifProbeWire", "case": c,
                                      "impl_output": a, "model_output": b,
                                      "broken": "corr:consumer.processConsumerOffsetsMessage",
                                      "oracle_verdict": "the property's oracle holds on the implementation's output for this case",
                                      "cmd": "bin/check C06 --replay <this file>"}, found_input=False)
    if failed and not mism and not reported:
        chk.violation("obligation", {"kind": "theorem", "broken": [n for n, _ in failed],
                                     "detail": [d for _, d in failed]}, found_input=False)
    chk.assumptions += [
        "processConsumerOffsetsMessage is driven directly (symbol pinned by TestKafkaClient_processConsumerOffsetsMessage_*) on a "
        "module built like fixtureModule() (nop logger, or a real zap core where the case says so); App.StorageChannel is buffered",
        "memory, PROVED: the sizes the decoder itself passes to make / string conversion (strings, partition slices; the map is "
        "not pre-sized) add up to at most the message size, and per member to at most the bytes consumed (process_alloc_bounded, "
        "member_alloc_le_consumed).  MEASURED on the real decoder (runtime.MemStats.TotalAlloc delta, single goroutine, nop logger "
        "and - for a quarter of the random stream and the long commits - a real zap core writing to io.Discard): size + 64 KiB for "
        "messages up to 4 KiB, and 64 KiB + 32 x consumed + 1 KiB x requests for every size up to 1 MB (64 x with the zap core: "
        "logger.With(group, topic, ...) encodes its fields eagerly for every message, logged or not, and JSON-escapes control "
        "bytes six-fold: a well-formed 65 KB commit of 0x01 bytes allocates 2.0 MB, 31 x its size; reported in findings/C06.json "
        "as an observation).  NEITHER: a bound that does not depend on what the message really contains - a genuine large "
        "group-metadata message yields a request and a timer per partition and a map entry per topic",
        "`consumed` and the expected number of requests come from wiregen.walk, an independent Python walk of key and value in "
        "the decoder's order; where its request count differs from the implementation's the consumed-based line is not applied "
        "(the differential against the model still is)",
        "a fatal runtime error (out of memory) cannot be recovered in Go: it is observed as the death of the child process",
    ]


def replay(path):
    import framework
    obj = json.load(open(path))
    chk = framework.Check(obj.get("property", "C06"), "quick", obj.get("seed", 1))
    case = obj["case"]
    impl, model, mism = chk.differential("wire", "wire", "TestVerifProbeWire", [case], name="replay", project=W.project)
    why = oracle(case, impl[0])
    print("case :", case)
    print("impl :", impl[0])
    print("model:", model[0])
    print("oracle:", why or "holds")
    print("MISMATCH" if mism else "agree")
    return 1 if (mism or why) else 0
