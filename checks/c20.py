"""C20 — notification templates render for every status."""
import common as C
import tmplgen as G
from framework import Check

MODES_QUICK = [("wf", 170), ("close", 40), ("names", 60), ("topics", 30), ("floats", 30), ("struct", 70)]


def pre(chk):
    # regenerate the schema of the template data / helper table and the five shipped templates from /repo
    C.write_gen("TmplSchema", C.run_translator("tmpl", ["schema"]))
    C.write_gen("Templates", C.run_translator("tmpl", ["templates"]))


def _batch(rng, scale, modes):
    cases = []
    for tmpl in G.shipped_templates(C.REPO):
        for mode, n in modes:
            for _ in range(max(1, int(n * scale))):
                cases.append(G.gen_case(rng, tmpl, mode))
    return cases


def run(chk, failed):
    scale = 1.0 if not chk.thorough else 25.0
    lines, parsed, tags = [], [], []
    for ln in C.read_corpus(chk.pid):
        lines.append(ln)
        parsed.append(G.parse(ln))
        tags.append("corpus")
    for c in _batch(chk.rng, scale, MODES_QUICK):
        ln = G.fmt_case(c)
        lines.append(ln)
        parsed.append(G.parse(ln))
        tags.append(c["mode"])
    if failed:
        # a table obligation (typecheck / json_skeleton_ok of a shipped template, data_offers) or a theorem no longer
        # checks: look for a concrete status on which the real template fails, inside the property's domain
        for c in _batch(chk.rng, 8.0 * scale, [("wf", 170), ("close", 60)]):
            ln = G.fmt_case(c)
            lines.append(ln)
            parsed.append(G.parse(ln))
            tags.append("focused")
    chk.rule = ("every shipped template (config/*.tmpl, parsed as Coordinator.Configure does) x generated group statuses: "
                "status -1..7/100/2^31, 0-6 listed partitions (statuses WARN/STOP/STALL/REWIND and out-of-table), Maxlag nil / listed / "
                "unlisted OK partition with nil Start/End, commit lags nil/non-nil, extras nil/empty/partial/full, open and close "
                "(stateGood) variants, JSON-safe and hostile names, NaN completeness, and structures outside status_wf "
                "(nil partition entry, nil Start/End); non-trivial = at least one partition is listed; distinct by case line")
    impl, model, mism = chk.differential("tmpl", "tmpl", "TestVerifProbeTmpl", lines, name="render")
    reported = 0
    failing = 0
    for i, (ln, c, tg, a, b) in enumerate(zip(lines, parsed, tags, impl, model)):
        if c["partitions"]:
            chk.nontrivial.add(C.case_hash(ln))
        chk.count("template:" + c["template"])
        chk.count("status:" + G.STATUS.get(c["status"], "other"))
        chk.count("mode:" + tg)
        chk.count("impl:" + a.split(" ")[0] + ("" if " " not in a else " " + a.split(" ")[1]))
        fails = G.oracle(c, a)
        if fails:
            # no recorded, unrepaired finding exists for C20 (F11 was repaired by /repo commit 3f5942d and suppresses
            # nothing): every failure is a violation
            failing += 1
            if reported < 5:
                reported += 1
                chk.violation("render_%d" % i, {
                    "kind": "input", "probe": "notifier/TestVerifProbeTmpl", "case": ln, "describe": G.describe(c),
                    "impl_output": a, "model_output": b, "oracle_verdict": fails,
                    "broken": "C20: every shipped template renders (to well-formed JSON) for every status",
                    "cmd": "bin/check C20 --replay <this file>"})
    # what the data offers: one-action templates against every documented field / helper, on the real code
    offers = chk.run_impl("tmpl", "TestVerifProbeTmpl", [G.offer_case(t) for t, _ in G.OFFERS], name="offers",
                          extra_env={"VERIF_TMPL_ERRORS": "1"})
    chk.evaluations += len(offers)
    for k, ((text, expect), a) in enumerate(zip(G.OFFERS, offers)):
        chk.count("offer:" + ("ok" if a.startswith("OK") else a.split(" ")[0]))
        fails = G.offer_oracle(text, expect, a)
        if fails:
            failing += 1
            reported += 1
            chk.violation("offer_%d" % k, {
                "kind": "input", "probe": "notifier/TestVerifProbeTmpl", "case": G.offer_case(text), "template_text": text,
                "impl_output": a, "documented_output": expect, "oracle_verdict": fails,
                "broken": "C20: the data handed to templates offers the documented fields and helper functions",
                "cmd": "bin/check C20 --replay <this file>"})
    for k in (0, len(lines) // 3, (2 * len(lines)) // 3, len(lines) - 1):
        chk.sample({"case": lines[k], "describe": G.describe(parsed[k]), "impl": impl[k], "model": model[k]})
    # model and implementation disagree on a case the oracle accepts: the correspondence is broken, not the property
    if mism and not reported:
        for (i, ln, a, b) in mism[:3]:
            chk.violation("corr_%d" % i, {
                "kind": "input", "probe": "notifier/TestVerifProbeTmpl", "case": ln, "describe": G.describe(parsed[i]),
                "impl_output": a, "model_output": b, "broken": "corr:notifier.executeTemplate (Tmpl.exec / Json.pieces_valid)",
                "oracle_verdict": "the property's oracle holds on the implementation's output for this case"},
                found_input=False)
    if failed and not reported and not mism and not chk.known_hits:
        chk.violation("obligation", {"kind": "table", "broken": [n for n, _ in failed],
                                     "detail": [d[-1500:] for _, d in failed],
                                     "searched": "%d focused renderings inside the property's domain, none fails" % tags.count("focused")},
                      found_input=False)
    chk.notes.append("%d cases, %d model/implementation mismatches, %d oracle failures" % (len(lines), len(mism), failing))
    chk.assumptions += [
        "text/template, fmt, time.Format and encoding/json are modelled by their documented behaviour (Tmpl.v header), not verified",
        "hole languages (Json.inst): what Go prints for an integer or a finite float is a JSON number literal (go_number grammar proved to be one), "
        "json.Marshal output is a text json.Valid accepts, time.Format / String-method output is JSON-string-safe",
        "value-receiver methods with a single string result (StatusConstant.String, time.Time.Format) are total",
        "the data reaching executeTemplate is Tmpl.data_of of Eval.filter_view (Eval.eval_group ...): coordinator.go sends EvaluatorRequests without ShowAll and "
        "passes the reply to Notify unchanged (read, not proved); Eval.v itself is tied to the evaluator by C03/C04",
        "C20_shipped_json is stated for groups of at most 2^24 partitions with windows of at most 2^24 slots (finite completeness ratios by F32Proofs)",
    ]


def replay(path):
    import json
    import sys
    obj = json.load(open(path))
    case = obj.get("case")
    if not case:
        print("replay file has no case (broken: %s)" % obj.get("broken"))
        return 2
    chk = Check("C20", "quick", int(obj.get("seed", 1)))
    if case.startswith("offer "):
        text, expect = obj["template_text"], obj["documented_output"]
        impl = chk.run_impl("tmpl", "TestVerifProbeTmpl", [case], name="replay", extra_env={"VERIF_TMPL_ERRORS": "1"})
        fails = G.offer_oracle(text, expect, impl[0])
        print("case:   " + text)
        print("impl:   " + impl[0])
        print("oracle: " + (", ".join(fails) if fails else "holds"))
        sys.stdout.flush()
        return 1 if fails else 0
    pre(chk)
    C.build_coq()
    impl, model, mism = chk.differential("tmpl", "tmpl", "TestVerifProbeTmpl", [case], name="replay",
                                         extra_env={"VERIF_TMPL_ERRORS": "1"},
                                         project=lambda s: " ".join(s.split(" ")[:2]) if s.startswith("OK") else s.split(" ")[0])
    fails = G.oracle(G.parse(case), impl[0])
    print("case:   " + case)
    print("what:   %s" % G.describe(G.parse(case)))
    print("impl:   " + impl[0])
    print("model:  " + model[0])
    print("oracle: " + (", ".join(fails) if fails else "holds"))
    sys.stdout.flush()
    return 1 if (fails or mism) else 0
