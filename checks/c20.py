"""C20 — notification templates render for every status."""
import common as C
import tmplgen as G
from framework import Check

MODES_QUICK = [("wf", 170), ("close", 40), ("names", 60), ("topics", 30), ("floats", 30), ("struct", 70)]
CONF_QUICK = [("wf", 110), ("close", 30), ("names", 20)]     # Coordinator.Configure cases, 6 Configure runs each


_GEN_HEADER = ("(* FALLBACK written by checks/c20.py: the translator failed on this tree. *)\n"
               "From Coq Require Import ZArith NArith List String Ascii.\nFrom Burrow Require Import Tmpl.\n"
               "Import ListNotations.\nOpen Scope string_scope.\n")
_FALLBACK = {
    "schema": _GEN_HEADER + 'Definition burrow_schema : Tmpl.schema := mkSchema [] "$data" [] "" [] "".\n',
    "templates": _GEN_HEADER + "Definition all_templates : list (string * tmpl) := [].\n",
}


def pre(chk):
    # regenerate the schema of the template data / helper table and the shipped templates from /repo.  A translator
    # that cannot read the tree is a failed obligation (an empty table is written, on which every table obligation is
    # false), not the end of the check: run() then decides by rendering the real templates on generated statuses.
    for name, arg in (("TmplSchema", "schema"), ("Templates", "templates")):
        try:
            out = C.run_translator("tmpl", [arg])
        except C.BuildError as e:
            chk.obligation("translator:" + arg, False, str(e)[-1500:])
            out = _FALLBACK[arg]
        C.write_gen(name, out)


def _differential(chk, lines, name):
    """Model and implementation on the same lines; if the model cannot be built on this tree (a regenerated table does
    not compile) the implementation alone is run and judged by the oracle."""
    try:
        if any(n.startswith("translator:") and not ok for n, ok, _ in chk.obligations):
            raise C.BuildError("the tables the model runs on are fallbacks (translator failure): no model for this tree")
        return chk.differential("tmpl", "tmpl", "TestVerifProbeTmpl", lines, name=name)
    except C.BuildError as e:
        chk.obligation("model-builds", False, str(e)[-1500:])
        impl = chk.run_impl("tmpl", "TestVerifProbeTmpl", lines, name=name)
        chk.evaluations += len(lines)
        return impl, ["(model not available)"] * len(lines), []


def _batch(rng, scale, modes):
    cases = []
    for tmpl in G.shipped_templates(C.REPO):
        for mode, n in modes:
            for _ in range(max(1, int(n * scale))):
                cases.append(G.gen_case(rng, tmpl, mode))
    return cases


def _conf_batch(rng, scale, modes):
    templates = G.shipped_templates(C.REPO)
    return [G.gen_conf(rng, templates, mode) for mode, n in modes for _ in range(max(1, int(n * scale)))]


def _decode_diff(a):
    out = {}
    for tok in a.split(" "):
        if tok.startswith("x") and len(tok) > 1:
            try:
                out.setdefault("outputs", []).append(bytes.fromhex(tok[1:]).decode("utf-8", "replace"))
            except ValueError:
                pass
    return out


def _run_conc(chk, batch_lines, race=False, name="conc"):
    """Runs TestVerifProbeTmplConc on the batch; returns (lines or None, race/crash report or None)."""
    import os
    if not race:
        return chk.run_impl("tmpl", "TestVerifProbeTmplConc", batch_lines, name=name), None
    binp, err = C.build_probe("tmpl", race=True)
    if binp is None:
        chk.notes.append("race build of the probe not available: " + (err or "")[-300:])
        return None, None
    cpath = os.path.join(chk.work, name + ".txt")
    open(cpath, "w").write("\n".join(batch_lines) + "\n")
    opath = os.path.join(chk.work, name + ".impl")
    if os.path.exists(opath):
        os.remove(opath)
    rc, out = C.run_probe(binp, "TestVerifProbeTmplConc", cpath, opath, mem_kb=64 * 1024 * 1024)
    lines = open(opath).read().splitlines() if os.path.exists(opath) else None
    report = None
    if "DATA RACE" in out:
        report = out[out.index("WARNING: DATA RACE"):][:3000]
    elif rc != 0:
        report = "probe exited %s: %s" % (rc, out[-2000:])
    return lines, report


def _concurrent(chk, per_template):
    cases = G.gen_conc_batch(chk.rng, G.shipped_templates(C.REPO), per_template)
    batch = [G.fmt_case(c) for c in cases]
    parsed = [G.parse(ln) for ln in batch]
    reported = 0
    runs = [("conc", False)] + ([("conc_race", True)] if chk.thorough else [])
    for name, race in runs:
        out, report = _run_conc(chk, batch, race=race, name=name)
        if out is None and report is None:
            continue
        chk.evaluations += len(batch) * 36
        chk.count("conc:%s renderings" % ("race" if race else "plain"), len(batch) * 36)
        wrong = []
        for i, (c, a) in enumerate(zip(parsed, out or [])):
            fails = G.conc_oracle(c, a)
            chk.count("conc:" + ("same" if a.startswith("SAME") else "diff"))
            if fails:
                wrong.append((i, a, fails))
        if wrong or report:
            reported += 1
            first = wrong[0] if wrong else None
            chk.violation(name, {
                "kind": "batch", "probe": "notifier/TestVerifProbeTmplConc" + (" (-race)" if race else ""),
                "batch": batch, "wrong_renders": len(wrong), "renders": len(batch),
                "first_wrong_case": batch[first[0]] if first else None,
                "first_wrong_describe": G.describe(parsed[first[0]]) if first else None,
                "impl_output": first[1] if first else None,
                "decoded": _decode_diff(first[1]) if first else None,
                "oracle_verdict": first[2] if first else ["the race detector reports a data race while the batch is rendered concurrently"],
                "race_report": report,
                "broken": "C20: what Burrow executes - executeTemplate on the shipped templates from concurrent goroutines - must give, "
                          "for every status, the rendering the (pure) model gives; re-entrancy of executeTemplate and the helpers",
                "cmd": "bin/check C20 --replay <this file>"})
    return reported


def run(chk, failed):
    scale = 1.0 if not chk.thorough else 25.0
    lines, parsed, tags = [], [], []
    for ln in C.read_corpus(chk.pid):
        lines.append(ln)
        parsed.append(G.parse_any(ln))
        tags.append("corpus")
    for c in _batch(chk.rng, scale, MODES_QUICK):
        ln = G.fmt_case(c)
        lines.append(ln)
        parsed.append(G.parse_any(ln))
        tags.append(c["mode"])
    for c in _conf_batch(chk.rng, scale if not chk.thorough else 8.0, CONF_QUICK):
        ln = G.fmt_conf(c)
        lines.append(ln)
        parsed.append(G.parse_any(ln))
        tags.append("conf")
    for _ in range(int(300 * scale)):
        ln = G.fmt_hcall(G.gen_hcall(chk.rng))
        lines.append(ln)
        parsed.append(G.parse_any(ln))
        tags.append("hcall")
    for _ in range(int(120 * (scale if not chk.thorough else 8.0))):
        ln = G.fmt_seq(G.gen_seq(chk.rng, G.shipped_templates(C.REPO)))
        lines.append(ln)
        parsed.append(G.parse_any(ln))
        tags.append("seq")
    if failed:
        # a table obligation (typecheck / json_skeleton_ok of a shipped template, data_offers) or a theorem no longer
        # checks: look for a concrete status on which the real template fails, inside the property's domain
        for c in _batch(chk.rng, 8.0 * scale, [("wf", 170), ("close", 60)]):
            ln = G.fmt_case(c)
            lines.append(ln)
            parsed.append(G.parse_any(ln))
            tags.append("focused")
    chk.rule = ("every shipped template (config/*.tmpl, parsed as Coordinator.Configure does) x generated group statuses: "
                "status -1..7/100/2^31, 0-6 listed partitions (statuses WARN/STOP/STALL/REWIND and out-of-table), Maxlag nil / listed / "
                "unlisted OK partition with nil Start/End, commit lags nil/non-nil, extras nil/empty/partial/full, open and close "
                "(stateGood) variants, JSON-safe and hostile names, NaN completeness, and structures outside status_wf "
                "(nil partition entry, nil Start/End); plus notifier sections of 1-4 modules (classes http/email/null, template-open / "
                "template-close any pair of shipped files, send-close on/off, files shared between modules) run through the real "
                "Coordinator.Configure with its default parser 6 times each, executing the template objects it stored; plus a concurrent "
                "sequences of 2-4 replies about two groups (open, repeat, close) through the real checkAndSendResponseToModules / notifyModule / "
                "HTTPNotifier.Notify (local HTTP server) / EmailNotifier.Notify (sendMailFunc seam) under the virtual clock, extras with URL-reserved "
                "characters, every body compared with the configured template on the expected data; plus a concurrent "
                "stream (statuses with per-case distinct names rendered from 8/12/16 goroutines at once, byte-for-byte against the sequential output); "
                "non-trivial = at least one partition is listed; distinct by case line")
    impl, model, mism = _differential(chk, lines, "render")
    if any(n == "model-builds" for n, ok, _ in chk.obligations if not ok) and not failed:
        failed = [("model-builds", "the extracted model does not build on this tree")]
    reported = 0
    failing = 0
    for i, (ln, c, tg, a, b) in enumerate(zip(lines, parsed, tags, impl, model)):
        if c["partitions"]:
            chk.nontrivial.add(C.case_hash(ln))
        if c.get("kind") == "hcall":
            chk.count("hcall:" + c["helper"])
            multi = {}
            for p in (c["partitions"] or []):
                multi.setdefault(p["topic"], set()).add(p["status"])
            if any(len(v) > 1 for v in multi.values()):
                chk.count("hcall:topic-in-several-states")
        elif c.get("kind") == "seq":
            chk.count("seq:steps=%d" % len(c["steps"]))
            chk.count("seq:notifications", len(G.seq_expected(c)))
            chk.count("seq:impl=" + ("mismatch" if ("MISMATCH" in a or a.startswith("SEQ-")) else "agrees"))
            for m in c["mods"]:
                chk.count("seq:class=" + m["class"])
        elif c.get("kind") == "conf":
            chk.count("conf:modules=%d" % len(c["mods"]))
            for m in c["mods"]:
                chk.count("conf:class=" + m["class"])
                chk.count("conf:send-close=%d" % m["send_close"])
            if len(set(m["open"] for m in c["mods"]) | set(m["close"] for m in c["mods"] if m["send_close"])) \
                    < len(c["mods"]) + sum(m["send_close"] for m in c["mods"]):
                chk.count("conf:shared-file")
        chk.count("template:" + c["template"])
        chk.count("status:" + G.STATUS.get(c["status"], "other"))
        chk.count("mode:" + tg)
        if c.get("kind") in ("seq", "hcall"):
            pass
        elif c.get("kind") != "conf":
            chk.count("impl:" + a.split(" ")[0] + ("" if " " not in a else " " + a.split(" ")[1]))
        else:
            chk.count("conf:impl=" + ("mismatch" if ("MISMATCH" in a or a.startswith("CONFIGURE-PANIC")) else "agrees"))
        if c.get("kind") is None and not G.json_safe(c) and any(f == "nan" for f in G._floats(c)):
            # outside the evaluator's range (C20_jsonencoder_total): recorded, never judged
            chk.count("nan-injected:%s:%s" % (c["template"], a))
        fails = G.oracle_any(c, a)
        if fails:
            # no recorded, unrepaired finding exists for C20 (F11 was repaired by /repo commit 3f5942d and suppresses
            # nothing): every failure is a violation
            failing += 1
            if reported < 5:
                reported += 1
                chk.violation((c.get("kind", "render") + "_%d") % i, {
                    "kind": "input", "probe": "notifier/TestVerifProbeTmpl", "case": ln, "describe": G.describe_any(c),
                    "impl_output": a, "model_output": b, "oracle_verdict": fails,
                    "decoded": (_decode_diff(next((e for e in a.split(" | ") if "MISMATCH" in e), ""))
                                if c.get("kind") == "seq" else None),
                    "template_text": ({"topicsbystatus": "{{topicsbystatus .Result.Partitions | jsonencoder}}",
                                       "partitioncounts": "{{partitioncounts .Result.Partitions | jsonencoder}}",
                                       "maxlag": "{{maxlag .Result.Maxlag}}",
                                       "arith": "{{add .Result.TotalPartitions 7}} {{minus ...}} {{multiply ...}} {{divide ...}}"}.get(c.get("helper"))
                                      if c.get("kind") == "hcall" else None),
                    "broken": ("C20: the documented helper functions offered to templates return their documented values "
                               "(topics_by_status_spec / partition_count_step; Tmpl.apply_fn)" if c.get("kind") == "hcall" else
                               "C20: the data a module hands to its templates offers the cluster, group, event id, INCIDENT start time, "
                               "CONFIGURED extras and the status, whatever was notified before (C20_module_data_offers_configured), "
                               "and the templates render on it" if c.get("kind") == "seq" else
                               "C20: every configured module executes the template its template-open / template-close key names "
                               "(C20_module_renders_configured_template), and it renders" if c.get("kind") == "conf" else
                               "C20: every shipped template renders (to well-formed JSON) for every status"),
                    "cmd": "bin/check C20 --replay <this file>"})
    # what the data offers: one-action templates against every documented field / helper, on the real code
    offers = chk.run_impl("tmpl", "TestVerifProbeTmpl", [G.offer_case(t) for t, _ in G.OFFERS], name="offers",
                          extra_env={"VERIF_TMPL_ERRORS": "1"})
    chk.evaluations += len(offers)
    for k, ((text, expect), a) in enumerate(zip(G.OFFERS, offers)):
        chk.count("offer:" + ("ok" if a.startswith("OK") else a.split(" ")[0]))
        fails = G.offer_oracle(text, expect, a)
        if fails:
            failing += 1
            reported += 1
            chk.violation("offer_%d" % k, {
                "kind": "input", "probe": "notifier/TestVerifProbeTmpl", "case": G.offer_case(text), "template_text": text,
                "impl_output": a, "documented_output": expect, "oracle_verdict": fails,
                "broken": "C20: the data handed to templates offers the documented fields and helper functions",
                "cmd": "bin/check C20 --replay <this file>"})
    # concurrent stream: the same kind of statuses rendered from 8-16 goroutines at once (3 rounds); thorough: also -race
    reported += _concurrent(chk, 60 if not chk.thorough else 400)
    for k in (0, len(lines) // 3, (2 * len(lines)) // 3, len(lines) - 1):
        chk.sample({"case": lines[k], "describe": G.describe_any(parsed[k]), "impl": impl[k], "model": model[k]})
    # model and implementation disagree on a case the oracle accepts: the correspondence is broken, not the property
    if mism and not reported:
        for (i, ln, a, b) in mism[:3]:
            chk.violation("corr_%d" % i, {
                "kind": "input", "probe": "notifier/TestVerifProbeTmpl", "case": ln, "describe": G.describe_any(parsed[i]),
                "impl_output": a, "model_output": b, "broken": "corr:notifier.executeTemplate (Tmpl.exec / Json.pieces_valid)",
                "oracle_verdict": "the property's oracle holds on the implementation's output for this case"},
                found_input=False)
    if failed and not reported and not mism and not chk.known_hits:
        chk.violation("obligation", {"kind": "table", "broken": [n for n, _ in failed],
                                     "detail": [d[-1500:] for _, d in failed],
                                     "searched": "%d focused renderings inside the property's domain, none fails" % tags.count("focused")},
                      found_input=False)
    chk.notes.append("%d cases, %d model/implementation mismatches, %d oracle failures" % (len(lines), len(mism), failing))
    chk.assumptions += [
        "text/template, fmt, time.Format and encoding/json are modelled by their documented behaviour (Tmpl.v header), not verified",
        "hole languages (Json.inst): what Go prints for an integer or a finite float is a JSON number literal (go_number grammar proved to be one), "
        "the output of a json.Marshal call that SUCCEEDS is a text json.Valid accepts (failure - NaN/Inf floats only for these types - is modelled: "
        "jsonencoder returns \"\"; C20_jsonencoder_total excludes it for evaluator replies within 2^24 partitions/slots), time.Format / String-method output is JSON-string-safe",
        "C20_module_renders_configured_template, C20_module_data_offers_configured, C20_module_data_fields are model-level definitions made explicit "
        "(true by construction); their content is the conf / seq ties",
        "no probe case runs the real evaluator through the notifier into a template: evaluator -> notifier -> template is tied piecewise (C03/C04/PIPE, conf/seq)",
        "value-receiver methods with a single string result (StatusConstant.String, time.Time.Format) are total",
        "what the module classes hand to executeTemplate: Tmpl.notify_step models Notify as reading its extras and leaving them alone; that the real "
        "HTTPNotifier / EmailNotifier (and notifyModule's choice of start time) do so is established by the seq cases of the probe, not by proof",
        "in the model rendering is a pure function of template and data; that executeTemplate, the shipped templates and the helper functions "
        "are re-entrant (the coordinator renders every evaluator response in its own goroutine) is established by the concurrent "
        "stream of the probe (8/12/16 goroutines x 3 rounds, byte-for-byte against the sequential rendering; thorough tier also under -race), not by proof",
        "the data reaching executeTemplate is Tmpl.data_of of Eval.filter_view (Eval.eval_group ...): coordinator.go sends EvaluatorRequests without ShowAll and "
        "passes the reply to Notify unchanged (read, not proved); Eval.v itself is tied to the evaluator by C03/C04",
        "C20_shipped_json is stated for groups of at most 2^24 partitions with windows of at most 2^24 slots (finite completeness ratios by F32Proofs)",
    ]


def replay(path):
    import json
    import sys
    obj = json.load(open(path))
    if obj.get("kind") == "batch":
        chk = Check("C20", "quick", int(obj.get("seed", 1)))
        out, report = _run_conc(chk, obj["batch"], race="-race" in obj.get("probe", ""), name="replay_conc")
        wrong = [(i, a) for i, a in enumerate(out or []) if G.conc_oracle(G.parse(obj["batch"][i]), a)]
        print("batch:  %d cases, 3 rounds, 8/12/16 goroutines" % len(obj["batch"]))
        print("wrong:  %d" % len(wrong))
        if wrong:
            print("first:  " + obj["batch"][wrong[0][0]][:200])
            print("impl:   " + wrong[0][1][:600])
        if report:
            print("report: " + report[:1500])
        sys.stdout.flush()
        return 1 if (wrong or report) else 0
    case = obj.get("case")
    if not case:
        print("replay file has no case (broken: %s)" % obj.get("broken"))
        return 2
    chk = Check("C20", "quick", int(obj.get("seed", 1)))
    if case.startswith("offer "):
        text, expect = obj["template_text"], obj["documented_output"]
        impl = chk.run_impl("tmpl", "TestVerifProbeTmpl", [case], name="replay", extra_env={"VERIF_TMPL_ERRORS": "1"})
        fails = G.offer_oracle(text, expect, impl[0])
        print("case:   " + text)
        print("impl:   " + impl[0])
        print("oracle: " + (", ".join(fails) if fails else "holds"))
        sys.stdout.flush()
        return 1 if fails else 0
    pre(chk)
    C.build_coq()
    if case.startswith("conf ") or case.startswith("seq ") or case.startswith("hcall "):
        impl, model, mism = chk.differential("tmpl", "tmpl", "TestVerifProbeTmpl", [case], name="replay")
    else:
        impl, model, mism = chk.differential("tmpl", "tmpl", "TestVerifProbeTmpl", [case], name="replay",
                                             extra_env={"VERIF_TMPL_ERRORS": "1"},
                                             project=lambda s: " ".join(s.split(" ")[:2]) if s.startswith("OK") else s.split(" ")[0])
    fails = G.oracle_any(G.parse_any(case), impl[0])
    print("case:   " + case)
    print("what:   %s" % G.describe_any(G.parse_any(case)))
    print("impl:   " + impl[0])
    print("model:  " + model[0])
    print("oracle: " + (", ".join(fails) if fails else "holds"))
    sys.stdout.flush()
    return 1 if (fails or mism) else 0
