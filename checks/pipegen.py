"""Generator, case rendering and the end-to-end oracle for the composed data path (checks/pipe.py).

A case is one life of a small Burrow: configuration + a list of events

    ("T", now)                              the clock moves (seconds)
    ("K", cluster, order, key, value, tag)  the reader of `cluster` consumes one offsets-topic message (bytes)
    ("Y", cluster, cycle)                   the cluster module of `cluster` runs one getOffsets cycle in the scripted
                                            environment `cycle` (a cycle dict, see _scenario)
    ("S", cluster, group, order)            two evaluator requests for (cluster, group): order 0 = full view then
                                            problems-only view, 1 = the reverse
    ("L", cluster)                          the consumer list of the cluster (StorageFetchConsumers)
    ("P", cluster, [[(order, key, value, tag)]])  a batch decoded concurrently, one goroutine per list; the lists address
                                            pairwise disjoint groups

Case line / output formats: /verif/ocaml/drv_pipeline.ml.  The part of a Y event behind "@" (what the REAL cluster module
emitted in that cycle) is filled in by `render` from the output of the cluster probe (phase 1 of the check).

The oracle (`Oracle`) recomputes from the EVENTS ALONE - bytes, scripted broker answers, clock - what the end-to-end
statements demand of every status reply; it shares no code with the Coq model (its commit decoder is strict_commit below,
its reading of a cluster cycle is the text of C11/C12,
refreshed_snapshot / expected_updates below)."""
import struct

import sys

try:                      # only the hostile byte stream is borrowed from the wire layer, and only if it still looks the same
    import wiregen as _wiregen
except Exception:         # pragma: no cover
    _wiregen = None


# ------------------------------------------------------------------------------------------------
# PIPE's OWN pattern pool, message encoders and strict commit reader.  They used to be imported from wiregen.py (another
# builder's file): when that pool grew by one entry the pipeline probe / driver tables no longer matched and the check
# failed on the unchanged tree.  The tables below are mirrored in probes/pipeline (vpPatterns) and ocaml/drv_pipeline.ml
# (pat_match / is_set) and nowhere else.
# ------------------------------------------------------------------------------------------------
PATTERNS = ["", "^a", "b$", ".*", "^$", "^(a|b)", "x", ""]
EMPTY = 7          # the list key is PRESENT with the empty string as its value: no list at all (the modules test `!= ""`)
NPAT = len(PATTERNS)


def is_set(idx):
    return idx not in (0, EMPTY)


def pat_match(idx, g):
    if idx == 1:
        return g[:1] == b"a"
    if idx == 2:
        return g[-1:] == b"b"
    if idx == 3:
        return True
    if idx == 4:
        return g == b""
    if idx == 5:
        return g[:1] in (b"a", b"b")
    if idx == 6:
        return b"x" in g
    raise ValueError("pattern index %r outside PIPE's pool" % (idx,))


def accept(allow, deny, g):
    return (not is_set(allow) or pat_match(allow, g)) and not (is_set(deny) and pat_match(deny, g))


def rnd_lists(rng):
    """(allow, deny) settings: 0 = key absent, 1..6 = a pattern, 7 = key present with the empty string"""
    r = rng.random()
    if r < 0.45:
        return 0, 0
    if r < 0.53:
        return rng.choice([(EMPTY, 0), (0, EMPTY), (EMPTY, EMPTY)])
    if r < 0.6:
        return rng.choice([(EMPTY, rng.randrange(1, EMPTY)), (rng.randrange(1, EMPTY), EMPTY)])
    if r < 0.77:
        return rng.randrange(1, EMPTY), 0
    if r < 0.9:
        return 0, rng.randrange(1, EMPTY)
    return rng.randrange(1, EMPTY), rng.randrange(1, EMPTY)


def check_lists(case):
    """fails loudly at generation / rendering time if a case carries a list setting PIPE's tables do not know"""
    cf = case["config"]
    for v in [cf["sallow"], cf["sdeny"]] + [x for cl in case["clusters"] for x in cl[1:]]:
        if not (isinstance(v, int) and 0 <= v < NPAT):
            raise ValueError("list setting %r outside PIPE's pattern pool (0..%d): pipegen.py, probes/pipeline and "
                             "ocaml/drv_pipeline.ml must be extended together" % (v, NPAT - 1))


_warned = []


def foreign_pool_note():
    """a note (not a failure: PIPE no longer depends on it) when the wire layer's pool differs from PIPE's"""
    if _wiregen is None:
        return "wiregen.py could not be imported; the hostile stream is PIPE's own"
    theirs = getattr(_wiregen, "PATTERNS", None)
    if theirs != PATTERNS:
        msg = "wiregen.PATTERNS = %r differs from PIPE's pinned pool %r (harmless for PIPE; extend PIPE's three tables " \
              "together if the new settings should be exercised end to end)" % (theirs, PATTERNS)
        if not _warned:
            _warned.append(msg)
            print("PIPE: " + msg, file=sys.stderr)
        return msg
    return None


class _W:
    def __init__(self):
        self.b = bytearray()

    def i16(self, v):
        self.b += struct.pack(">h", v)

    def i32(self, v):
        self.b += struct.pack(">i", v)

    def i64(self, v):
        self.b += struct.pack(">q", v)

    def string(self, s):
        if s is None:
            self.i16(-1)
        else:
            self.i16(len(s))
            self.b += s

    def bytes_(self, s):
        if s is None:
            self.i32(-1)
        else:
            self.i32(len(s))
            self.b += s


def enc_offset(f):
    """OffsetCommitKey v0/v1 + OffsetCommitValue v0/v1/v3 (written from the Kafka schemas).
    f: dict(keyver, group, topic, partition, valver ('T' = tombstone), offset, epoch, metadata, ts, expire)"""
    k = _W()
    k.i16(f["keyver"])
    k.string(f["group"])
    k.string(f["topic"])
    k.i32(f["partition"])
    v = _W()
    if f["valver"] != "T":
        v.i16(f["valver"])
        v.i64(f["offset"])
        if f["valver"] == 3:
            v.i32(f["epoch"])
        v.string(f["metadata"])
        v.i64(f["ts"])
        if f["valver"] == 1:
            v.i64(f["expire"])
    return bytes(k.b), bytes(v.b)


def enc_meta(f):
    """GroupMetadataKey + GroupMetadataValue v0..v3 with ConsumerProtocolAssignment members.
    f: dict(group, valver ('T' = tombstone), ptype, generation, protocol, leader, statets, members=[...])"""
    k = _W()
    k.i16(2)
    k.string(f["group"])
    v = _W()
    if f["valver"] != "T":
        ver = f["valver"]
        v.i16(ver)
        v.string(f["ptype"])
        v.i32(f["generation"])
        v.string(f["protocol"])
        v.string(f["leader"])
        if ver >= 2:
            v.i64(f["statets"])
        v.i32(len(f["members"]))
        for m in f["members"]:
            v.string(m["id"])
            if ver == 3:
                v.string(m["instance"])
            v.string(m["clientid"])
            v.string(m["host"])
            if ver >= 1:
                v.i32(m["rebalance"])
            v.i32(m["session"])
            v.bytes_(m["subscription"])
            a = m["assignment"]
            if a is None:
                v.i32(-1)
            elif a == "E":
                v.i32(0)
            else:
                sub = _W()
                sub.i16(a["ver"])
                sub.i32(len(a["topics"]))
                for name, parts in a["topics"]:
                    sub.string(name)
                    sub.i32(len(parts))
                    for p in parts:
                        sub.i32(p)
                sub.bytes_(a["userdata"])
                v.i32(len(sub.b))
                v.b += sub.b
    return bytes(k.b), bytes(v.b)


class Short(Exception):
    pass


class Rd:
    def __init__(self, b):
        self.b, self.i = b, 0

    def take(self, n):
        if n < 0 or self.i + n > len(self.b):
            raise Short()
        r = self.b[self.i:self.i + n]
        self.i += n
        return r

    def i16(self):
        return struct.unpack(">h", self.take(2))[0]

    def i32(self):
        return struct.unpack(">i", self.take(4))[0]

    def i64(self):
        return struct.unpack(">q", self.take(8))[0]

    def string(self):
        n = self.i16()
        if n == -1:
            return b""
        if n < 0:
            raise Short()
        return self.take(n)


def strict_commit(key, value):
    """(group, topic, partition, offset, timestamp) of an offset commit every field of which Burrow reads is completely
    present with a possible length (key v0/v1; value v0/v1: offset, metadata, timestamp; v3: + leader epoch), else None.
    Written from the property text / Kafka schemas; shares nothing with the Coq model."""
    try:
        k = Rd(key)
        if k.i16() not in (0, 1):
            return None
        g, t, p = k.string(), k.string(), k.i32()
        v = Rd(value)
        ver = v.i16()
        if ver in (0, 1):
            off = v.i64()
            v.string()
            ts = v.i64()
        elif ver == 3:
            off = v.i64()
            v.i32()
            v.string()
            ts = v.i64()
        else:
            return None
        return (g, t, p, off, ts)
    except Short:
        return None


U64 = 2 ** 64
I64MAX = 2 ** 63 - 1
I64MIN = -2 ** 63
NOW0 = 1700000000

GROUPS = [b"a", b"ab", b"b", b"xa", b"group1", b"bx", b"g2", b"axb"]
ODD_GROUPS = [b"", b"a b", b"grp\xff\xfe", b"\x00", b"t1"]
HOSTS = [b"h1", b"h2", b"", b"host-3"]
CLIENTS = [b"c1", b"c2", b"", b"client-3"]
MIN_COMPLETE = [0, 0, 0, 0x3F000000, 0x3F400000, 0x3F800000, 0x3E99999A]


def hx(b):
    return b.hex() if b else "-"


def topic_name(t):
    return b"t%d" % t


# ------------------------------------------------------------------------------------------------
# cluster cycles: dict -> tokens
# ------------------------------------------------------------------------------------------------

def cycle_tokens(cyc):
    toks = ["1" if cyc["tick"] else "0", "1" if cyc["topics_ok"] else "0", str(len(cyc["topics"]))]
    toks += [str(t) for t in cyc["topics"]]
    toks.append(str(len(cyc["table"])))
    for t, (ok, parts, rows) in cyc["table"].items():
        toks += [str(t), "1" if ok else "0", str(len(parts))]
        for p in parts:
            ld, err, offs = rows[p]
            toks += [str(p), str(ld), str(err), str(len(offs))] + [str(o) for o in offs]
    fl = sorted(cyc["failing"])
    toks += [str(len(fl))] + [str(b) for b in fl]
    return toks


def cluster_lines(case):
    """one scenario line per cluster that has at least one cycle: (cluster id, line).  Kind sc2 of the cluster probe: the
    module is configured through the real Configure with the scenario's client-profile kafka-version (index into
    the cluster probe's table of legal kafka-version strings; the scripted broker answers in the wire format of the request version it is asked in),
    buffered storage channel, no storage stall; rp / rm (reaper tick, failing RefreshMetadata call) as generated."""
    out = []
    for c, _, _ in case["clusters"]:
        cycles = [ev[2] for ev in case["events"] if ev[0] == "Y" and ev[1] == c]
        if cycles:
            toks = ["sc2", str(cycles[0].get("kv", 0)), str(len(cycles))]
            for cyc in cycles:
                toks += ["0", "0", "1" if cyc.get("rp") else "0", "1" if cyc.get("rm") else "0"]
                toks += cycle_tokens(cyc)
            out.append((c, " ".join(toks)))
    return out


def render(case, cluster_out):
    """cluster_out: {cluster id: parsed output of the cluster probe (parse_cluster_out)}"""
    check_lists(case)
    cf = case["config"]
    toks = ["pipe", str(cf["intervals"]), str(cf["expire"]), str(cf["mindist"]), str(cf["minimum"]), str(cf["allowed"]),
            str(cf["now0"]), str(cf["sallow"]), str(cf["sdeny"]), str(len(case["clusters"]))]
    for c, a, d in case["clusters"]:
        toks += [str(c), str(a), str(d)]
    toks.append(str(len(case["events"])))
    case.pop("cluster_died", None)
    seen = {}
    for ev in case["events"]:
        if ev[0] == "T":
            toks += ["T", str(ev[1])]
        elif ev[0] == "K":
            toks += ["K", str(ev[1]), str(ev[2]), hx(ev[3]), hx(ev[4])]
        elif ev[0] == "S":
            toks += ["S", str(ev[1]), hx(ev[2]), str(ev[3])]
        elif ev[0] == "L":
            toks += ["L", str(ev[1])]
        elif ev[0] == "P":
            toks += ["P", str(ev[1]), str(len(ev[2]))]
            for lst in ev[2]:
                toks.append(str(len(lst)))
                for (o, k, v, _) in lst:
                    toks += [str(o), hx(k), hx(v)]
        elif ev[0] == "Y":
            c = ev[1]
            k = seen.get(c, 0)
            seen[c] = k + 1
            toks += ["Y", str(c)] + cycle_tokens(ev[2]) + ["@"]
            obs = cluster_out.get(c, [])
            o = obs[k] if k < len(obs) else None
            if o is None or o == "CRASH":
                # the real cluster module died in this cycle (or an earlier one of this cluster): nothing more reaches storage
                case["cluster_died"] = "the real cluster module of k%d died in its cycle %d" % (c, k if o is not None else len(obs) - 1)
                toks += ["0", "0"]
                continue
            toks += [str(len(o["D"]))] + [str(d[0]) for d in o["D"]]
            toks.append(str(len(o["U"])))
            for (t, p, off, cnt) in o["U"]:
                toks += [str(t), str(p), str(off), str(cnt)]
    return " ".join(toks)


class ClusterCrashed(Exception):
    pass


# ------------------------------------------------------------------------------------------------
# generation
# ------------------------------------------------------------------------------------------------

# ------------------------------------------------------------------------------------------------
# PIPE's OWN cluster scenarios, expectations and reading of the cluster probe's output.  (They used to come from
# clustergen.py, another builder's file whose cycle dicts and helper signatures changed under PIPE twice.)  What remains
# foreign is the cluster PROBE's interface: the `sc2` case line and its "M. F. R .. U .. D .." output line.
# ------------------------------------------------------------------------------------------------
N_KAFKA_VERSIONS = 19      # legal client-profile kafka-version strings the cluster probe configures by index (0 = unset)
KERRORS = [3, 6, 5, 1, -1, 9, 7, 43]


def _new_topic(rng, nb):
    n = rng.choice([1, 1, 2, 2, 3, 3, 4, 5, 6])
    base = rng.choice([0, 1, 1000, 10 ** 6, rng.randrange(0, 10 ** 12), 2 ** 62, I64MAX - 10 ** 6])
    return {"present": True, "ids": list(range(n)),
            "leader": {p: (None if rng.random() < 0.2 else rng.randrange(1, nb + 1)) for p in range(n)},
            "off": {p: base + rng.randrange(0, 1000) for p in range(n)}, "keep_rows": False, "ever": False}


def _scenario(rng, bias):
    """1-6 consecutive getOffsets cycles of one cluster module in environments that meet the pipeline's assumptions
    (partition ids 0..n-1; an offset in every ErrNoError answer; one leader per partition within a cycle).
    -> (list of cycle dicts, tags).  cycle dict: kv, rp, rm, tick, topics_ok, topics, table {t: (parts_ok, ids, {p: (leader|-1,
    kerror, offsets)})}, failing (set of broker ids)."""
    tags = set()
    tb = bias == "topics"
    ntop, nb = rng.randint(1, 4), rng.randint(1, 3)
    world = {}
    for t in range(1, ntop + 1):
        world[t] = _new_topic(rng, nb)
        if rng.random() < 0.15:
            world[t]["present"] = False
    kv = rng.randrange(0, N_KAFKA_VERSIONS)
    tags.add("kafka-version-index:%d" % kv)
    cycles = []
    for c in range(rng.randint(1, 6)):
        if c > 0:
            for t, tw in list(world.items()):
                if tw["present"]:
                    r = rng.random()
                    if r < (0.25 if tb else 0.12):
                        tw["present"], tw["keep_rows"] = False, rng.random() < 0.5
                        tags.add("topic-vanishes")
                    elif r < (0.35 if tb else 0.20):
                        for p in tw["ids"]:
                            tw["leader"][p] = None
                        tags.add("topic-loses-all-leaders")
                    elif r < (0.40 if tb else 0.28) and len(tw["ids"]) < 6:
                        p = len(tw["ids"])
                        tw["ids"].append(p)
                        tw["leader"][p] = None if rng.random() < 0.2 else rng.randrange(1, nb + 1)
                        tw["off"][p] = rng.randrange(0, 1000)
                        tags.add("partition-added")
                    for p in tw["ids"]:
                        r = rng.random()
                        if r < 0.12:
                            old = tw["leader"][p]
                            tw["leader"][p] = rng.randrange(1, nb + 1)
                            if old != tw["leader"][p]:
                                tags.add("leader-gained" if old is None else "leader-change")
                        elif r < 0.17:
                            if tw["leader"][p] is not None:
                                tags.add("leader-lost")
                            tw["leader"][p] = None
                elif rng.random() < (0.5 if tb else 0.35):
                    was = tw["ever"]
                    if rng.random() < 0.5:
                        tw = world[t] = _new_topic(rng, nb)
                        tw["ever"] = was
                    tw["present"] = True
                    tags.add("topic-reappears" if was else "topic-appears")
        for tw in world.values():
            if tw["present"]:
                tw["ever"] = True
            for p in tw["ids"]:
                tw["off"][p] = min(I64MAX, tw["off"][p] + rng.choice([0, 1, 5, 100, 10 ** 4]))
        tick = rng.random() < (0.85 if c == 0 else (0.7 if tb else 0.4))
        topics_ok = True
        if rng.random() < (0.2 if tb else 0.15):
            topics_ok = False
            tags.add("fault:topic-list")
        parts_fail = set()
        if rng.random() < (0.2 if tb else 0.15):
            parts_fail.add(rng.randint(1, ntop))
            tags.add("fault:partition-list")
        all_tp = [(t, p) for t, tw in world.items() for p in tw["ids"]]
        leader_fail = set()
        if all_tp and rng.random() < 0.15:
            for _ in range(rng.choice([1, 1, 2])):
                leader_fail.add(rng.choice(all_tp))
            tags.add("fault:leader-lookup")
        failing = set()
        if rng.random() < 0.15:
            failing = set(rng.randrange(1, nb + 1) for _ in range(rng.choice([1, 1, 2])))
            tags.add("fault:broker-call")
        part_err = {}
        if all_tp and rng.random() < 0.15:
            for _ in range(rng.choice([1, 1, 2, 3])):
                part_err[rng.choice(all_tp)] = rng.choice(KERRORS)
            tags.add("fault:partition-error")
        rp = c > 0 and rng.random() < 0.08
        rm = rng.random() < 0.08
        if rm:
            tags.add("fault:refresh-metadata-call")
        tlist = [t for t, tw in world.items() if tw["present"]]
        rng.shuffle(tlist)
        table = {}
        for t, tw in world.items():
            if not tw["present"] and not tw["keep_rows"]:
                continue
            rows = {}
            for p in tw["ids"]:
                ld = tw["leader"][p]
                if (t, p) in leader_fail or (not tw["present"] and rng.random() < 0.5):
                    ld = None
                err = part_err.get((t, p), 0)
                if not tw["present"] and err == 0 and rng.random() < 0.6:
                    err = 3
                offs = [tw["off"][p]]
                if rng.random() < 0.05:
                    offs.append(rng.randrange(0, 1000))
                if err != 0 and rng.random() < 0.7:
                    offs = []
                rows[p] = (-1 if ld is None else ld, err, offs)
            table[t] = (t not in parts_fail, list(tw["ids"]), rows)
        cycles.append({"kv": kv, "rp": rp, "rm": rm, "tick": tick, "topics_ok": topics_ok, "topics": tlist,
                       "table": table, "failing": failing})
    return cycles, tags


def _leader(cyc, t, p):
    row = cyc["table"].get(t)
    if row is None or p not in row[2]:
        return None
    ld = row[2][p][0]
    return None if ld < 0 else ld


def _answer(cyc, t, p):
    row = cyc["table"].get(t)
    if row is None or p not in row[2]:
        return (3, [])
    return row[2][p][1], row[2][p][2]


def refreshed_snapshot(cyc):
    """the metadata a complete refresh of this cycle reads: topic -> (partitions with a leader, partition count), or None
    when the topic list or some partition list cannot be read (C12: the refresh is abandoned, nothing is deleted)"""
    if not cyc["topics_ok"] or not all(cyc["table"].get(t, (False,))[0] for t in cyc["topics"]):
        return None
    snap = {}
    for t in cyc["topics"]:
        parts = cyc["table"][t][1]
        snap[t] = ([p for p in parts if _leader(cyc, t, p) is not None], len(parts))
    return snap


def expected_updates(cyc, snap):
    """C11's text on one cycle: for every partition the last complete metadata read knows a leader for, the broker that leads
    it NOW is asked; a successful call with ErrNoError records the first offset with the topic's partition count.
    -> (updates {(t, p, offset, count)}, an unknown leader or a per-partition error obliges a re-read)"""
    want, reread = set(), False
    for t, (ids, count) in snap.items():
        for p in ids:
            ld = _leader(cyc, t, p)
            if ld is None:
                reread = True
                continue
            if ld in cyc["failing"]:
                continue
            err, offs = _answer(cyc, t, p)
            if err != 0:
                reread = True
            elif offs:
                want.add((t, p, offs[0], count))
            else:
                raise ValueError("scenario with an ErrNoError answer without offsets: outside the pipeline's assumptions")
    return want, reread


def parse_cluster_out(line):
    """the cluster probe's output line -> per cycle {"D": [(t,)], "U": [(t, p, off, count)]} or "CRASH" / "HANG";
    raises ValueError on a line that does not look like `M. F. R <..> U <..> D <..>` (format owned by probes/cluster)"""
    res = []
    for part in line.split(" | "):
        part = part.strip()
        if part in ("CRASH", "HANG"):
            res.append("CRASH")
            continue
        f = part.split()
        if len(f) < 8 or f[2] != "R" or f[4] != "U" or f[6] != "D":
            raise ValueError("unexpected output of the cluster probe: %r" % part[:200])

        def items(x, width):
            if x == "-":
                return []
            out = sorted(tuple(int(v) for v in it.split(":")) for it in x.split(","))
            if any(len(it) != width for it in out):
                raise ValueError("unexpected item width in the cluster probe's output: %r" % x[:200])
            return out
        res.append({"U": items(f[5], 4), "D": items(f[7], 1)})
    return res


def _near(rng, b):
    r = rng.random()
    if r < 0.55:
        return max(I64MIN, min(I64MAX, b - rng.choice([0, 0, 1, 2, 5, 10, 100, 1000, 10 ** 6])))
    if r < 0.8:
        return max(I64MIN, min(I64MAX, b + rng.choice([1, 1, 3, 10, 500])))
    if r < 0.9:
        return rng.choice([0, 1, -1, I64MAX, I64MIN, I64MAX - 1, 2 ** 32, 2 ** 62])
    return rng.randrange(0, 10 ** 12)


def _commit_msg(group, topic, partition, offset, ts, rng):
    f = dict(keyver=rng.choice([0, 1]), group=group, topic=topic, partition=partition,
             valver=rng.choice([0, 1, 3]), offset=offset, epoch=rng.choice([0, -1, 7]),
             metadata=rng.choice([None, b"", b"meta"]), ts=ts, expire=rng.choice([0, ts + 86400000 if abs(ts) < 2 ** 62 else 0]))
    key, value = enc_offset(f)
    return key, value


def _meta_msg(group, rng, topics_np):
    nm = rng.choice([0, 1, 1, 2, 3])
    members = []
    for i in range(nm):
        a = None
        r = rng.random()
        if r < 0.1:
            a = None
        elif r < 0.2:
            a = "E"
        else:
            tl = []
            for t in rng.sample(sorted(topics_np), min(len(topics_np), rng.choice([1, 1, 2, 3]))) if topics_np else []:
                n = max(1, topics_np[t])
                parts = sorted(set(rng.randrange(0, n + (1 if rng.random() < 0.1 else 0)) for _ in range(rng.randrange(1, n + 1))))
                if rng.random() < 0.05:
                    parts.append(rng.choice([-1, 2 ** 31 - 1, 64]))
                tl.append((topic_name(t), parts))
            if rng.random() < 0.15:
                tl.append((rng.choice([b"other", b"", None, b"t99"]), [0]))
            a = dict(ver=rng.choice([0, 0, 1, 3]), topics=tl, userdata=rng.choice([None, b"", b"\x01\x02"]))
        members.append(dict(id=b"m%d" % i, instance=rng.choice([None, b"i"]), clientid=rng.choice(CLIENTS),
                            host=rng.choice(HOSTS), rebalance=30000, session=10000,
                            subscription=rng.choice([None, b"", b"\x00\x00"]), assignment=a))
    f = dict(group=group, valver=rng.choice([0, 1, 2, 3]), ptype=b"consumer" if rng.random() < 0.9 else rng.choice([b"connect", b"", None]),
             generation=rng.randrange(0, 100), protocol=rng.choice([b"range", None, b""]), leader=rng.choice([b"m0", None]),
             statets=rng.randrange(0, 2 ** 40), members=members)
    key, value = enc_meta(f)
    return key, value


def _own_hostile(rng):
    """structure-aware damage to a small well-formed message of PIPE's own encoders, or plain random bytes"""
    r = rng.random()
    if r < 0.15:
        key = bytearray(rng.randrange(0, 256) for _ in range(rng.randrange(0, 40)))
        value = bytes(rng.randrange(0, 256) for _ in range(rng.randrange(0, 120)))
        if key and rng.random() < 0.7:
            key[0] = 0
            if len(key) > 1:
                key[1] = rng.choice([0, 1, 2, 2, 2])
        return bytes(key), value, "hostile:random"
    g = rng.choice(GROUPS + ODD_GROUPS)
    if rng.random() < 0.5:
        key, value = _commit_msg(g, rng.choice([b"t1", b"t2", b"topic", None]), rng.randrange(0, 4), rng.randrange(0, 10 ** 6),
                                 NOW0 * 1000, rng)
    else:
        key, value = _meta_msg(g, rng, {1: 3, 2: 2})
    key, value = bytearray(key), bytearray(value)
    if r < 0.35:
        if rng.random() < 0.3 and key:
            return bytes(key[:rng.randrange(0, len(key))]), bytes(value), "hostile:truncate-key"
        return bytes(key), bytes(value[:rng.randrange(0, len(value))]) if value else b"", "hostile:truncate-value"
    if r < 0.5:
        buf = key if rng.random() < 0.4 or not value else value
        if len(buf) >= 2:
            buf[0:2] = struct.pack(">h", rng.choice([-1, 0, 1, 2, 3, 4, 5, 256]))
        return bytes(key), bytes(value), "hostile:version"
    # overwrite a 2- or 4-byte field somewhere with a length-like special value
    buf = key if rng.random() < 0.25 or not value else value
    for _ in range(1 if rng.random() < 0.85 else 2):
        w = rng.choice([2, 4])
        if len(buf) >= w:
            pos = rng.randrange(0, len(buf) - w + 1)
            rem = len(buf) - pos - w
            v = rng.choice([-2, -1, 0, 1, rem - 1, rem, rem + 1, 32767, 2 ** 31 - 1, -2 ** 31, rem // 4 + 1, rem // 6 + 1, 65536])
            if w == 2:
                buf[pos:pos + 2] = struct.pack(">h", ((v + 2 ** 15) % 2 ** 16) - 2 ** 15)
            else:
                buf[pos:pos + 4] = struct.pack(">i", ((v + 2 ** 31) % 2 ** 32) - 2 ** 31)
    if rng.random() < 0.15 and value:
        value = value[:rng.randrange(0, len(value) + 1)]
    return bytes(key), bytes(value), "hostile:field"


def _hostile(rng):
    """PIPE's own hostile stream; every second message is taken from the wire layer's C06 stream as long as that generator
    still returns a line ending in <keyhex> <valuehex> (a foreign format change falls back to the own stream instead of
    breaking the check; the random numbers drawn are the own stream's either way, so cases stay reproducible per seed)"""
    own = _own_hostile(rng)
    if _wiregen is not None and rng.random() < 0.5:
        try:
            sub = rng.__class__(rng.getrandbits(64))
            line, tags = _wiregen.gen_hostile(sub)
            f = line.split()
            key = bytes.fromhex(f[-2]) if f[-2] != "-" else b""
            value = bytes.fromhex(f[-1]) if f[-1] != "-" else b""
            return key, value, "hostile:wire-" + str(tags[-1]).split(":")[0]
        except Exception:
            return own
    return own


PAR_PREFIX = [b"pa", b"a-p", b"xp", b"bp", b"p"]


def _batch(rng, c, now, cf, world, nparts, good, order0):
    """a concurrent batch for cluster c: 8-16 goroutines, each with 6-30 messages for its OWN group: commits in ascending
    log position on the partitions the brokers answered (names, topics, offsets differ between goroutines, so a decoder that
    shares state between goroutines mixes them up visibly), own commits cut short, a few metadata messages"""
    ngo = rng.randrange(8, 17)
    known = sorted(t for (cc, t) in world if cc == c)
    lists, groups = [], []
    for i in range(ngo):
        g = rng.choice(PAR_PREFIX) + b"%d" % i + (b"b" if rng.random() < 0.2 else b"")
        groups.append(g)
        msgs = []
        o = order0 + i * 100000
        for _ in range(rng.randrange(6, 31)):
            o += rng.choice([1, 1, 2, 7])
            r = rng.random()
            if known:
                t = rng.choice(known)
                n = max(1, nparts.get((c, t), 1))
                p = rng.choice(good[(c, t)]) if good.get((c, t)) and rng.random() < 0.85 else rng.randrange(0, n)
                b = world[(c, t)].get(p, 1000)
                topic = topic_name(t)
            else:
                topic, p, b = b"t1", 0, 1000
            key, value = _commit_msg(g, topic, p, _near(rng, b), now * 1000 + rng.choice([0, 1, -1, 500, -2000]), rng)
            tag = "commit"
            if r < 0.08 and len(value) > 2:
                value, tag = value[:rng.randrange(0, len(value))], "hostile:own-commit-truncated-value"
            elif r < 0.12:
                key, tag = key[:rng.randrange(0, len(key))], "hostile:own-commit-truncated-key"
            elif r < 0.2:
                key, value = _meta_msg(g, rng, {tt: nn for (cc, tt), nn in nparts.items() if cc == c})
                tag = "metadata"
            msgs.append((o, key, value, tag))
        lists.append(msgs)
    return ("P", c, lists), groups


def gen_case(rng, focus=None):
    """-> case dict with keys config, clusters [(id, reader allow, reader deny)], events, tags"""
    if focus is None:
        focus = rng.choice(["mix", "mix", "mix", "lag", "lag", "lists", "expiry", "hostile", "topics", "conc"])
    tags = {"focus:" + focus}
    cf = dict(intervals=rng.choice([1, 2, 3, 3, 5, 10]), expire=rng.choice([604800, 604800, 3600, 300]),
              mindist=rng.choice([0, 0, 0, 1, 5]), minimum=rng.choice(MIN_COMPLETE), allowed=rng.choice([0, 0, 0, 10, 1000, 2 ** 40]),
              now0=NOW0 + rng.randrange(0, 10 ** 6), sallow=0, sdeny=0)
    if focus == "expiry":
        cf["expire"] = rng.choice([300, 60, 3600])
    ncl = 1 if rng.random() < 0.75 else 2
    if focus == "lists" or rng.random() < 0.15:
        cf["sallow"], cf["sdeny"] = rnd_lists(rng)
        clusters = [(c,) + tuple(rnd_lists(rng)) for c in range(1, ncl + 1)]
        if focus == "lists" and (cf["sallow"], cf["sdeny"]) == (0, 0) and all(cl[1:] == (0, 0) for cl in clusters):
            clusters[0] = (1, rng.randrange(1, EMPTY), rng.randrange(0, NPAT))
    else:
        clusters = [(c, 0, 0) for c in range(1, ncl + 1)]
    scen = {}
    for c, _, _ in clusters:
        cycles, ctags = _scenario(rng, "topics" if focus == "topics" else None)
        scen[c] = cycles
        tags |= {"cluster:" + t for t in ctags}
    groups = rng.sample(GROUPS, rng.choice([1, 2, 2, 3, 4]))
    if rng.random() < 0.2:
        groups.append(rng.choice(ODD_GROUPS))
    events = []
    now = cf["now0"]
    order = {c: rng.choice([0, 100, 10 ** 9, I64MAX - 10 ** 4]) for c, _, _ in clusters}
    world = {}       # (c, t) -> {p: first offset of the table row}, from the latest cycle of c
    nparts = {}      # (c, t) -> number of partitions
    good = {}        # (c, t) -> partitions whose row of the latest cycle has a leader, no error code and an offset
    sent = []        # earlier commits (cluster, group, topic, partition, position, offset)
    used_groups = set()

    def do_cycle(c):
        if not scen[c]:
            return
        cyc = scen[c].pop(0)
        events.append(("Y", c, cyc))
        for t, (ok, parts, rows) in cyc["table"].items():
            nparts[(c, t)] = len(parts)
            good[(c, t)] = [p for p in parts if rows[p][0] >= 0 and rows[p][1] == 0 and rows[p][2]]
            for p in parts:
                offs = rows[p][2]
                if offs:
                    world.setdefault((c, t), {})[p] = offs[0]

    # a first cycle for every cluster most of the time (otherwise every commit is dropped: also worth a few cases)
    for c, _, _ in clusters:
        if rng.random() < 0.9:
            do_cycle(c)
    nev = rng.randrange(8, 45)
    kw = {"mix": (0.5, 0.18, 0.14, 0.1), "lag": (0.62, 0.2, 0.1, 0.03), "lists": (0.55, 0.1, 0.25, 0.05),
          "expiry": (0.45, 0.1, 0.2, 0.05), "hostile": (0.3, 0.1, 0.15, 0.4), "topics": (0.4, 0.3, 0.2, 0.05),
          "conc": (0.45, 0.2, 0.2, 0.05)}[focus]
    batch_groups = []
    batch_at = set()
    if focus == "conc" or rng.random() < 0.04:
        batch_at = set(rng.sample(range(nev), min(nev, rng.choice([1, 1, 2]))))
        tags.add("concurrent-batch")
    for ei in range(nev):
        r = rng.random()
        c = rng.choice(clusters)[0]
        if ei in batch_at:
            ev, bg = _batch(rng, c, now, cf, world, nparts, good, min(I64MAX - 10 ** 8, max(0, order[c])) + 10 ** 6)
            events.append(ev)
            pick = rng.sample(bg, min(len(bg), 4))
            for g in pick:
                events.append(("S", c, g, rng.randrange(0, 2)))
            batch_groups += [(c, g) for g in pick[:2]]
        if rng.random() < (0.5 if focus == "expiry" else 0.3):
            step = rng.choice([0, 1, 1, 5, 30, 61])
            if focus == "expiry" and rng.random() < 0.3:
                step = rng.choice([cf["expire"] - 1, cf["expire"], cf["expire"] + 1, cf["expire"] * 2, cf["expire"] // 2])
            elif rng.random() < 0.03:
                step = cf["expire"] + rng.choice([-1, 0, 1, 1000])
            if step:
                now += step
                events.append(("T", now))
        if r < kw[0]:
            # a well-formed offset commit
            g = rng.choice(groups)
            known = [t for (cc, t) in world if cc == c]
            if known and rng.random() < 0.93:
                t = rng.choice(known)
                n = nparts.get((c, t), 1)
                if good.get((c, t)) and rng.random() < 0.7:
                    p = rng.choice(good[(c, t)])
                else:
                    p = rng.randrange(0, max(1, n)) if rng.random() < 0.9 else rng.choice([n, n + 1, -1, 2 ** 31 - 1, -2 ** 31])
                b = world[(c, t)].get(p, rng.randrange(0, 1000))
                topic = topic_name(t)
            else:
                topic = rng.choice([b"topic", b"", None, b"t7", b"t01", b"T1"])
                p, b = rng.randrange(0, 3), rng.randrange(0, 1000)
            off = _near(rng, b)
            rr = rng.random()
            if rr < 0.8:
                ts = now * 1000 + rng.choice([0, 0, 1, -1, 999, -500, -5000, 1000, 4999, 5000, 5001])
            elif rr < 0.9:
                lim = (now - cf["expire"]) * 1000
                ts = lim + rng.choice([-1, 0, 1, -1000, 1000])
                tags.add("commit:at-expiry-limit")
            elif rr < 0.95:
                ts = now + rng.choice([0, -3, 5])          # seconds instead of milliseconds: far too old
                tags.add("commit:timestamp-in-seconds")
            else:
                ts = rng.choice([0, -1, I64MAX, I64MIN, now * 1000 * 1000])
                tags.add("commit:extreme-timestamp")
            rr = rng.random()
            if rr < 0.75:
                order[c] = min(I64MAX, order[c] + rng.choice([1, 1, 1, 2, 10]))
                o = order[c]
            elif rr < 0.9:
                o = max(I64MIN, order[c] - rng.choice([0, 0, 1, 2, 5, 50]))     # replay / backfill
                tags.add("commit:out-of-order-or-replay")
            else:
                o = rng.choice([0, -1, I64MIN, I64MAX, order[c]])
            mine = [x for x in sent if x[0] == c]
            if mine and rng.random() < 0.12:
                # the same message again (backfill / live overlap), or another payload claiming the same log position
                _, g, topic, p, o, off0 = rng.choice(mine)
                if rng.random() < 0.7:
                    off = off0
                tags.add("commit:same-position-again")
            sent.append((c, g, topic, p, o, off))
            key, value = _commit_msg(g, topic, p, off, ts, rng)
            events.append(("K", c, o, key, value, "commit"))
            used_groups.add((c, g))
        elif r < kw[0] + kw[1]:
            do_cycle(c)
        elif r < kw[0] + kw[1] + kw[2]:
            if rng.random() < 0.2:
                events.append(("L", c))
            else:
                g = rng.choice(groups + [rng.choice(GROUPS + ODD_GROUPS)])
                events.append(("S", c, g, rng.randrange(0, 2)))
        elif r < kw[0] + kw[1] + kw[2] + kw[3]:
            key, value, tg = _hostile(rng)
            if rng.random() < 0.4:
                # aimed at the case's own groups: a commit of this case cut short / with a changed version field
                g = rng.choice(groups)
                known = [t for (cc, t) in world if cc == c]
                t = rng.choice(known) if known else 1
                k2, v2 = _commit_msg(g, topic_name(t), 0, _near(rng, 100), now * 1000, rng)
                rr = rng.random()
                if rr < 0.4 and len(v2) > 2:
                    v2 = v2[:rng.randrange(0, len(v2))]
                    tg = "hostile:own-commit-truncated-value"
                elif rr < 0.6:
                    k2 = k2[:rng.randrange(0, len(k2))]
                    tg = "hostile:own-commit-truncated-key"
                elif rr < 0.8:
                    v2 = struct.pack(">h", rng.choice([2, 4, -1, 5, 256])) + v2[2:]
                    tg = "hostile:own-commit-bad-value-version"
                else:
                    k2 = struct.pack(">h", rng.choice([3, -1, 256, 4])) + k2[2:]
                    tg = "hostile:own-commit-bad-key-version"
                key, value = k2, v2
            order[c] = min(I64MAX, order[c] + 1)
            events.append(("K", c, order[c], key, value, tg))
        else:
            g = rng.choice(groups)
            order[c] = min(I64MAX, order[c] + 1)
            rr = rng.random()
            if rr < 0.2:
                key, value = _meta_msg(g, rng, {})
                value = b""
                tg = "group-tombstone"
            elif rr < 0.3:
                key, value = _commit_msg(g, b"t1", 0, 0, now * 1000, rng)
                value = b""
                tg = "commit-tombstone"
            else:
                key, value = _meta_msg(g, rng, {t: n for (cc, t), n in nparts.items() if cc == c})
                tg = "metadata"
            events.append(("K", c, order[c], key, value, tg))
            used_groups.add((c, g))
    # every group that was addressed is asked about at the end, in every cluster
    if rng.random() < 0.5:
        now += rng.choice([0, 1, 30])
        events.append(("T", now))
    for c, _, _ in clusters:
        if rng.random() < 0.5:
            events.append(("L", c))
        for g in groups + [g for (cc, g) in batch_groups if cc == c]:
            events.append(("S", c, g, rng.randrange(0, 2)))
        if rng.random() < 0.5:
            events.append(("L", c))
    case = dict(config=cf, clusters=clusters, events=events, tags=tags)
    check_lists(case)
    return case


# ------------------------------------------------------------------------------------------------
# output parsing
# ------------------------------------------------------------------------------------------------

def _coff(s):
    if s == "n":
        return None
    o, order, ts, lag = s.split(".")
    return dict(offset=int(o), order=int(order), ts=int(ts), lag=None if lag == "n" else int(lag))


def parse_answer(seg):
    f = seg.split()
    if f[0] not in ("F", "P"):
        return dict(view="?", raw=seg)
    if f[1] == "NF":
        return dict(view=f[0], found=False)
    d = dict(view=f[0], found=True, status=f[1], complete=int(f[2]), total=int(f[3]), totallag=int(f[4]), maxlag=f[6], parts=[])
    n = int(f[8])
    for s in f[9:9 + n]:
        x = s.split(":")
        d["parts"].append(dict(topic=(bytes.fromhex(x[0]) if x[0] != "-" else b""), partition=int(x[1]), status=x[2], lag=int(x[3]),
                               complete=int(x[4]), owner=x[5], client=x[6], start=_coff(x[7]), end=_coff(x[8])))
    return d


def parse_output(line):
    if not line.strip():
        return []
    return [s.strip() for s in line.split(" | ")]


# ------------------------------------------------------------------------------------------------
# the end-to-end oracle
# ------------------------------------------------------------------------------------------------

class _Cluster:
    def __init__(self):
        self.flag = True          # Start(): metadata is read in the first cycle
        self.ghost = None         # last completely read metadata: topic -> (ids with a leader, count, ids are 0..n-1)
        self.broker = {}          # (topic, partition) -> last offset a broker ANSWERED, since the topic was last deleted
        self.groups = {}          # group -> {"last": ts of the last commit that was the newest on arrival, "parts": {(topic, partition): [commit]}}


class Oracle:
    """What the end-to-end statements demand, from the events alone.  `check(case, out_line)` -> list of failures."""

    def __init__(self, case):
        self.cf = case["config"]
        self.lists = {c: (a, d) for c, a, d in case["clusters"]}
        self.cl = {c: _Cluster() for c, _, _ in case["clusters"]}
        self.now = self.cf["now0"]
        self.stats = {}

    def visible(self, c, g):
        a, d = self.lists[c]
        return accept(a, d, g) and accept(self.cf["sallow"], self.cf["sdeny"], g)

    # -- ingest -------------------------------------------------------------------------------
    def cycle(self, c, cyc):
        st = self.cl[c]
        refresh = st.flag or cyc["tick"]
        st.flag = False
        new = refreshed_snapshot(cyc) if refresh else None
        if new is not None:
            if st.ghost is not None:
                for t in st.ghost:
                    if t not in new:
                        self.delete_topic(c, t)
            st.ghost = new
        want_u, reread = expected_updates(cyc, st.ghost or {})
        for (t, p, off, cnt) in want_u:
            st.broker[(t, p)] = off
        st.flag = reread

    def delete_topic(self, c, t):
        st = self.cl[c]
        for k in [k for k in st.broker if k[0] == t]:
            del st.broker[k]
        name = topic_name(t)
        for g in st.groups.values():
            for k in [k for k in g["parts"] if k[0] == name]:
                del g["parts"][k]

    def message(self, c, order, key, value):
        st = self.cl[c]
        a, d = self.lists[c]
        if len(key) >= 2 and key[:2] == b"\x00\x02" and value == b"":
            # group tombstone: the group is deleted (reader lists permitting)
            try:
                g = Rd(key[2:]).string()
            except Short:
                return
            if accept(a, d, g):
                st.groups.pop(g, None)
            return
        cm = strict_commit(key, value)
        if cm is None:
            return                                            # not a well-formed commit: no effect on commits
        g, t, p, off, ts = cm
        self.stats["wellformed_commits"] = self.stats.get("wellformed_commits", 0) + 1
        if not self.visible(c, g):
            self.stats["dropped:lists"] = self.stats.get("dropped:lists", 0) + 1
            return
        if ts < (self.now - self.cf["expire"]) * 1000:
            self.stats["dropped:too-old"] = self.stats.get("dropped:too-old", 0) + 1
            return
        tid = None
        if len(t) >= 2 and t[:1] == b"t" and t[1:].isdigit() and t[1:2] != b"0":
            tid = int(t[1:])
        if tid is None or (tid, p) not in st.broker:
            self.stats["dropped:no-broker-offset"] = self.stats.get("dropped:no-broker-offset", 0) + 1
            return
        grp = st.groups.setdefault(g, {"last": 0, "lastmax": 0, "lastall": 0, "parts": {}})
        lst = grp["parts"].setdefault((t, p), [])
        # upper bound of the group's last-commit time: as if every commit accepted on arrival was stored.  Taken BEFORE the
        # replay test below: a position this oracle has seen may no longer be stored (a later commit merged into its slot takes
        # the slot's position: C02 merge rule, also at min-distance 0 when the later commit's timestamp is lower), and then the
        # "replay" is stored as an out-of-order commit and does move lastCommit
        grp["lastall"] = max(grp["lastall"], ts)
        if any(x["order"] == order for x in lst):
            self.stats["dropped:replay"] = self.stats.get("dropped:replay", 0) + 1
            return
        # the group's last-commit time since the C09 repair (inmemory.go addConsumerOffset): the LARGEST timestamp among the commits
        # the ring stored, whichever partition or ring position they landed in.  A commit placed as the newest is certainly stored
        # ("lastmax"); a backfill below the newest is stored unless the ring is full and it is not newer than the oldest entry,
        # which this oracle does not track ("lastall" = as if every accepted commit was stored).  The true value lies between the
        # two; expiry demands are made only where both readings agree.
        grp["lastall"] = max(grp["lastall"], ts)
        if not lst or order > max(x["order"] for x in lst):
            grp["last"] = ts
            grp["lastmax"] = max(grp["lastmax"], ts)
        lst.append(dict(order=order, offset=off, ts=ts))
        self.stats["live_commits"] = self.stats.get("live_commits", 0) + 1

    # -- a status request ---------------------------------------------------------------------
    def status(self, c, g, answers, where):
        fails = []
        st = self.cl[c]
        full = next((a for a in answers if a.get("view") == "F"), None)
        filt = next((a for a in answers if a.get("view") == "P"), None)
        if full is None or filt is None or "raw" in full or "raw" in filt:
            return ["%s: malformed answer %r" % (where, answers)]
        grp = st.groups.get(g)
        live = {k: v for k, v in (grp["parts"].items() if grp else []) if v}
        lim = (self.now - self.cf["expire"]) * 1000
        expired = grp is not None and lim > grp["lastall"]
        if grp is not None and expired != (lim > grp["lastmax"]):
            # the two readings of the last-commit time disagree: nothing about expiry is demanded of this answer; what the
            # implementation answered decides how the oracle goes on
            if not full["found"]:
                st.groups.pop(g, None)
            self.stats["expiry_reading_ambiguous"] = self.stats.get("expiry_reading_ambiguous", 0) + 1
            if not self.visible(c, g) and (full["found"] or filt["found"]):
                return ["%s: group %r is rejected by the lists but a status was served" % (where, g)]
            return []
        if expired:
            st.groups.pop(g, None)         # the first of the two requests purges the group
        if not self.visible(c, g):
            for a in (full, filt):
                if a["found"]:
                    fails.append("%s: group %r is rejected by the %s lists but a status was served" %
                                 (where, g, "reader's" if not accept(*self.lists[c], g) else "storage's"))
            return fails
        if full["found"] != filt["found"]:
            fails.append("%s: the two views disagree on whether the group exists" % where)
        if expired:
            if live and (full["found"] or filt["found"]):
                fails.append("%s: the group's newest commit (timestamp %d) is older than expire-group at %d but a status was served"
                             % (where, grp["lastall"], self.now))
            return fails
        if live and not full["found"]:
            fails.append("%s: the group has accepted commits (%s) but the evaluator answered NOTFOUND" %
                         (where, sorted((k[0], k[1]) for k in live)[:3]))
            return fails
        if not full["found"]:
            return fails
        self.stats["statuses_found"] = self.stats.get("statuses_found", 0) + 1
        seen = set()
        for part in full["parts"]:
            k = (part["topic"], part["partition"])
            seen.add(k)
            w = "%s topic %r partition %d" % (where, part["topic"], part["partition"])
            if not 0 <= part["lag"] < U64:
                fails.append("%s: CurrentLag %d outside uint64" % (w, part["lag"]))
            if part["end"] is None:
                if part["lag"] != 0:
                    fails.append("%s: no commit reported but CurrentLag = %d" % (w, part["lag"]))
                if k in live:
                    fails.append("%s: accepted commits exist but none is reported" % w)
                continue
            if k not in live:
                fails.append("%s: a commit (offset %d, position %d) is reported but no accepted well-formed commit message "
                             "for it is outstanding" % (w, part["end"]["offset"], part["end"]["order"]))
                continue
            top = max(x["order"] for x in live[k])
            newest = next(x for x in live[k] if x["order"] == top)       # first arrival with the highest log position
            if (part["end"]["offset"], part["end"]["order"]) != (newest["offset"], newest["order"]):
                fails.append("%s: newest reported commit is (offset %d, position %d); the newest accepted commit message by log "
                             "position is (offset %d, position %d)" % (w, part["end"]["offset"], part["end"]["order"],
                                                                     newest["offset"], newest["order"]))
                continue
            tid = int(part["topic"][1:])
            b = st.broker.get((tid, part["partition"]))
            if b is None:
                fails.append("%s: commit reported but no broker ever answered an offset for the partition" % w)
                continue
            want = max(0, b - newest["offset"])
            self.stats["lag_checked"] = self.stats.get("lag_checked", 0) + 1
            if want > 0:
                self.stats["lag_positive"] = self.stats.get("lag_positive", 0) + 1
            if part["lag"] != want:
                fails.append("%s: CurrentLag = %d; last answered broker offset %d - newest commit offset %d => want %d" %
                             (w, part["lag"], b, newest["offset"], want))
        for k in live:
            if k not in seen:
                fails.append("%s: accepted commits for topic %r partition %d but the partition is not reported" % (where, k[0], k[1]))
        total = sum(p["lag"] for p in full["parts"]) % U64
        if full["totallag"] != total:
            fails.append("%s: TotalLag = %d, the reported partitions sum to %d (mod 2^64)" % (where, full["totallag"], total))
        if full["total"] != len(full["parts"]):
            fails.append("%s: TotalPartitions = %d but %d partitions are listed in the full view" % (where, full["total"], len(full["parts"])))
        if filt["found"]:
            for fld in ("status", "complete", "total", "totallag", "maxlag"):
                if filt[fld] != full[fld]:
                    fails.append("%s: the problems-only view differs from the full view in %s (%s vs %s)" % (where, fld, filt[fld], full[fld]))
            want_parts = [p for p in full["parts"] if p["status"] not in ("OK", "NOTFOUND")]
            if filt["parts"] != want_parts:
                fails.append("%s: the problems-only view does not list exactly the partitions worse than OK" % where)
        return fails

    def listing(self, c, seg, where):
        """the consumer list: no group the lists reject; every group with outstanding accepted commits that has not expired"""
        f = seg.split()
        if f[:1] != ["L"] or len(f) < 2:
            return ["%s: malformed list answer %r" % (where, seg)]
        if f[1] == "NIL":
            return ["%s: the configured cluster has no consumer list" % where]
        names = [bytes.fromhex(x) if x != "-" else b"" for x in f[2:]]
        fails = []
        for g in names:
            if not self.visible(c, g):
                fails.append("%s: group %r is rejected by the lists but listed" % (where, g))
        for g, grp in self.cl[c].groups.items():
            live = any(v for v in grp["parts"].values())
            lim = (self.now - self.cf["expire"]) * 1000
            if live and not lim > grp["lastmax"] and g not in names:
                fails.append("%s: group %r has accepted commits but is not listed" % (where, g))
        self.stats["listings"] = self.stats.get("listings", 0) + 1
        return fails

    def check(self, case, out_line):
        segs = parse_output(out_line)
        si = 0
        fails = []
        for i, ev in enumerate(case["events"]):
            if ev[0] == "T":
                self.now = ev[1]
            elif ev[0] == "Y":
                self.cycle(ev[1], ev[2])
            elif ev[0] == "K":
                self.message(ev[1], ev[2], ev[3], ev[4])
            elif ev[0] == "P":
                # disjoint groups per goroutine: any interleaving that keeps each list's order gives the same commits per group
                for lst in ev[2]:
                    for (o, k, v, _) in lst:
                        self.message(ev[1], o, k, v)
                self.stats["concurrent_messages"] = self.stats.get("concurrent_messages", 0) + sum(len(l) for l in ev[2])
            elif ev[0] == "L":
                if si + 1 > len(segs):
                    fails.append("event %d: no answer recorded" % i)
                    break
                fails += self.listing(ev[1], segs[si], "event %d list(k%d)" % (i, ev[1]))
                si += 1
            elif ev[0] == "S":
                if si + 2 > len(segs):
                    fails.append("event %d: no answer recorded (%s)" % (i, segs[si:] or "output ends"))
                    break
                ans = [parse_answer(s) for s in segs[si:si + 2]]
                si += 2
                fails += self.status(ev[1], ev[2], ans, "event %d status(k%d, %r)" % (i, ev[1], ev[2]))
        if si < len(segs):
            fails.append("unexpected trailing output: %s" % segs[si:][:2])
        return fails


def check(case, out_line):
    o = Oracle(case)
    return o.check(case, out_line), o.stats


def describe(case):
    """events as readable text (replay files)"""
    out = []
    for ev in case["events"]:
        if ev[0] == "T":
            out.append("T now=%d" % ev[1])
        elif ev[0] == "K":
            cm = strict_commit(ev[3], ev[4])
            out.append("K cluster=k%d position=%d key=%s value=%s [%s%s]" % (ev[1], ev[2], hx(ev[3]), hx(ev[4]), ev[5],
                       "" if cm is None else ": group %r topic %r partition %d offset %d ts %d" % cm))
        elif ev[0] == "Y":
            out.append("Y cluster=k%d %s" % (ev[1], " ".join(cycle_tokens(ev[2]))))
        elif ev[0] == "S":
            out.append("S cluster=k%d group=%r order=%d" % (ev[1], ev[2], ev[3]))
        elif ev[0] == "L":
            out.append("L cluster=k%d" % ev[1])
        elif ev[0] == "P":
            out.append("P cluster=k%d concurrently, one goroutine per list:" % ev[1])
            for i, lst in enumerate(ev[2]):
                for (o, k, v, tag) in lst:
                    cm = strict_commit(k, v)
                    out.append("    goroutine %d: position=%d key=%s value=%s [%s%s]" % (i, o, hx(k), hx(v), tag,
                               "" if cm is None else ": group %r topic %r partition %d offset %d ts %d" % cm))
    return out
