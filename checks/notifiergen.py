"""Generators, line format, spec-level incident analysis and property oracles for the notifier layer (C13, C14, C10-notifier).

Case line (see /verif/ocaml/drv_notifier.ml for the exact grammar):
  hist T0  NM {thr ivl once close accg allow deny}  NN {name {rx4}*NM}  NP {cluster nameidx}  NS {step}
  step = r dt pair status | g dt cluster n idx*n (n = -1: reply channel closed) | c dt n {cluster m idx*m}
       | s dt n cluster*n (a refresh cycle whose storage requests time out; n = -1: already the cluster-list request)
A history is kept as a dict:
  {"kind", "t0", "mods": [{"thr","iv","once","close","accg","allow","deny"}], "names": [str],
   "pairs": [(cluster, nameidx)], "steps": [step]}
  step = (dt_ns, pair, status)                                  an evaluator response
       | (dt_ns, "g", 0, cluster, [nameidx] | None)             processConsumerList(cluster, list); None = closed reply channel
       | (dt_ns, "c", 0, [(cluster, [nameidx] | None)])         a whole refresh cycle (cluster list, then one group list per cluster)
       | (dt_ns, "s", 0, [cluster] | None)                      a refresh cycle through the real sendClusterRequest whose storage
                                                                requests are not taken within TimeoutSendStorageRequest's second
                                                                (real time): None = the cluster-list request (nothing happens);
                                                                a list = the cluster list is answered, every group-list request
                                                                times out (only the cluster entries are updated)
Nothing is registered implicitly: cluster entries and group records exist only through "c" / "g" steps (a legacy line
whose steps are bare triples is read as: one refresh cycle listing every pair, then the responses).
"""
import re

T0 = 1500000000 * 10**9
SEC = 10**9
KIND = "hist"          # "hist0" is the model of the tree before the F3 fix (kept in the driver for documentation)

# patterns whose meaning is the same in Go's RE2 and Python's re; "-" = list not configured
RX_POOL = ["-", "-", "-", "^a", "b$", ".*", "^$", "^(ab|cd)", "x|y", "^g[0-9]$", "a"]
NAME_POOL = ["a1", "ab", "cdb", "zb", "xay", "q", "g7", "ba", "g77", "cd"]
STATUS_NAME = {0: "NOTFOUND", 1: "OK", 2: "WARN", 3: "ERR", 4: "STOP", 5: "STALL", 6: "REWIND"}


UNSET = ("-", "@e")      # list key absent / present but empty ("" = no list)


def rx4(mod, name):
    a_set = mod["allow"] not in UNSET
    d_set = mod["deny"] not in UNSET
    a_m = a_set and re.search(mod["allow"], name) is not None
    d_m = d_set and re.search(mod["deny"], name) is not None
    return "".join("1" if b else "0" for b in (a_set, a_m, d_set, d_m))


def lists_accept(mod, name):
    """C10's sentence: matches the allowlist if one is set and does not match the denylist if one is set."""
    if mod["allow"] not in UNSET and re.search(mod["allow"], name) is None:
        return False
    if mod["deny"] not in UNSET and re.search(mod["deny"], name) is not None:
        return False
    return True


def thr_of(mod):
    return 2 if mod["thr"] == "d" else int(mod["thr"])


def iv_of(mod):
    return 60 if mod["iv"] == "d" else int(mod["iv"])


def is_resp(st):
    return not isinstance(st[1], str)


def _fmt_list(gs):
    if gs is None:
        return ["-1"]
    return [str(len(gs))] + [str(g) for g in gs]


def fmt_step(st):
    if is_resp(st):
        if len(st) > 3 and st[3] == "o":      # the next step (same pair) arrives during the first Notify call of this one
            return ["o", str(st[0]), str(st[1]), str(st[2])]
        if len(st) > 3:      # (dt, pair, status, "b", refresh step): the refresh arrives during the first Notify call
            return ["b", str(st[0]), str(st[1]), str(st[2])] + [x for i, x in enumerate(fmt_step(st[4])) if i != 1]
        return ["r", str(st[0]), str(st[1]), str(st[2])]
    if st[1] == "g":
        return ["g", str(st[0]), str(st[3])] + _fmt_list(st[4])
    if st[1] == "s":
        return ["s", str(st[0])] + _fmt_list(st[3])
    out = ["c", str(st[0]), str(len(st[3]))]
    for cl, gs in st[3]:
        out += [str(cl)] + _fmt_list(gs)
    return out


def fmt_cfg(h):
    out = ["cfg", h["mode"], str(len(h["mods"]))]
    for m in h["mods"]:
        out += [m["class"], m["allow"], m["deny"], "1" if m["close"] else "0"]
    out.append(str(len(h["names"])))
    for n in h["names"]:
        out.append(n)
        out += [rx4(m, n) for m in h["mods"]]
    return " ".join(out)


def fmt(h):
    if h.get("kind") == "cfg":
        return fmt_cfg(h)
    out = [h.get("kind", KIND), str(h["t0"]), str(len(h["mods"]))]
    for m in h["mods"]:
        out += [str(m["thr"]), str(m["iv"]), "1" if m["once"] else "0", "1" if m["close"] else "0",
                "1" if m["accg"] else "0", m["allow"], m["deny"]]
    out.append(str(len(h["names"])))
    for n in h["names"]:
        out.append(n)
        out += [rx4(m, n) for m in h["mods"]]
    out.append(str(len(h["pairs"])))
    for c, g in h["pairs"]:
        out += [str(c), str(g)]
    out.append(str(len(h["steps"])))
    for st in h["steps"]:
        out += fmt_step(st)
    return " ".join(out)


def cfg_mod(cls, allow, deny, close):
    return {"class": cls, "allow": allow, "deny": deny, "close": close, "thr": 2, "iv": 60, "once": False, "accg": True}


def register_all(pairs, dt=0):
    """The refresh cycle that lists every pair: what a legacy history assumed had happened before its first response."""
    cl = []
    for c, _ in pairs:
        if c not in cl:
            cl.append(c)
    return (dt, "c", 0, [(c, [g for c2, g in pairs if c2 == c]) for c in cl])


def parse(line):
    f = line.split()
    pos = [0]

    def nx():
        pos[0] += 1
        return f[pos[0] - 1]

    def glist():
        n = int(nx())
        return None if n < 0 else [int(nx()) for _ in range(n)]
    if f[0] == "cfg":
        nx()
        h = {"kind": "cfg", "mode": nx(), "t0": T0, "mods": [], "names": [], "pairs": [], "steps": []}
        nm = int(nx())
        for _ in range(nm):
            h["mods"].append(cfg_mod(nx(), nx(), nx(), nx() == "1"))
        for _ in range(int(nx())):
            h["names"].append(nx())
            for _ in range(nm):
                nx()
        return h
    h = {"kind": nx(), "t0": int(nx()), "mods": [], "names": [], "pairs": [], "steps": []}
    nm = int(nx())
    for _ in range(nm):
        thr, iv = nx(), nx()
        h["mods"].append({"thr": thr if thr == "d" else int(thr), "iv": iv if iv == "d" else int(iv),
                          "once": nx() == "1", "close": nx() == "1", "accg": nx() == "1", "allow": nx(), "deny": nx()})
    for _ in range(int(nx())):
        h["names"].append(nx())
        for _ in range(nm):
            nx()
    for _ in range(int(nx())):
        h["pairs"].append((int(nx()), int(nx())))
    legacy = False
    for _ in range(int(nx())):
        k = nx()
        if k == "r":
            h["steps"].append((int(nx()), int(nx()), int(nx())))
        elif k == "g":
            dt, cl = int(nx()), int(nx())
            h["steps"].append((dt, "g", 0, cl, glist()))
        elif k == "c":
            dt = int(nx())
            h["steps"].append((dt, "c", 0, [(int(nx()), glist()) for _ in range(int(nx()))]))
        elif k == "s":
            dt = int(nx())
            h["steps"].append((dt, "s", 0, glist()))
        elif k == "o":
            h["steps"].append((int(nx()), int(nx()), int(nx()), "o"))
        elif k == "b":
            dt, p, st = int(nx()), int(nx()), int(nx())
            if nx() == "g":
                rst = (0, "g", 0, int(nx()), glist())
            else:
                rst = (0, "c", 0, [(int(nx()), glist()) for _ in range(int(nx()))])
            h["steps"].append((dt, p, st, "b", rst))
        else:
            legacy = True
            h["steps"].append((int(k), int(nx()), int(nx())))
    if legacy:
        h["steps"].insert(0, register_all(h["pairs"]))
    return h


def parse_output(line):
    """-> (steps: [[(module, cluster, nameidx, status, id, start, good)]], final: [str] (cluster entries, then the
    records), extra) or None if malformed."""
    if " || " not in line:
        return None
    left, right = line.split(" || ", 1)
    steps = []
    for s in left.split(" | "):
        s = s.strip()
        calls = []
        if s and s != "-":
            for c in s.split(","):
                p = c.split(":")
                if len(p) != 7:
                    return None
                calls.append((int(p[0][1:]), p[1], p[2], int(p[3]), p[4], p[5], p[6] == "1"))
        steps.append(calls)
    extra = ""
    if " RXDIFF" in right:
        right, extra = right.split(" RXDIFF", 1)
        extra = "RXDIFF" + extra
    return steps, [g.strip() for g in right.split(" ; ")], extra


# ---------------------------------------------------------------------------------------------
# spec-level reading of a history (independent of the model): the notifier's list, incidents per (cluster, group)
# ---------------------------------------------------------------------------------------------

class Listing:
    """What the lists received so far say (NotifierProofs.listing): cluster entries and listed (cluster, nameidx) keys."""

    def __init__(self):
        self.known = set()
        self.listed = set()

    def group_list(self, cl, gs):
        if cl not in self.known:
            return
        self.listed = {k for k in self.listed if k[0] != cl} | {(cl, g) for g in (gs or [])}

    def apply(self, st):
        """Takes in a refresh step; returns (removed keys, added keys)."""
        before = set(self.listed)
        if st[1] == "g":
            self.group_list(st[3], st[4])
        elif st[1] == "s":
            if st[3] is not None:       # the cluster list arrived, no group list did
                self.listed = {k for k in self.listed if k[0] in st[3] and k[0] in self.known}
                self.known = set(st[3])
        else:
            cs = [cl for cl, _ in st[3]]
            self.listed = {k for k in self.listed if k[0] in cs and k[0] in self.known}
            self.known = set(cs)
            seen = set()
            for cl, gs in st[3]:
                if cl not in seen:          # one request per distinct cluster; the first entry is the answer
                    seen.add(cl)
                    self.group_list(cl, gs)
        return before - self.listed, self.listed - before


def analyse(h):
    """Per step: clock, and for a response the index of the opening result of the incident the step belongs to (None = no
    incident), whether it is the closing OK, and a segment id (incident or quiet period) per group.  NOTFOUND results and
    results for a group that is not on the notifier's list belong to nothing (dropped).  An incident ends at its closing
    OK, or - without a close - when a refresh takes the group off the list ("lost")."""
    clock = h["t0"]
    L = Listing()
    open_at = {}
    seg = {}
    info = []

    def refresh(st):
        open_before = {k for k, v in open_at.items() if v is not None}
        removed, added = L.apply(st)
        lost = []
        for k in sorted(removed):
            if open_at.get(k) is not None:
                lost.append(open_at[k])
                open_at[k] = None
            seg[k] = seg.get(k, 0) + 1
        return {"removed": sorted(removed), "added": sorted(added), "lost": lost, "kept_open": sorted(open_before & L.listed)}

    for idx, st in enumerate(h["steps"]):
        clock += st[0]
        if not is_resp(st):
            info.append(dict({"clock": clock, "pair": None, "key": None, "status": None, "inc": None, "closing": False, "seg": None,
                              "dropped": True, "kind": st[1]}, **refresh(st)))
            continue
        if len(st) > 3 and st[3] == "o":
            # the next response (same group) arrives while this one is being handed to the modules: hypothesis of the tie -
            # responses of one group are handled one at a time, so this is the sequence of the two
            info += analyse_one_response(h, st, clock, L, open_at, seg, info)
            info[-1]["overlapped"] = True
            continue
        if len(st) > 3:
            # a refresh arrives while the response is being handed to the modules: it takes effect after the response
            info += analyse_one_response(h, st, clock, L, open_at, seg, info)
            info[-1]["then"] = dict(refresh(st[4]), step=st[4])
            continue
        info += analyse_one_response(h, st, clock, L, open_at, seg, info)
    return info


def analyse_one_response(h, st, clock, L, open_at, seg, info):
    p, s = st[1], st[2]
    key = h["pairs"][p]
    if s == 0 or key not in L.listed:
        return [{"clock": clock, "pair": p, "key": key, "status": s, "inc": None, "closing": False, "seg": None,
                 "dropped": True, "kind": "r", "unlisted": key not in L.listed, "noentry": key[0] not in L.known}]
    if open_at.get(key) is None and s > 1:
        open_at[key] = len(info)
        seg[key] = seg.get(key, 0) + 1
    inc = open_at.get(key)
    closing = inc is not None and s == 1
    out = [{"clock": clock, "pair": p, "key": key, "status": s, "inc": inc, "closing": closing,
            "seg": (key, seg.get(key, 0)), "dropped": False, "kind": "r", "unlisted": False}]
    if closing:
        open_at[key] = None
        seg[key] = seg.get(key, 0) + 1
    return out


def incidents_per_pair(h):
    cnt = {}
    for i, st in enumerate(analyse(h)):
        if st["inc"] == i:
            cnt[st["key"]] = cnt.get(st["key"], 0) + 1
    return cnt


def nontrivial(h):
    """At least two incidents of one group."""
    return any(v >= 2 for v in incidents_per_pair(h).values())


def module_accepts(h, mi, key):
    m = h["mods"][mi]
    return lists_accept(m, h["names"][key[1]]) and m["accg"]


def oracle_c13(h, out):
    """Property C13 evaluated on a call log.  Returns a list of failure strings (empty = holds).  An incident keeps its
    identity across every refresh that still lists the group; for an incident lost to a refresh nothing is demanded."""
    if h.get("kind") == "cfg":
        return []        # the construction of the module classes is judged by oracle_c14 / oracle_c10 (lists) and by the differential
    if out.startswith("STUCK"):
        return ["stuck: the coordinator stopped making progress - " + out]
    bad = []
    po = parse_output(out)
    info = analyse(h)
    if po is None or len(po[0]) != len(info):
        return ["malformed output"]
    steps = po[0]
    inc_id = {}
    for i, (st, calls) in enumerate(zip(info, steps)):
        if st["kind"] != "r":
            for cc in calls:
                bad.append(("close: step %d (a refresh) sent a close notification" if cc[6]
                            else "identity: step %d (a refresh) sent a notification") % i)
            continue
        if st["dropped"] and st.get("unlisted"):
            # a result for a group that is not on the notifier's list is not an evaluation the property speaks of (none is
            # requested for such a group): what the code does with it is left to the differential comparison
            continue
        cl, gi = st["key"]
        for (m, c, g, status, eid, start, good) in calls:
            if c != "c%d" % cl or g != "g%d" % gi:
                bad.append("identity: step %d notifies about %s/%s instead of c%d/g%d" % (i, c, g, cl, gi))
            if st["inc"] is not None:
                if eid == "-" or eid.startswith("?"):
                    bad.append("identity: step %d call without event id inside an incident" % i)
                elif inc_id.setdefault(st["inc"], eid) != eid:
                    bad.append("identity: step %d carries id %s, incident opened at %d has id %s" % (i, eid, st["inc"], inc_id[st["inc"]]))
                if start != str(info[st["inc"]]["clock"]):
                    bad.append("identity: step %d start %s is not the clock of the opening result %d" % (i, start, info[st["inc"]]["clock"]))
            if good and not st["closing"]:
                bad.append("close: step %d close notification while no incident is being closed" % i)
        if st["closing"]:
            for mi, m in enumerate(h["mods"]):
                n = sum(1 for cc in calls if cc[0] == mi + 1 and cc[6])
                want = 1 if (m["close"] and module_accepts(h, mi, st["key"])) else 0
                if n != want:
                    bad.append("close: step %d module m%d got %d close notifications, expected %d" % (i, mi + 1, n, want))
    ids = list(inc_id.values())
    if len(set(ids)) != len(ids):
        bad.append("distinct: two incidents share an event id %s" % sorted(inc_id.items()))
    return bad


def oracle_c14(h, out):
    """Property C14 evaluated on a call log (interval and send-once counted within an incident / within a quiet period;
    what a module was sent is remembered across every refresh that still lists the group)."""
    if h.get("kind") == "cfg":
        return oracle_cfg(h, out)
    if out.startswith("STUCK"):
        return ["stuck: the coordinator stopped making progress - " + out]
    bad = []
    po = parse_output(out)
    info = analyse(h)
    if po is None or len(po[0]) != len(info):
        return ["malformed output"]
    steps = po[0]
    last_open = {}      # (module, segment) -> clock of the last open call
    announced = set()   # (module, incident)
    for i, (st, calls) in enumerate(zip(info, steps)):
        seen = set()
        for (m, c, g, status, eid, start, good) in calls:
            if good:
                continue
            mod = h["mods"][m - 1]
            if st["kind"] != "r":
                bad.append("threshold: step %d (a refresh) sent a notification" % i)
                continue
            if st["dropped"] and st.get("unlisted"):
                continue    # not an evaluation the property speaks of (see oracle_c13); left to the differential comparison
            if st["dropped"]:
                bad.append("threshold: step %d NOTFOUND result was notified" % i)
                continue
            if status != st["status"] or st["status"] < thr_of(mod):
                bad.append("threshold: step %d module m%d notified for status %d below threshold %s" % (i, m, st["status"], mod["thr"]))
            if not lists_accept(mod, h["names"][st["key"][1]]):
                bad.append("lists: step %d module m%d notified about a group its lists reject" % (i, m))
            elif not mod["accg"]:
                bad.append("lists: step %d module m%d notified although AcceptConsumerGroup is false" % (i, m))
            key = (m, st["seg"])
            if m in seen:
                bad.append("interval: step %d module m%d notified twice for one result" % (i, m))
            seen.add(m)
            if key in last_open:
                if mod["once"]:
                    bad.append("send-once: step %d module m%d second open notification in the same %s" % (i, m, "incident" if st["inc"] is not None else "quiet period"))
                if not (st["clock"] - last_open[key] > iv_of(mod) * SEC):
                    bad.append("interval: step %d module m%d open notification %d ns after the previous one (send-interval %s s)" % (i, m, st["clock"] - last_open[key], mod["iv"]))
            last_open[key] = st["clock"]
            if st["inc"] is not None:
                announced.add((m, st["inc"]))
        if st["inc"] is not None:
            for mi, mod in enumerate(h["mods"]):
                if st["status"] >= thr_of(mod) and module_accepts(h, mi, st["key"]) and (mi + 1, st["inc"]) not in announced:
                    bad.append("announced: incident opened at step %d reached threshold of m%d at step %d without an open notification" % (st["inc"], mi + 1, i))
                    announced.add((mi + 1, st["inc"]))
    return bad


def parse_cfg_output(out):
    """-> [(class built, name, [(rx4, accept_group, handed)] per group)] per module, or None."""
    mods = []
    try:
        for part in out.split(" ; "):
            f = part.split()
            _, cls, name = f[0].split(":")
            rows = []
            for tok in f[1:]:
                r4, accg, n = tok.split("=", 1)[1].split("/")
                rows.append((r4, accg == "1", int(n)))
            mods.append((cls, name, rows))
    except (ValueError, IndexError):
        return None
    return mods


def oracle_cfg(h, out):
    """C14 / C10 on the construction of the real module classes: a result for a group is handed to a module exactly when the
    group matches the module's configured allowlist (if one is set; "" = not set) and not its denylist (if one is set) -
    computed from the configured pattern texts - and the module's AcceptConsumerGroup agrees."""
    po = parse_cfg_output(out)
    if po is None or len(po) != len(h["mods"]) or any(len(m[2]) != len(h["names"]) for m in po):
        return ["malformed output"]
    bad = []
    for i, (m, (cls, name, rows)) in enumerate(zip(h["mods"], po)):
        who = "m%d (class %s, group-allowlist %s, group-denylist %s)" % (i + 1, m["class"], m["allow"], m["deny"])
        if cls != m["class"] or name != "m%d" % (i + 1):
            bad.append("lists: %s was built as class %s with name %s" % (who, cls, name))
        for g, (r4, accg, n) in zip(h["names"], rows):
            want = 1 if (lists_accept(m, g) and accg) else 0
            if n > want:
                bad.append("lists: %s was handed a result for group %s, which its lists reject" % (who, g))
            elif n < want:
                bad.append("announced: %s was not handed a result for group %s, which its lists accept" % (who, g))
    return bad


def across_incident_pairs(h, out):
    """Number of pairs of consecutive open notifications to one module about one group that are NOT more than send-interval
    apart and belong to different incidents / quiet periods: what "at most once per send interval" would forbid if it were
    read across incidents (NotifierProofs.interval_across_incidents_refuted; the clause is claimed per incident)."""
    if h.get("kind") == "cfg" or out.startswith("STUCK"):
        return 0
    po = parse_output(out)
    info = analyse(h)
    if po is None or len(po[0]) != len(info):
        return 0
    last = {}
    n = 0
    for st, calls in zip(info, po[0]):
        if st["kind"] != "r" or st["dropped"]:
            continue
        for (m, c, g, status, eid, start, good) in calls:
            if good:
                continue
            key = (m, st["key"])
            if key in last and last[key][1] != st["seg"] and st["clock"] - last[key][0] <= iv_of(h["mods"][m - 1]) * SEC:
                n += 1
            last[key] = (st["clock"], st["seg"])
    return n


def oracle_c10(h, out):
    if h.get("kind") == "cfg":
        return oracle_cfg(h, out)
    if out.startswith("STUCK"):
        return []
    bad = []
    po = parse_output(out)
    info = analyse(h)
    if po is None or len(po[0]) != len(info):
        return ["malformed output"]
    for i, (st, calls) in enumerate(zip(info, po[0])):
        for cc in calls:
            if st["key"] is None:
                bad.append("lists: step %d (a refresh) notified module m%d" % (i, cc[0]))
            elif not lists_accept(h["mods"][cc[0] - 1], h["names"][st["key"][1]]):
                bad.append("lists: step %d module m%d notified about a rejected group" % (i, cc[0]))
    return bad


def classify(failures):
    """Failure strings -> sorted set of rule names (the word before the colon)."""
    return sorted({f.split(":", 1)[0] for f in failures})


# ---------------------------------------------------------------------------------------------
# generators
# ---------------------------------------------------------------------------------------------

ALL_OPTS = [(thr, iv, once, close) for thr in (1, 2, 3) for iv in (0, 60) for once in (False, True) for close in (False, True)]


def gen_mod(rng, opts=None, lists=True):
    thr, iv, once, close = opts if opts is not None else rng.choice(ALL_OPTS)
    m = {"thr": thr, "iv": iv, "once": once, "close": close, "accg": rng.random() >= 0.08, "allow": "-", "deny": "-"}
    if rng.random() < 0.04:
        m["thr"] = "d"
    if rng.random() < 0.04:
        m["iv"] = "d"
    if lists and rng.random() < 0.5:
        m["allow"] = rng.choice(RX_POOL)
        m["deny"] = rng.choice(RX_POOL)
    return m


def gen_statuses(rng, n, flavour):
    """Status sequence with runs.  Flavours bias towards many short incidents / long incidents / noise."""
    out = []
    if flavour == "short":
        pool, runs = [1, 2, 3, 3, 1, 2], [1, 1, 1, 2]
    elif flavour == "long":
        pool, runs = [2, 3, 3, 2, 1], [1, 2, 3, 5]
    elif flavour == "escalate":
        pool, runs = [1, 2, 2, 3], [1, 2, 3]
    else:
        pool, runs = [0, 1, 1, 2, 3, 3, 2, 1, 4, 5, 6], [1, 1, 2, 3, 4]
    while len(out) < n:
        s = rng.choice(pool)
        if flavour != "noise" and rng.random() < 0.06:
            s = 0
        out += [s] * rng.choice(runs)
    return out[:n]


def gen_dt(rng, ivs, flavour):
    iv = rng.choice(ivs) if ivs else 60
    if flavour == "boundary":
        return rng.choice([0, 1, iv * SEC - 1, iv * SEC, iv * SEC + 1, (iv - 1) * SEC, (iv + 1) * SEC, 30 * SEC]) if iv > 0 else rng.choice([0, 0, 1, SEC])
    return rng.choice([0, 1, 59 * SEC, 60 * SEC, 61 * SEC, 60 * SEC + 1, 60 * SEC - 1, 10 * SEC, 30 * SEC, 120 * SEC])


REFRESH_KINDS = ["all", "all", "all", "all", "superset", "subset", "subset", "empty", "closed", "other-cluster",
                 "unknown-cluster", "dup", "cycle", "cycle", "cycle-drop-cluster", "cycle-subset"]


def gen_refresh(rng, kind, dt, pairs, nnames, L, target=None):
    """One refresh step.  `target` = the key the refresh is aimed at (a group with an open incident, or the group of the next
    response); "subset" drops it, the other kinds keep it when they concern its cluster."""
    clusters = sorted({c for c, _ in pairs})
    cl = target[0] if target is not None else rng.choice(clusters)
    mine = [g for c, g in pairs if c == cl]
    spare = [g for g in range(nnames) if g not in mine]

    def full(c):
        return [g for c2, g in pairs if c2 == c]
    if kind == "all":
        gs = list(mine)
        rng.shuffle(gs)
        return (dt, "g", 0, cl, gs)
    if kind == "superset":
        gs = mine + rng.sample(spare, min(len(spare), rng.choice([1, 1, 2])))
        rng.shuffle(gs)
        return (dt, "g", 0, cl, gs)
    if kind == "subset":
        drop = {target[1]} if target is not None else {rng.choice(mine)}
        if rng.random() < 0.3 and len(mine) > 1:
            drop.add(rng.choice(mine))
        return (dt, "g", 0, cl, [g for g in mine if g not in drop])
    if kind == "empty":
        return (dt, "g", 0, cl, [])
    if kind == "closed":
        return (dt, "g", 0, cl, None)
    if kind == "other-cluster":
        others = [c for c in clusters if c != cl]
        gs = full(rng.choice(others)) if others else list(spare)
        return (dt, "g", 0, cl, gs)
    if kind == "unknown-cluster":
        return (dt, "g", 0, max(clusters) + rng.choice([1, 2]), list(mine))
    if kind == "dup":
        gs = mine + [rng.choice(mine)]
        rng.shuffle(gs)
        return (dt, "g", 0, cl, gs)
    if kind == "cycle":
        ent = [(c, full(c)) for c in clusters]
        rng.shuffle(ent)
        if rng.random() < 0.15:
            ent.append((rng.choice(clusters), []))          # a repeated cluster name: the first entry is the answer
        if rng.random() < 0.15:
            ent.append((max(clusters) + 1, list(spare[:1])))  # a cluster no response refers to
        return (dt, "c", 0, ent)
    if kind == "cycle-drop-cluster":
        keep = [c for c in clusters if c != cl]
        return (dt, "c", 0, [(c, full(c)) for c in keep])
    if kind == "cycle-subset":
        ent = []
        for c in clusters:
            gs = full(c)
            if c == cl:
                drop = target[1] if target is not None else rng.choice(gs)
                gs = [g for g in gs if g != drop]
            ent.append((c, gs if rng.random() >= 0.1 else None))
        return (dt, "c", 0, ent)
    raise ValueError(kind)


CFG_CLASSES = ["email", "http", "null"]


def gen_cfg(rng, idx):
    """A notifier configuration for the real Configure(): 1-4 modules, every class, list keys absent / present but empty /
    a pattern (walked by case index so that every class meets every combination early), given to viper key by key or as a
    TOML document; group names from the pool so that every match / no-match combination occurs."""
    nm = rng.choice([1, 2, 3, 3, 4])
    mods = []
    for i in range(nm):
        cls = CFG_CLASSES[(idx + i) % 3]
        shape = ((idx // 3) + i * 5) % 9            # allow x deny over {absent, empty, pattern}
        pats = [p for p in RX_POOL if p != "-"]
        allow = ["-", "@e", None][shape % 3]
        deny = ["-", "@e", None][shape // 3]
        mods.append(cfg_mod(cls, rng.choice(pats) if allow is None else allow, rng.choice(pats) if deny is None else deny,
                            rng.random() < 0.4))
    names = rng.sample(NAME_POOL, rng.choice([2, 3, 4, 5]))
    return {"kind": "cfg", "mode": "toml" if (idx // 2) % 2 else "set", "t0": T0, "mods": mods, "names": names, "pairs": [], "steps": []}


def gen_history(rng, idx, focus="mixed", refresh=True, cfg=0.03):
    if rng.random() < cfg:
        return gen_cfg(rng, idx), ["cfg", "-", "-", "-"]
    return gen_hist(rng, idx, focus, refresh)


def gen_hist(rng, idx, focus="mixed", refresh=True):
    """focus: "groups" (several pairs interleaved, C13) | "clock" (one or two pairs, boundary clock steps, C14) | "mixed".
    Refresh steps are put before the first response (the registration), and - aimed at the group of the response that
    follows - between the results of an open incident, just before a closing OK, and outside incidents."""
    if focus == "mixed":
        focus = rng.choice(["groups", "clock"])
    nm = rng.choice([1, 1, 2, 2, 3, 4])
    # the option product is walked systematically by case index so that every combination is used early and often
    mods = [gen_mod(rng, ALL_OPTS[(idx * 4 + i * 7) % len(ALL_OPTS)] if rng.random() < 0.7 else None) for i in range(nm)]
    if focus == "groups":
        ngroups, nclusters = rng.choice([1, 2, 2, 3, 3]), rng.choice([1, 1, 2])
    else:
        ngroups, nclusters = rng.choice([1, 1, 1, 2]), 1
    names = rng.sample(NAME_POOL, min(len(NAME_POOL), ngroups + rng.choice([0, 1, 1, 2])))
    allp = [(c + 1, g) for c in range(nclusters) for g in range(ngroups)]
    rng.shuffle(allp)
    pairs = allp[:max(1, rng.randrange(ngroups, len(allp) + 1))]
    n = rng.choice([1, 2, 3, 4, 5, 6, 8, 10, 12, 16, 20, 24, 30])
    flav = rng.choice(["short", "short", "long", "escalate", "noise"])
    per_pair = {p: gen_statuses(rng, n, flav) for p in range(len(pairs))}
    ivs = [iv_of(m) for m in mods]
    dflav = "boundary" if focus == "clock" or rng.random() < 0.3 else "any"
    # how much refreshing: none after the registration / the production pattern (every list repeats every group) / anything
    rmode = rng.choice(["none", "benign", "any", "any", "any"]) if refresh else "none"
    steps = []
    L = Listing()
    open_inc = set()
    r0 = rng.random()
    if r0 < 0.94:
        steps.append(register_all(pairs, rng.choice([0, 0, SEC])))
    elif r0 < 0.97:
        # group lists arrive before any cluster list (nothing happens), the registration comes later or never
        steps.append(gen_refresh(rng, "all", 0, pairs, len(names), L))
    for st in steps:
        L.apply(st)
    used = {p: 0 for p in per_pair}
    for _ in range(n):
        p = rng.randrange(len(pairs))
        s = per_pair[p][used[p]]
        used[p] += 1
        key = pairs[p]
        is_open = key in open_inc
        if rmode != "none":
            pr = (0.30 if s == 1 else 0.22) if is_open else 0.07
            if key not in L.listed:
                pr = 0.5 if key[0] in L.known else 0.75
            if rng.random() < pr:
                if key[0] not in L.known:
                    kind = "cycle"
                elif key not in L.listed:
                    kind = rng.choice(["all", "cycle", "cycle", "superset"])
                elif rmode == "benign":
                    kind = rng.choice(["all", "all", "superset", "cycle", "dup"])
                else:
                    kind = rng.choice(REFRESH_KINDS)
                aimed = key if rng.random() < 0.8 else None
                if aimed is None and open_inc and rng.random() < 0.5:
                    aimed = rng.choice(sorted(open_inc))
                rst = gen_refresh(rng, kind, gen_dt(rng, ivs, dflav) if rng.random() < 0.5 else 0, pairs, len(names), L, aimed)
                steps.append(rst)
                removed, _ = L.apply(rst)
                open_inc -= removed
        steps.append((gen_dt(rng, ivs, dflav), p, s))
        if s != 0 and key in L.listed:
            if s > 1:
                open_inc.add(key)
            elif s == 1:
                open_inc.discard(key)
    if rmode != "none" and rng.random() < 0.1:
        steps.append(gen_refresh(rng, rng.choice(REFRESH_KINDS), 0, pairs, len(names), L))
    h = {"kind": KIND, "t0": T0, "mods": mods, "names": names, "pairs": pairs, "steps": steps}
    return h, [focus, flav, dflav, rmode]


def f3_witness(once=True, close=False, thr=2, iv=60, refresh=False):
    """DESIGN.md section 5, F3: ERR, OK, ERR, ERR one second apart (optionally with a refresh before each result)."""
    pairs = [(1, 0)]
    steps = [register_all(pairs)]
    for s in (3, 1, 3, 3):
        if refresh:
            steps.append((0, "g", 0, 1, [0]))
        steps.append((SEC, 0, s))
    return {"kind": KIND, "t0": T0,
            "mods": [{"thr": thr, "iv": iv, "once": once, "close": close, "accg": True, "allow": "-", "deny": "-"}],
            "names": ["q"], "pairs": pairs, "steps": steps}


def refresh_witnesses():
    """Hand-made histories around the refresh (always run): an incident with a refresh before every result, listing all / a
    superset; the group dropped in mid-incident and listed again; a cluster dropped and listed again."""
    out = []
    for m in ({"thr": 2, "iv": 0, "once": False, "close": True}, {"thr": 2, "iv": 60, "once": True, "close": True},
              {"thr": 3, "iv": 60, "once": False, "close": False}):
        mod = dict(m, accg=True, allow="-", deny="-")
        base = {"kind": KIND, "t0": T0, "mods": [mod], "names": ["q", "ab"], "pairs": [(1, 0), (1, 1)]}
        reg = register_all(base["pairs"])
        keep = (0, "g", 0, 1, [1, 0])
        sup = (SEC, "g", 0, 1, [0, 1, 1])
        cyc = (0, "c", 0, [(1, [0, 1])])
        drop = (0, "g", 0, 1, [1])
        out.append(dict(base, steps=[reg, (SEC, 0, 3), keep, (SEC, 0, 3), sup, (61 * SEC, 0, 3), cyc, (SEC, 0, 1), keep, (SEC, 0, 3), (SEC, 0, 1)]))
        out.append(dict(base, steps=[reg, (SEC, 0, 3), (SEC, 1, 2), drop, (SEC, 0, 1), (SEC, 1, 3), keep, (SEC, 0, 3), (SEC, 1, 1), (SEC, 0, 1)]))
        out.append(dict(base, steps=[reg, (SEC, 0, 3), (0, "c", 0, []), (SEC, 0, 3), cyc, (SEC, 0, 3), (SEC, 0, 1)]))
    return out


def has_stall(h):
    """Histories that take real time or may block (steps "s" and "b"): run in parallel probe processes."""
    return any((is_resp(st) and len(st) > 3) or ((not is_resp(st)) and st[1] == "s") for st in h["steps"])     # s, b, o


def is_overlap(st):
    return is_resp(st) and len(st) == 4 and st[3] == "o"


def well_formed(h):
    """An "o" step must be followed by a plain response for the same pair at the same clock (shrinking must keep that)."""
    for i, st in enumerate(h["steps"]):
        if is_overlap(st):
            nx = h["steps"][i + 1] if i + 1 < len(h["steps"]) else None
            if nx is None or not is_resp(nx) or len(nx) != 3 or nx[0] != 0 or nx[1] != st[1] or nx[2] == st[2]:
                return False
    return True


def add_overlap(rng, h):
    """Turns one or two results into "o" steps followed by a second result for the same group (another status, same clock):
    two responses of one group in flight."""
    L = Listing()
    idxs = []
    for i, st in enumerate(h["steps"]):
        if is_resp(st):
            if st[2] > 0 and h["pairs"][st[1]] in L.listed:
                idxs.append(i)
        else:
            L.apply(st)
    steps = list(h["steps"])
    for i in sorted(rng.sample(idxs, min(len(idxs), rng.choice([1, 1, 2]))), reverse=True):
        st = steps[i]
        s2 = rng.choice([x for x in (1, 1, 2, 3) if x != st[2]])
        steps[i:i + 1] = [(st[0], st[1], st[2], "o"), (0, st[1], s2)]
    return dict(h, steps=steps)


def overlap_witnesses():
    """ERR (opening) with a slow first module and an OK for the same group meanwhile; OK (closing) with an ERR meanwhile;
    WARN with an ERR meanwhile - two and three modules with send-close."""
    out = []
    for nmods in (2, 3):
        mods = [{"thr": 2, "iv": 0, "once": False, "close": True, "accg": True, "allow": "-", "deny": "-"} for _ in range(nmods)]
        pairs = [(1, 0)]
        for a, b in ((3, 1), (2, 3)):
            out.append({"kind": KIND, "t0": T0, "mods": mods, "names": ["q"], "pairs": pairs,
                        "steps": [register_all(pairs), (SEC, 0, a, "o"), (0, 0, b), (SEC, 0, 3), (SEC, 0, 1)]})
        out.append({"kind": KIND, "t0": T0, "mods": mods, "names": ["q"], "pairs": pairs,
                    "steps": [register_all(pairs), (SEC, 0, 3), (SEC, 0, 1, "o"), (0, 0, 3), (SEC, 0, 1)]})
    return out


def add_blocked(rng, h):
    """Turns one to three results into "b" steps: the first Notify call of the result is slow and a real refresh (the
    production kind: a list that repeats every group, or a superset / whole cycle; sometimes a subset) arrives meanwhile."""
    L = Listing()
    idxs = []
    for i, st in enumerate(h["steps"]):
        if is_resp(st):
            if st[2] > 0 and h["pairs"][st[1]] in L.listed:
                idxs.append(i)
        else:
            L.apply(st)
    if not idxs:
        return h
    steps = list(h["steps"])
    for i in rng.sample(idxs, min(len(idxs), rng.choice([1, 2, 3]))):
        st = steps[i]
        kind = rng.choice(["all", "all", "cycle", "cycle", "superset", "subset", "dup"])
        rst = gen_refresh(rng, kind, 0, h["pairs"], len(h["names"]), None, h["pairs"][st[1]] if rng.random() < 0.8 else None)
        steps[i] = (st[0], st[1], st[2], "b", rst)
    return dict(h, steps=steps)


def blocked_witnesses():
    """Two and three modules, an incident, and a group list / a refresh cycle arriving during the first Notify call of a
    result; the following results (and the closing OK) must still be handled."""
    out = []
    for nmods in (2, 3):
        mods = [{"thr": 2, "iv": 0, "once": False, "close": True, "accg": True, "allow": "-", "deny": "-"} for _ in range(nmods)]
        pairs = [(1, 0), (1, 1)]
        for rst in ((0, "g", 0, 1, [0, 1]), (0, "c", 0, [(1, [1, 0])])):
            out.append({"kind": KIND, "t0": T0, "mods": mods, "names": ["q", "ab"], "pairs": pairs,
                        "steps": [register_all(pairs), (SEC, 0, 3, "b", rst), (SEC, 0, 3), (SEC, 1, 3), (SEC, 0, 1), (SEC, 1, 1)]})
    return out


def stall_cost(h):
    """Real seconds the probe spends in the stalled refreshes of a history (TimeoutSendStorageRequest waits 1 s per request);
    a "b" step costs next to nothing unless the coordinator gets stuck."""
    return sum((1 if st[3] is None else max(1, len(set(st[3])))) + 0.3
               for st in h["steps"] if (not is_resp(st)) and st[1] == "s") + 0.02 * sum(1 for st in h["steps"] if is_resp(st) and len(st) > 3)


def add_stalls(rng, h, budget=3):
    """Inserts one or two stalled refreshes (step "s") - preferably while an incident is open - each followed most of the
    time by a normal refresh cycle that lists every pair again (the sequence a storage hiccup produces)."""
    clusters = sorted({c for c, _ in h["pairs"]})
    info = analyse(h)
    open_keys, open_after = set(), []
    for st in info:
        if st["kind"] == "r":
            if st["inc"] is not None and not st["closing"]:
                open_keys.add(st["key"])
            elif st["closing"]:
                open_keys.discard(st["key"])
        else:
            open_keys -= set(st["removed"])
        open_after.append(bool(open_keys))
    inside = [i + 1 for i, o in enumerate(open_after) if o]
    anywhere = list(range(1, len(h["steps"]) + 1))
    steps = list(h["steps"])
    spent = 0
    for _ in range(rng.choice([1, 1, 2])):
        r = rng.random()
        if r < 0.45:
            what = None
        elif r < 0.9:
            what = list(clusters)
        else:
            what = [c for c in clusters if c != rng.choice(clusters)] or list(clusters)   # the cluster list drops a cluster
        cost = 1 if what is None else max(1, len(set(what)))
        if spent + cost > budget:
            break
        spent += cost
        pos = rng.choice(inside) if inside and rng.random() < 0.8 else rng.choice(anywhere)
        ins = [(rng.choice([0, 0, SEC, 61 * SEC]), "s", 0, what)]
        if rng.random() < 0.7:
            ins.append(register_all(h["pairs"], rng.choice([0, SEC])))
        steps[pos:pos] = ins
        inside = [i + len(ins) if i >= pos else i for i in inside]
        anywhere = list(range(1, len(steps) + 1))
    return dict(h, steps=steps)


def stall_witnesses():
    """The storage hiccup in the middle of an announced incident: ERR (announced), a refresh whose storage request times
    out, a normal refresh, ERR again, OK - for a send-once module and for a send-interval module, for both requests."""
    out = []
    for what in (None, [1]):
        for m in ({"thr": 2, "iv": 0, "once": True, "close": True}, {"thr": 2, "iv": 60, "once": False, "close": True}):
            mod = dict(m, accg=True, allow="-", deny="-")
            pairs = [(1, 0)]
            out.append({"kind": KIND, "t0": T0, "mods": [mod], "names": ["q"], "pairs": pairs,
                        "steps": [register_all(pairs), (SEC, 0, 3), (SEC, "s", 0, what), register_all(pairs, SEC), (SEC, 0, 3), (SEC, 0, 1)]})
    return out


def _shorter(gs):
    return [] if gs is None else [gs[:i] + gs[i + 1:] for i in range(len(gs))]


def deletions(h):
    """All histories obtained by deleting one step, one module, one unused pair, or one entry of a refresh step's lists
    (the deleted step's clock step is added to its successor so that the clocks of the remaining steps do not move)."""
    out = []
    if h.get("kind") == "cfg":
        if len(h["mods"]) > 1:
            out += [dict(h, mods=[m for j, m in enumerate(h["mods"]) if j != i]) for i in range(len(h["mods"]))]
        if len(h["names"]) > 1:
            out += [dict(h, names=[n for j, n in enumerate(h["names"]) if j != i]) for i in range(len(h["names"]))]
        return out
    for i, st in enumerate(h["steps"]):
        if is_resp(st) and len(st) > 4:      # the refresh after the response instead of during it
            out.append(dict(h, steps=h["steps"][:i] + [st[:3], st[4]] + h["steps"][i + 1:]))
    for i in range(len(h["steps"])):
        st = list(h["steps"])
        dt = st[i][0]
        del st[i]
        if i < len(st):
            st[i] = (st[i][0] + dt,) + tuple(st[i][1:])
        out.append(dict(h, steps=st))
    if len(h["mods"]) > 1:
        for i in range(len(h["mods"])):
            out.append(dict(h, mods=[m for j, m in enumerate(h["mods"]) if j != i]))
    used = {st[1] for st in h["steps"] if is_resp(st)}
    for p in range(len(h["pairs"])):
        if p not in used and len(h["pairs"]) > 1:
            ren = {q: (q if q < p else q - 1) for q in range(len(h["pairs"]))}
            out.append(dict(h, pairs=[x for j, x in enumerate(h["pairs"]) if j != p],
                            steps=[((st[0], ren[st[1]]) + tuple(st[2:])) if is_resp(st) else st for st in h["steps"]]))
    for i, st in enumerate(h["steps"]):
        if is_resp(st):
            continue
        if st[1] == "g":
            for gs in _shorter(st[4]):
                out.append(dict(h, steps=h["steps"][:i] + [(st[0], "g", 0, st[3], gs)] + h["steps"][i + 1:]))
        elif st[1] == "s":
            pass
        else:
            for j, (cl, gs) in enumerate(st[3]):
                if len(st[3]) > 1:
                    out.append(dict(h, steps=h["steps"][:i] + [(st[0], "c", 0, st[3][:j] + st[3][j + 1:])] + h["steps"][i + 1:]))
                for g2 in _shorter(gs):
                    out.append(dict(h, steps=h["steps"][:i] + [(st[0], "c", 0, st[3][:j] + [(cl, g2)] + st[3][j + 1:])] + h["steps"][i + 1:]))
    return out


# ---------------------------------------------------------------------------------------------
# shared body of the C13 / C14 check modules
# ---------------------------------------------------------------------------------------------

def run_impl_parallel(chk, hs, name, procs=12):
    """Runs the implementation on histories with stalled refreshes (real seconds each) in several probe processes at once
    (one process runs its histories one after the other: viper and the virtual clock are process-wide)."""
    import os
    from concurrent.futures import ThreadPoolExecutor
    import common as C
    import framework
    binp, err = C.build_probe("notifier")
    if binp is None:
        raise framework.ProbeBroken("probe notifier does not compile against the tree:\n%s" % (err or "")[-3000:])
    procs = max(1, min(procs, len(hs)))
    order = sorted(range(len(hs)), key=lambda i: -stall_cost(hs[i]))
    chunks, load = [[] for _ in range(procs)], [0.0] * procs
    for i in order:                       # longest first onto the least loaded process
        j = load.index(min(load))
        chunks[j].append(i)
        load[j] += stall_cost(hs[i]) + 0.01

    def one(j):
        cpath = os.path.join(chk.work, "%s.%d.txt" % (name, j))
        opath = os.path.join(chk.work, "%s.%d.impl" % (name, j))
        with open(cpath, "w") as f:
            for i in chunks[j]:
                f.write(fmt(hs[i]) + "\n")
        if os.path.exists(opath):
            os.remove(opath)
        rc, out = C.run_probe(binp, "TestVerifProbeNotifier", cpath, opath, timeout=900)
        lines = open(opath).read().splitlines() if os.path.exists(opath) else []
        return rc, out, lines
    with ThreadPoolExecutor(max_workers=procs) as ex:
        results = list(ex.map(one, range(procs)))
    res = [None] * len(hs)
    for j, (rc, out, lines) in enumerate(results):
        if rc != 0 or len(lines) != len(chunks[j]):
            bad = chunks[j][len(lines)] if len(lines) < len(chunks[j]) else None
            raise framework.ProbeCrashed(rc, out, len(lines), fmt(hs[bad]) if bad is not None else None)
        for i, ln in zip(chunks[j], lines):
            res[i] = ln
    return res


def run_impl(chk, hs, name):
    """Runs only the implementation (probe) on histories; returns output lines."""
    import os
    import common as C
    if any(has_stall(h) for h in hs):
        return run_impl_parallel(chk, hs, name)
    binp, err = C.build_probe("notifier")
    if binp is None:
        raise C.BuildError("notifier probe does not build: %s" % (err or "")[-2000:])
    cpath = os.path.join(chk.work, name + ".txt")
    opath = os.path.join(chk.work, name + ".impl")
    with open(cpath, "w") as f:
        for h in hs:
            f.write(fmt(h) + "\n")
    if os.path.exists(opath):
        os.remove(opath)
    rc, out = C.run_probe(binp, "TestVerifProbeNotifier", cpath, opath, timeout=600)
    lines = open(opath).read().splitlines() if os.path.exists(opath) else []
    if rc != 0 or len(lines) != len(hs):
        raise C.BuildError("notifier probe failed while shrinking (rc=%s, %d/%d lines): %s" % (rc, len(lines), len(hs), out[-1500:]))
    return lines


def shrink(chk, h, out, oracle, rules, budget=80):
    """Deletes steps / modules while the oracle still reports one of `rules` on the implementation's output."""
    rounds = 0
    if "stuck" in rules:
        budget = min(budget, 10)     # every stuck candidate costs the probe its real-time deadline
    while rounds < budget:
        rounds += 1
        cands = [c for c in deletions(h) if c.get("kind") == "cfg" or well_formed(c)]
        if not cands:
            break
        outs = run_impl(chk, cands, "shrink")
        nxt = None
        for c, o in zip(cands, outs):
            if set(classify(oracle(c, o))) & set(rules):
                nxt = (c, o)
                break
        if nxt is None:
            break
        h, out = nxt
    return h, out


def describe(h):
    if h.get("kind") == "cfg":
        return {"configuration": "given to viper %s" % ("as a TOML document" if h["mode"] == "toml" else "key by key (viper.Set)"),
                "modules": ["m%d class-name=%s group-allowlist=%s group-denylist=%s send-close=%d" % (
                    i + 1, m["class"], {"-": "(key absent)", "@e": '""'}.get(m["allow"], m["allow"]),
                    {"-": "(key absent)", "@e": '""'}.get(m["deny"], m["deny"]), m["close"]) for i, m in enumerate(h["mods"])],
                "events": ["an ERR result for group %s: handed to %s" % (n, ", ".join("m%d" % (i + 1) for i, m in enumerate(h["mods"]) if lists_accept(m, n)) or "no module")
                           for n in h["names"]]}
    info = analyse(h)

    def gl(gs):
        return "(reply channel closed)" if gs is None else "[%s]" % ",".join(h["names"][g] for g in gs)
    ev = []
    for st, raw in zip(info, h["steps"]):
        t = "t=+%.9fs " % ((st["clock"] - h["t0"]) / SEC)
        if st["kind"] == "r":
            note = ""
            if st["dropped"] and st["status"] != 0:
                note = "  (dropped: the group is not on the notifier's list)"
            elif st["inc"] is not None:
                note = "  (incident opened at step %d%s)" % (st["inc"], ", closing OK" if st["closing"] else "")
            if st.get("overlapped"):
                note += "  [the first Notify call is slow; the next result arrives meanwhile]"
            if "then" in st:
                r2 = st["then"]["step"]
                note += "  [the first Notify call is slow; meanwhile arrives a %s]" % (
                    "group list for c%d: %s" % (r2[3], gl(r2[4])) if r2[1] == "g" else
                    "refresh cycle: clusters [%s]" % ", ".join("c%d: %s" % (cl, gl(gs)) for cl, gs in r2[3]))
            ev.append(t + "result c%d/%s %s%s" % (st["key"][0], h["names"][st["key"][1]], STATUS_NAME.get(st["status"], st["status"]), note))
        else:
            if st["kind"] == "g":
                what = "group list for c%d: %s" % (raw[3], gl(raw[4]))
            elif st["kind"] == "s":
                what = ("refresh cycle, the cluster-list request times out (storage does not take it within 1 s)" if raw[3] is None else
                        "refresh cycle, cluster list [%s] answered, every group-list request times out" % ",".join("c%d" % c for c in raw[3]))
            else:
                what = "refresh cycle: clusters [%s]" % ", ".join("c%d: %s" % (cl, gl(gs)) for cl, gs in raw[3])
            eff = []
            if st["kept_open"]:
                eff.append("keeps listed with an open incident: " + ",".join("c%d/%s" % (c, h["names"][g]) for c, g in st["kept_open"]))
            if st["removed"]:
                eff.append("takes off the list: " + ",".join("c%d/%s" % (c, h["names"][g]) for c, g in st["removed"]))
            if st["lost"]:
                eff.append("incidents lost (opened at steps %s)" % st["lost"])
            if st["added"]:
                eff.append("puts on the list: " + ",".join("c%d/%s" % (c, h["names"][g]) for c, g in st["added"]))
            ev.append(t + what + ("  (" + "; ".join(eff) + ")" if eff else ""))
    return {"modules": ["m%d thr=%s send-interval=%s once=%d close=%d acceptgroup=%d allow=%s deny=%s" % (
        i + 1, m["thr"], m["iv"], m["once"], m["close"], m["accg"], m["allow"], m["deny"]) for i, m in enumerate(h["mods"])],
        "events": ["%d: %s" % (i, e) for i, e in enumerate(ev)]}


def count_refreshes(chk, h):
    """Input distribution of the refresh steps: where they fall and what they do."""
    info = analyse(h)
    first_resp = next((i for i, st in enumerate(info) if st["kind"] == "r"), len(info))
    nref = 0
    for i, (st, raw) in enumerate(zip(info, h["steps"])):
        if st["kind"] == "r":
            if st.get("overlapped"):
                chk.count("two-responses-of-one-group-in-flight%s" % (",incident-open-or-opening" if st["inc"] is not None else ""))
            if "then" in st:
                chk.count("slow-module:refresh(%s)-during-the-first-Notify-call%s" % (
                    {"g": "group-list", "c": "cycle"}[st["then"]["step"][1]], ",incident-open" if st["inc"] is not None else ""))
            if st["dropped"] and st.get("noentry"):
                chk.count("result:for-a-cluster-without-entry(model only; the probe does not run it)")
            elif st["dropped"] and st.get("unlisted") and st["status"] != 0:
                chk.count("result:for-a-group-off-the-list")
            continue
        nref += 1
        chk.count("refresh:kind=%s" % {"g": "group-list", "c": "cycle", "s": "cycle-with-timed-out-storage-request"}[st["kind"]])
        if st["kind"] == "s":
            chk.count("stalled-refresh:%s%s" % ("cluster-list-request" if raw[3] is None else "group-list-requests",
                                                ",inside-an-open-incident" if st["kept_open"] else ""))
        if st["kind"] == "g":
            gs = raw[4]
            chk.count("refresh:list=%s" % ("closed-channel" if gs is None else "empty" if not gs else "dup" if len(set(gs)) < len(gs) else "plain"))
        nxt = info[i + 1] if i + 1 < len(info) else None
        if i < first_resp:
            chk.count("refresh-pos:before-first-response")
        elif st["kept_open"] or st["lost"]:
            chk.count("refresh-pos:inside-an-open-incident")
            if nxt is not None and nxt["kind"] == "r" and nxt["closing"] and nxt["key"] in st["kept_open"]:
                chk.count("refresh-pos:just-before-the-closing-OK")
        else:
            chk.count("refresh-pos:outside-incidents")
        if st["kept_open"]:
            chk.count("refresh-effect:keeps-a-group-with-open-incident")
        if st["lost"]:
            chk.count("refresh-effect:drops-a-group-with-open-incident")
        if st["removed"] and not st["lost"]:
            chk.count("refresh-effect:drops-a-quiet-group")
        if st["added"]:
            chk.count("refresh-effect:adds-a-group" + ("-again" if i >= first_resp else ""))
        if not st["removed"] and not st["added"]:
            chk.count("refresh-effect:list-unchanged")
    chk.count("refreshes-per-history:%s" % ("0" if nref == 0 else "1" if nref == 1 else "2-4" if nref <= 4 else "5+"))
    relisted = any(st["kind"] == "r" and st["inc"] == i and any(i2 < i and i3["kind"] != "r" and st["key"] in i3["removed"]
                                                                  for i2, i3 in enumerate(info)) for i, st in enumerate(info))
    if relisted:
        chk.count("incident-opened-after-relisting")


def check_body(chk, failed, pid, oracle, focus_weights, n_quick, n_thorough, corr_name, n_stall_quick=36, n_stall_thorough=400,
               n_block_quick=240, n_block_thorough=4000, n_overlap_quick=300, n_overlap_thorough=5000):
    import common as C
    n = n_thorough if chk.thorough else n_quick
    hs, tags = [], []
    for ln in C.read_corpus(pid):
        hs.append(parse(ln))
        tags.append(["corpus", "-", "-", "-"])
    # the F3 witnesses always run (regression of the repaired defect), plain and with a refresh before every result
    for once, close, iv in ((True, False, 60), (False, False, 60), (True, True, 60), (True, False, 0)):
        for rf in (False, True):
            hs.append(f3_witness(once=once, close=close, iv=iv, refresh=rf))
            tags.append(["f3-witness", "-", "-", "-"])
    for h in refresh_witnesses():
        hs.append(h)
        tags.append(["refresh-witness", "-", "-", "-"])
    for i in range(n):
        h, tg = gen_history(chk.rng, i, chk.rng.choice(focus_weights))
        hs.append(h)
        tags.append(tg)
    cases = [fmt(h) for h in hs]
    impl, model, mism = chk.differential("notifier", "notifier", "TestVerifProbeNotifier", cases, name="hist")

    # histories with refreshes whose storage request times out (real seconds each): few, run in parallel probe processes
    hs_s, tags_s = [], []
    for h in stall_witnesses():
        hs_s.append(h)
        tags_s.append(["stall-witness", "-", "-", "-"])
    for i in range(n_stall_thorough if chk.thorough else n_stall_quick):
        h, tg = gen_hist(chk.rng, i, chk.rng.choice(focus_weights))
        hs_s.append(add_stalls(chk.rng, h))
        tags_s.append(tg)
    # histories with a slow module during whose Notify call a real refresh arrives (each wait has a deadline: STUCK)
    for h in blocked_witnesses():
        hs_s.append(h)
        tags_s.append(["slow-module-witness", "-", "-", "-"])
    for i in range(n_block_thorough if chk.thorough else n_block_quick):
        h, tg = gen_hist(chk.rng, i, chk.rng.choice(focus_weights))
        h = add_blocked(chk.rng, h)
        if has_stall(h):
            hs_s.append(h)
            tags_s.append(tg)
    # two responses of ONE group in flight (slow first module, the next result of the group delivered meanwhile)
    for h in overlap_witnesses():
        hs_s.append(h)
        tags_s.append(["overlap-witness", "-", "-", "-"])
    for i in range(n_overlap_thorough if chk.thorough else n_overlap_quick):
        h, tg = gen_hist(chk.rng, i, chk.rng.choice(focus_weights))
        h = add_overlap(chk.rng, h)
        if has_stall(h):
            hs_s.append(h)
            tags_s.append(tg)
    if hs_s:
        cases_s = [fmt(h) for h in hs_s]
        impl_s = run_impl_parallel(chk, hs_s, "stall")
        model_s = chk.run_model("notifier", cases_s, name="stall")
        off = len(hs)
        mism += [(off + i, c, a, b) for i, (c, a, b) in enumerate(zip(cases_s, impl_s, model_s)) if a != b]
        chk.evaluations += len(cases_s)
        chk.traces_validated += len(cases_s)
        chk.count("histories-with-a-timed-out-storage-request", sum(1 for h in hs_s if any((not is_resp(st)) and st[1] == "s" for st in h["steps"])))
        chk.count("histories-with-two-responses-of-one-group-in-flight", sum(1 for h in hs_s if any(is_overlap(st) for st in h["steps"])))
        chk.count("histories-with-a-slow-module-and-a-concurrent-refresh", sum(1 for h in hs_s if any(is_resp(st) and len(st) > 4 for st in h["steps"])))
        hs, tags, cases, impl, model = hs + hs_s, tags + tags_s, cases + cases_s, impl + impl_s, model + model_s

    for h, c, tg in zip(hs, cases, tags):
        inc = incidents_per_pair(h)
        if any(v >= 2 for v in inc.values()):
            chk.nontrivial.add(C.case_hash(c))
        chk.count("focus:" + tg[0])
        chk.count("statuses:" + tg[1])
        chk.count("clock:" + tg[2])
        chk.count("refresh-mode:" + tg[3])
        chk.count("modules:%d" % len(h["mods"]))
        chk.count("pairs:%d" % len(h["pairs"]))
        chk.count("max-incidents-per-group:%s" % min(max(inc.values()) if inc else 0, 5))
        if h.get("kind") == "cfg":
            chk.count("cfg:mode=%s" % h["mode"])
            for m in h["mods"]:
                chk.count("cfg:class=%s,allow=%s,deny=%s" % (m["class"], {"-": "absent", "@e": "empty"}.get(m["allow"], "pattern"),
                                                             {"-": "absent", "@e": "empty"}.get(m["deny"], "pattern")))
        nresp = sum(1 for st in h["steps"] if is_resp(st))
        chk.count("results:%s" % ("0" if nresp == 0 else "1-5" if nresp <= 5 else "6-12" if nresp <= 12 else "13-30"))
        count_refreshes(chk, h)
        for m in h["mods"]:
            chk.count("opt:thr=%s,iv=%s,once=%d,close=%d" % (m["thr"], m["iv"], m["once"], m["close"]))
            for nm in h["names"]:
                chk.count("lists:%s" % ("accept" if lists_accept(m, nm) else "reject"))
    nacross = sum(1 for h, a in zip(hs, impl) if across_incident_pairs(h, a) > 0)
    chk.count("histories-with-open-notifications-closer-than-send-interval-across-incidents", nacross)
    ncalls = nclose = 0
    for a in impl:
        po = parse_output(a)
        if po:
            for st in po[0]:
                ncalls += len(st)
                nclose += sum(1 for cc in st if cc[6])
    chk.count("impl-notify-calls", ncalls)
    chk.count("impl-close-calls", nclose)
    for i in (0, len(cases) // 2, len(cases) - 1):
        chk.sample({"case": cases[i], "impl": impl[i], "model": model[i]})

    # the property's own oracle on every call log of the implementation
    reported = 0
    bad_idx = []
    for i, (h, a) in enumerate(zip(hs, impl)):
        fails = oracle(h, a)
        if fails:
            bad_idx.append((i, fails))
    # report the shortest failing histories first (they shrink fastest and read best)
    bad_idx.sort(key=lambda x: (len(hs[x[0]]["steps"]), x[0]))
    for i, fails in bad_idx[:3]:
        rules = classify(fails)
        h2, o2 = shrink(chk, hs[i], impl[i], oracle, rules)
        chk.violation("%s_%d" % ("-".join(rules), i), {
            "kind": "history", "probe": "notifier/TestVerifProbeNotifier", "case": fmt(h2), "history": describe(h2),
            "impl_output": o2, "model_output": model[i] if h2 is hs[i] else "(shrunk case; original model output: %s)" % model[i],
            "original_case": cases[i], "oracle_verdict": oracle(h2, o2), "broken": "%s oracle: %s" % (pid, ", ".join(rules)),
            "failing_histories_in_this_run": len(bad_idx),
            "cmd": "bin/check %s --replay <this file>" % pid})
        reported += 1
    if not bad_idx:
        for (i, c, a, b) in sorted(mism, key=lambda x: len(x[1]))[:3]:
            chk.violation("corr_%d" % i, {
                "kind": "history", "probe": "notifier/TestVerifProbeNotifier", "case": c, "history": describe(hs[i]),
                "impl_output": a, "model_output": b, "oracle_verdict": "the %s oracle holds on the implementation's call log of this case" % pid,
                "broken": corr_name, "cmd": "bin/check %s --replay <this file>" % pid}, found_input=False)
            reported += 1
    if failed and not reported:
        chk.violation("obligation", {"kind": "theorem", "broken": [n for n, _ in failed], "detail": [d for _, d in failed]},
                      found_input=False)
    return hs, cases, impl, model, mism


def replay(pid, oracle, path):
    """bin/check Cxx --replay FILE: re-runs the recorded case on the current tree (implementation, model, oracle)."""
    import json
    import sys
    import framework
    obj = json.load(open(path))
    case = obj.get("case")
    if not case:
        print("replay file has no case (broken: %s)" % obj.get("broken"))
        return 2
    case = fmt(parse(case))      # (a legacy line is rewritten with its explicit registration step)
    chk = framework.Check(pid, "quick", int(obj.get("seed", 1)))
    impl, model, mism = chk.differential("notifier", "notifier", "TestVerifProbeNotifier", [case], name="replay")
    fails = oracle(parse(case), impl[0])
    print("case:   " + case)
    for e in describe(parse(case))["events"]:
        print("        " + e)
    print("impl:   " + impl[0])
    print("model:  " + model[0])
    print("oracle: " + (", ".join(fails) if fails else "holds"))
    sys.stdout.flush()
    return 1 if (fails or mism) else 0
