"""Generators, line format, spec-level incident analysis and property oracles for the notifier layer (C13, C14, C10-notifier).

Case line (see /verif/ocaml/drv_notifier.ml for the exact grammar):
  hist T0  NM {thr ivl once close accg allow deny}  NN {name {rx4}*NM}  NP {cluster nameidx}  NS {dt pair status}
A history is kept as a dict:
  {"kind", "t0", "mods": [{"thr","iv","once","close","accg","allow","deny"}], "names": [str],
   "pairs": [(cluster, nameidx)], "steps": [(dt_ns, pair, status)]}
"""
import re

T0 = 1500000000 * 10**9
SEC = 10**9
KIND = "hist"          # "hist0" is the model of the tree before the F3 fix (kept in the driver for documentation)

# patterns whose meaning is the same in Go's RE2 and Python's re; "-" = list not configured
RX_POOL = ["-", "-", "-", "^a", "b$", ".*", "^$", "^(ab|cd)", "x|y", "^g[0-9]$", "a"]
NAME_POOL = ["a1", "ab", "cdb", "zb", "xay", "q", "g7", "ba", "g77", "cd"]
STATUS_NAME = {0: "NOTFOUND", 1: "OK", 2: "WARN", 3: "ERR", 4: "STOP", 5: "STALL", 6: "REWIND"}


def rx4(mod, name):
    a_set = mod["allow"] != "-"
    d_set = mod["deny"] != "-"
    a_m = a_set and re.search(mod["allow"], name) is not None
    d_m = d_set and re.search(mod["deny"], name) is not None
    return "".join("1" if b else "0" for b in (a_set, a_m, d_set, d_m))


def lists_accept(mod, name):
    """C10's sentence: matches the allowlist if one is set and does not match the denylist if one is set."""
    if mod["allow"] != "-" and re.search(mod["allow"], name) is None:
        return False
    if mod["deny"] != "-" and re.search(mod["deny"], name) is not None:
        return False
    return True


def thr_of(mod):
    return 2 if mod["thr"] == "d" else int(mod["thr"])


def iv_of(mod):
    return 60 if mod["iv"] == "d" else int(mod["iv"])


def fmt(h):
    out = [h.get("kind", KIND), str(h["t0"]), str(len(h["mods"]))]
    for m in h["mods"]:
        out += [str(m["thr"]), str(m["iv"]), "1" if m["once"] else "0", "1" if m["close"] else "0",
                "1" if m["accg"] else "0", m["allow"], m["deny"]]
    out.append(str(len(h["names"])))
    for n in h["names"]:
        out.append(n)
        out += [rx4(m, n) for m in h["mods"]]
    out.append(str(len(h["pairs"])))
    for c, g in h["pairs"]:
        out += [str(c), str(g)]
    out.append(str(len(h["steps"])))
    for dt, p, s in h["steps"]:
        out += [str(dt), str(p), str(s)]
    return " ".join(out)


def parse(line):
    f = line.split()
    pos = [0]

    def nx():
        pos[0] += 1
        return f[pos[0] - 1]
    h = {"kind": nx(), "t0": int(nx()), "mods": [], "names": [], "pairs": [], "steps": []}
    nm = int(nx())
    for _ in range(nm):
        thr, iv = nx(), nx()
        h["mods"].append({"thr": thr if thr == "d" else int(thr), "iv": iv if iv == "d" else int(iv),
                          "once": nx() == "1", "close": nx() == "1", "accg": nx() == "1", "allow": nx(), "deny": nx()})
    for _ in range(int(nx())):
        h["names"].append(nx())
        for _ in range(nm):
            nx()
    for _ in range(int(nx())):
        h["pairs"].append((int(nx()), int(nx())))
    for _ in range(int(nx())):
        h["steps"].append((int(nx()), int(nx()), int(nx())))
    return h


def parse_output(line):
    """-> (steps: [[(module, cluster, nameidx, status, id, start, good)]], groups: [str], extra) or None if malformed."""
    if " || " not in line:
        return None
    left, right = line.split(" || ", 1)
    steps = []
    for s in left.split(" | "):
        s = s.strip()
        calls = []
        if s and s != "-":
            for c in s.split(","):
                p = c.split(":")
                if len(p) != 7:
                    return None
                calls.append((int(p[0][1:]), p[1], p[2], int(p[3]), p[4], p[5], p[6] == "1"))
        steps.append(calls)
    extra = ""
    if " RXDIFF" in right:
        right, extra = right.split(" RXDIFF", 1)
        extra = "RXDIFF" + extra
    return steps, [g.strip() for g in right.split(" ; ")], extra


# ---------------------------------------------------------------------------------------------
# spec-level reading of a history (independent of the model): incidents per (cluster, group)
# ---------------------------------------------------------------------------------------------

def analyse(h):
    """Per step: clock, the index of the opening result of the incident the step belongs to (None = no incident),
    whether it is the closing OK, and a segment id (incident or quiet period) per pair.  NOTFOUND results belong to nothing."""
    clock = h["t0"]
    open_at = {}
    seg = {}
    info = []
    for dt, p, s in h["steps"]:
        clock += dt
        if s == 0:
            info.append({"clock": clock, "pair": p, "status": s, "inc": None, "closing": False, "seg": None, "dropped": True})
            continue
        if open_at.get(p) is None and s > 1:
            open_at[p] = len(info)
            seg[p] = seg.get(p, 0) + 1
        inc = open_at.get(p)
        closing = inc is not None and s == 1
        info.append({"clock": clock, "pair": p, "status": s, "inc": inc, "closing": closing, "seg": (p, seg.get(p, 0)), "dropped": False})
        if closing:
            open_at[p] = None
            seg[p] = seg.get(p, 0) + 1
    return info


def incidents_per_pair(h):
    cnt = {}
    for i, st in enumerate(analyse(h)):
        if st["inc"] == i:
            cnt[st["pair"]] = cnt.get(st["pair"], 0) + 1
    return cnt


def nontrivial(h):
    """At least two incidents of one group."""
    return any(v >= 2 for v in incidents_per_pair(h).values())


def module_accepts(h, mi, pair):
    m = h["mods"][mi]
    return lists_accept(m, h["names"][h["pairs"][pair][1]]) and m["accg"]


def oracle_c13(h, out):
    """Property C13 evaluated on a call log.  Returns a list of failure strings (empty = holds)."""
    bad = []
    po = parse_output(out)
    info = analyse(h)
    if po is None or len(po[0]) != len(info):
        return ["malformed output"]
    steps = po[0]
    inc_id = {}
    for i, (st, calls) in enumerate(zip(info, steps)):
        cl, gi = h["pairs"][st["pair"]]
        for (m, c, g, status, eid, start, good) in calls:
            if c != "c%d" % cl or g != "g%d" % gi:
                bad.append("identity: step %d notifies about %s/%s instead of c%d/g%d" % (i, c, g, cl, gi))
            if st["inc"] is not None:
                if eid == "-" or eid.startswith("?"):
                    bad.append("identity: step %d call without event id inside an incident" % i)
                elif inc_id.setdefault(st["inc"], eid) != eid:
                    bad.append("identity: step %d carries id %s, incident opened at %d has id %s" % (i, eid, st["inc"], inc_id[st["inc"]]))
                if start != str(info[st["inc"]]["clock"]):
                    bad.append("identity: step %d start %s is not the clock of the opening result %d" % (i, start, info[st["inc"]]["clock"]))
            if good and not st["closing"]:
                bad.append("close: step %d close notification while no incident is being closed" % i)
        if st["closing"]:
            for mi, m in enumerate(h["mods"]):
                n = sum(1 for cc in calls if cc[0] == mi + 1 and cc[6])
                want = 1 if (m["close"] and module_accepts(h, mi, st["pair"])) else 0
                if n != want:
                    bad.append("close: step %d module m%d got %d close notifications, expected %d" % (i, mi + 1, n, want))
    ids = list(inc_id.values())
    if len(set(ids)) != len(ids):
        bad.append("distinct: two incidents share an event id %s" % sorted(inc_id.items()))
    return bad


def oracle_c14(h, out):
    """Property C14 evaluated on a call log (interval and send-once counted within an incident / within a quiet period)."""
    bad = []
    po = parse_output(out)
    info = analyse(h)
    if po is None or len(po[0]) != len(info):
        return ["malformed output"]
    steps = po[0]
    last_open = {}      # (module, segment) -> clock of the last open call
    announced = set()   # (module, incident)
    for i, (st, calls) in enumerate(zip(info, steps)):
        seen = set()
        for (m, c, g, status, eid, start, good) in calls:
            if good:
                continue
            mod = h["mods"][m - 1]
            if st["dropped"]:
                bad.append("threshold: step %d NOTFOUND result was notified" % i)
                continue
            if status != st["status"] or st["status"] < thr_of(mod):
                bad.append("threshold: step %d module m%d notified for status %d below threshold %s" % (i, m, st["status"], mod["thr"]))
            if not lists_accept(mod, h["names"][h["pairs"][st["pair"]][1]]):
                bad.append("lists: step %d module m%d notified about a group its lists reject" % (i, m))
            elif not mod["accg"]:
                bad.append("lists: step %d module m%d notified although AcceptConsumerGroup is false" % (i, m))
            key = (m, st["seg"])
            if m in seen:
                bad.append("interval: step %d module m%d notified twice for one result" % (i, m))
            seen.add(m)
            if key in last_open:
                if mod["once"]:
                    bad.append("send-once: step %d module m%d second open notification in the same %s" % (i, m, "incident" if st["inc"] is not None else "quiet period"))
                if not (st["clock"] - last_open[key] > iv_of(mod) * SEC):
                    bad.append("interval: step %d module m%d open notification %d ns after the previous one (send-interval %s s)" % (i, m, st["clock"] - last_open[key], mod["iv"]))
            last_open[key] = st["clock"]
            if st["inc"] is not None:
                announced.add((m, st["inc"]))
        if st["inc"] is not None:
            for mi, mod in enumerate(h["mods"]):
                if st["status"] >= thr_of(mod) and module_accepts(h, mi, st["pair"]) and (mi + 1, st["inc"]) not in announced:
                    bad.append("announced: incident opened at step %d reached threshold of m%d at step %d without an open notification" % (st["inc"], mi + 1, i))
                    announced.add((mi + 1, st["inc"]))
    return bad


def oracle_c10(h, out):
    bad = []
    po = parse_output(out)
    info = analyse(h)
    if po is None or len(po[0]) != len(info):
        return ["malformed output"]
    for i, (st, calls) in enumerate(zip(info, po[0])):
        for cc in calls:
            if not lists_accept(h["mods"][cc[0] - 1], h["names"][h["pairs"][st["pair"]][1]]):
                bad.append("lists: step %d module m%d notified about a rejected group" % (i, cc[0]))
    return bad


def classify(failures):
    """Failure strings -> sorted set of rule names (the word before the colon)."""
    return sorted({f.split(":", 1)[0] for f in failures})


# ---------------------------------------------------------------------------------------------
# generators
# ---------------------------------------------------------------------------------------------

ALL_OPTS = [(thr, iv, once, close) for thr in (1, 2, 3) for iv in (0, 60) for once in (False, True) for close in (False, True)]


def gen_mod(rng, opts=None, lists=True):
    thr, iv, once, close = opts if opts is not None else rng.choice(ALL_OPTS)
    m = {"thr": thr, "iv": iv, "once": once, "close": close, "accg": rng.random() >= 0.08, "allow": "-", "deny": "-"}
    if rng.random() < 0.04:
        m["thr"] = "d"
    if rng.random() < 0.04:
        m["iv"] = "d"
    if lists and rng.random() < 0.5:
        m["allow"] = rng.choice(RX_POOL)
        m["deny"] = rng.choice(RX_POOL)
    return m


def gen_statuses(rng, n, flavour):
    """Status sequence with runs.  Flavours bias towards many short incidents / long incidents / noise."""
    out = []
    if flavour == "short":
        pool, runs = [1, 2, 3, 3, 1, 2], [1, 1, 1, 2]
    elif flavour == "long":
        pool, runs = [2, 3, 3, 2, 1], [1, 2, 3, 5]
    elif flavour == "escalate":
        pool, runs = [1, 2, 2, 3], [1, 2, 3]
    else:
        pool, runs = [0, 1, 1, 2, 3, 3, 2, 1, 4, 5, 6], [1, 1, 2, 3, 4]
    while len(out) < n:
        s = rng.choice(pool)
        if flavour != "noise" and rng.random() < 0.06:
            s = 0
        out += [s] * rng.choice(runs)
    return out[:n]


def gen_dt(rng, ivs, flavour):
    iv = rng.choice(ivs) if ivs else 60
    if flavour == "boundary":
        return rng.choice([0, 1, iv * SEC - 1, iv * SEC, iv * SEC + 1, (iv - 1) * SEC, (iv + 1) * SEC, 30 * SEC]) if iv > 0 else rng.choice([0, 0, 1, SEC])
    return rng.choice([0, 1, 59 * SEC, 60 * SEC, 61 * SEC, 60 * SEC + 1, 60 * SEC - 1, 10 * SEC, 30 * SEC, 120 * SEC])


def gen_history(rng, idx, focus="mixed"):
    """focus: "groups" (several pairs interleaved, C13) | "clock" (one or two pairs, boundary clock steps, C14) | "mixed"."""
    if focus == "mixed":
        focus = rng.choice(["groups", "clock"])
    nm = rng.choice([1, 1, 2, 2, 3, 4])
    # the option product is walked systematically by case index so that every combination is used early and often
    mods = [gen_mod(rng, ALL_OPTS[(idx * 4 + i * 7) % len(ALL_OPTS)] if rng.random() < 0.7 else None) for i in range(nm)]
    if focus == "groups":
        ngroups, nclusters = rng.choice([1, 2, 2, 3, 3]), rng.choice([1, 1, 2])
    else:
        ngroups, nclusters = rng.choice([1, 1, 1, 2]), 1
    names = rng.sample(NAME_POOL, ngroups)
    allp = [(c + 1, g) for c in range(nclusters) for g in range(ngroups)]
    rng.shuffle(allp)
    pairs = allp[:max(1, rng.randrange(ngroups, len(allp) + 1))]
    n = rng.choice([1, 2, 3, 4, 5, 6, 8, 10, 12, 16, 20, 24, 30])
    flav = rng.choice(["short", "short", "long", "escalate", "noise"])
    per_pair = {p: gen_statuses(rng, n, flav) for p in range(len(pairs))}
    ivs = [iv_of(m) for m in mods]
    dflav = "boundary" if focus == "clock" or rng.random() < 0.3 else "any"
    steps = []
    used = {p: 0 for p in per_pair}
    for _ in range(n):
        p = rng.randrange(len(pairs))
        steps.append((gen_dt(rng, ivs, dflav), p, per_pair[p][used[p]]))
        used[p] += 1
    h = {"kind": KIND, "t0": T0, "mods": mods, "names": names, "pairs": pairs, "steps": steps}
    return h, [focus, flav, dflav]


def f3_witness(once=True, close=False, thr=2, iv=60):
    """DESIGN.md section 5, F3: ERR, OK, ERR, ERR one second apart."""
    return {"kind": KIND, "t0": T0,
            "mods": [{"thr": thr, "iv": iv, "once": once, "close": close, "accg": True, "allow": "-", "deny": "-"}],
            "names": ["q"], "pairs": [(1, 0)], "steps": [(SEC, 0, 3), (SEC, 0, 1), (SEC, 0, 3), (SEC, 0, 3)]}


def deletions(h):
    """All histories obtained by deleting one step, one module, or one unused pair (the deleted step's clock step is
    added to its successor so that the clocks of the remaining steps do not move)."""
    out = []
    for i in range(len(h["steps"])):
        st = list(h["steps"])
        dt = st[i][0]
        del st[i]
        if i < len(st):
            st[i] = (st[i][0] + dt, st[i][1], st[i][2])
        out.append(dict(h, steps=st))
    if len(h["mods"]) > 1:
        for i in range(len(h["mods"])):
            out.append(dict(h, mods=[m for j, m in enumerate(h["mods"]) if j != i]))
    used = {p for _, p, _ in h["steps"]}
    for p in range(len(h["pairs"])):
        if p not in used and len(h["pairs"]) > 1:
            ren = {q: (q if q < p else q - 1) for q in range(len(h["pairs"]))}
            out.append(dict(h, pairs=[x for j, x in enumerate(h["pairs"]) if j != p],
                            steps=[(dt, ren[q], s) for dt, q, s in h["steps"]]))
    return out


# ---------------------------------------------------------------------------------------------
# shared body of the C13 / C14 check modules
# ---------------------------------------------------------------------------------------------

def run_impl(chk, hs, name):
    """Runs only the implementation (probe) on histories; returns output lines."""
    import os
    import common as C
    binp, err = C.build_probe("notifier")
    if binp is None:
        raise C.BuildError("notifier probe does not build: %s" % (err or "")[-2000:])
    cpath = os.path.join(chk.work, name + ".txt")
    opath = os.path.join(chk.work, name + ".impl")
    with open(cpath, "w") as f:
        for h in hs:
            f.write(fmt(h) + "\n")
    if os.path.exists(opath):
        os.remove(opath)
    rc, out = C.run_probe(binp, "TestVerifProbeNotifier", cpath, opath, timeout=600)
    lines = open(opath).read().splitlines() if os.path.exists(opath) else []
    if rc != 0 or len(lines) != len(hs):
        raise C.BuildError("notifier probe failed while shrinking (rc=%s, %d/%d lines): %s" % (rc, len(lines), len(hs), out[-1500:]))
    return lines


def shrink(chk, h, out, oracle, rules, budget=40):
    """Deletes steps / modules while the oracle still reports one of `rules` on the implementation's output."""
    rounds = 0
    while rounds < budget:
        rounds += 1
        cands = deletions(h)
        if not cands:
            break
        outs = run_impl(chk, cands, "shrink")
        nxt = None
        for c, o in zip(cands, outs):
            if set(classify(oracle(c, o))) & set(rules):
                nxt = (c, o)
                break
        if nxt is None:
            break
        h, out = nxt
    return h, out


def describe(h):
    info = analyse(h)
    return {"modules": ["m%d thr=%s send-interval=%s once=%d close=%d acceptgroup=%d allow=%s deny=%s" % (
        i + 1, m["thr"], m["iv"], m["once"], m["close"], m["accg"], m["allow"], m["deny"]) for i, m in enumerate(h["mods"])],
        "results": ["t=+%.9fs c%d/%s %s" % ((st["clock"] - h["t0"]) / SEC, h["pairs"][st["pair"]][0],
                                             h["names"][h["pairs"][st["pair"]][1]], STATUS_NAME.get(st["status"], st["status"])) for st in info]}


def check_body(chk, failed, pid, oracle, focus_weights, n_quick, n_thorough, corr_name):
    import common as C
    n = n_thorough if chk.thorough else n_quick
    hs, tags = [], []
    for ln in C.read_corpus(pid):
        hs.append(parse(ln))
        tags.append(["corpus", "-", "-"])
    # the F3 witnesses always run (regression of the repaired defect)
    for once, close, iv in ((True, False, 60), (False, False, 60), (True, True, 60), (True, False, 0)):
        hs.append(f3_witness(once=once, close=close, iv=iv))
        tags.append(["f3-witness", "-", "-"])
    for i in range(n):
        h, tg = gen_history(chk.rng, i, chk.rng.choice(focus_weights))
        hs.append(h)
        tags.append(tg)
    cases = [fmt(h) for h in hs]
    impl, model, mism = chk.differential("notifier", "notifier", "TestVerifProbeNotifier", cases, name="hist")

    for h, c, tg in zip(hs, cases, tags):
        inc = incidents_per_pair(h)
        if any(v >= 2 for v in inc.values()):
            chk.nontrivial.add(C.case_hash(c))
        chk.count("focus:" + tg[0])
        chk.count("statuses:" + tg[1])
        chk.count("clock:" + tg[2])
        chk.count("modules:%d" % len(h["mods"]))
        chk.count("pairs:%d" % len(h["pairs"]))
        chk.count("max-incidents-per-group:%s" % min(max(inc.values()) if inc else 0, 5))
        chk.count("steps:%s" % ("1-5" if len(h["steps"]) <= 5 else "6-12" if len(h["steps"]) <= 12 else "13-30"))
        for m in h["mods"]:
            chk.count("opt:thr=%s,iv=%s,once=%d,close=%d" % (m["thr"], m["iv"], m["once"], m["close"]))
            for nm in h["names"]:
                chk.count("lists:%s" % ("accept" if lists_accept(m, nm) else "reject"))
    ncalls = nclose = 0
    for a in impl:
        po = parse_output(a)
        if po:
            for st in po[0]:
                ncalls += len(st)
                nclose += sum(1 for cc in st if cc[6])
    chk.count("impl-notify-calls", ncalls)
    chk.count("impl-close-calls", nclose)
    for i in (0, len(cases) // 2, len(cases) - 1):
        chk.sample({"case": cases[i], "impl": impl[i], "model": model[i]})

    # the property's own oracle on every call log of the implementation
    reported = 0
    bad_idx = []
    for i, (h, a) in enumerate(zip(hs, impl)):
        fails = oracle(h, a)
        if fails:
            bad_idx.append((i, fails))
    mism_idx = {i for (i, _, _, _) in mism}
    for i, fails in bad_idx[:3]:
        rules = classify(fails)
        h2, o2 = shrink(chk, hs[i], impl[i], oracle, rules)
        chk.violation("%s_%d" % ("-".join(rules), i), {
            "kind": "history", "probe": "notifier/TestVerifProbeNotifier", "case": fmt(h2), "history": describe(h2),
            "impl_output": o2, "model_output": model[i] if h2 is hs[i] else "(shrunk case; original model output: %s)" % model[i],
            "original_case": cases[i], "oracle_verdict": oracle(h2, o2), "broken": "%s oracle: %s" % (pid, ", ".join(rules)),
            "cmd": "bin/check %s --replay <this file>" % pid})
        reported += 1
    if not bad_idx:
        for (i, c, a, b) in mism[:3]:
            chk.violation("corr_%d" % i, {
                "kind": "history", "probe": "notifier/TestVerifProbeNotifier", "case": c, "history": describe(hs[i]),
                "impl_output": a, "model_output": b, "oracle_verdict": "the %s oracle holds on the implementation's call log of this case" % pid,
                "broken": corr_name, "cmd": "bin/check %s --replay <this file>" % pid}, found_input=False)
            reported += 1
    if failed and not reported:
        chk.violation("obligation", {"kind": "theorem", "broken": [n for n, _ in failed], "detail": [d for _, d in failed]},
                      found_input=False)
    return hs, cases, impl, model, mism


def replay(pid, oracle, path):
    """bin/check Cxx --replay FILE: re-runs the recorded case on the current tree (implementation, model, oracle)."""
    import json
    import sys
    import framework
    obj = json.load(open(path))
    case = obj.get("case")
    if not case:
        print("replay file has no case (broken: %s)" % obj.get("broken"))
        return 2
    chk = framework.Check(pid, "quick", int(obj.get("seed", 1)))
    impl, model, mism = chk.differential("notifier", "notifier", "TestVerifProbeNotifier", [case], name="replay")
    fails = oracle(parse(case), impl[0])
    print("case:   " + case)
    print("impl:   " + impl[0])
    print("model:  " + model[0])
    print("oracle: " + (", ".join(fails) if fails else "holds"))
    sys.stdout.flush()
    return 1 if (fails or mism) else 0
