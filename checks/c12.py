"""C12 — topic deletion is detected exactly.
Compares, per cycle: whether metadata was re-read and the StorageSetDeleteTopic requests (implementation vs
extracted ClusterMod.run) on topic-set trajectories with refresh faults and ticks interleaved."""
import clustergen


def run(chk, failed):
    clustergen.run_check(chk, failed, 12)


def replay(path):
    return clustergen.replay(path, 12)
