"""C12 — topic deletion is detected exactly.
Compares, per cycle: whether metadata was re-read and the StorageSetDeleteTopic requests the storage side RECEIVED
(implementation vs extracted ClusterMod.run / run_s) on topic-set trajectories with refresh faults and ticks interleaved,
including scenarios in which the storage side is busy (> 1 s, real time) at the moment a deletion is due.
See checks/clustergen.py, design_notes/C12.md."""
import clustergen


def run(chk, failed):
    clustergen.run_check(chk, failed, 12)


def replay(path):
    return clustergen.replay(path, 12)
