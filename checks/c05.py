"""C05 — every status request gets one answer, for the right group, within cache age."""
import json
import os

import common as C
import cachegen as G
from framework import ProbeCrashed

SLACK_US = 100000     # evaluation time allowed on top of the lifetime by the observation oracle
GUARD_US = 50000      # a cache read this close to an expiry instant cannot be replayed deterministically
CORR = "corr:evaluator.getConsumerStatus+goswarm.Simple.Query (Cache.step, sequential schedule)"
CODES = {"1": "not exactly one reply", "2": "reply names another cluster/group than the request",
         "3": "reply is not the evaluation (NOTFOUND for nil) of a storage fetch of the request's own (cluster, group) "
              "made no longer than lifetime + slack before the request and not after the reply",
         "4": "a reply object handed out earlier changed afterwards (filtered view / later request aliasing the cached object)"}


# a batch of scenarios takes seconds; an implementation that hangs (e.g. a reply channel misused) must not hold the check for half an hour
PROBE_TIMEOUT_S = 240


def run_batch(chk, scens, name, race=False):
    """scenario lines -> list of (obs_line, oracle, replay, projection).  Runs probe then model."""
    if not scens:
        return []
    if race:
        binp, err = C.build_probe("cache", race=True)
        if binp is None:
            raise C.BuildError("cache probe does not build with -race:\n" + (err or "")[-2000:])
        cpath = os.path.join(chk.work, name + ".txt")
        ipath = os.path.join(chk.work, name + ".impl")
        open(cpath, "w").write("\n".join(scens) + "\n")
        if os.path.exists(ipath):
            os.remove(ipath)
        rc, out = C.run_probe(binp, "TestVerifProbeCache", cpath, ipath, mem_kb=1 << 40, timeout=PROBE_TIMEOUT_S * 3)
        impl = open(ipath).read().splitlines() if os.path.exists(ipath) else []
        if rc != 0 or len(impl) != len(scens):
            raise ProbeCrashed(rc, out, len(impl), None)
    else:
        impl = chk.run_impl("cache", "TestVerifProbeCache", scens, name=name, timeout=PROBE_TIMEOUT_S)
    mlines = []
    for s, o in zip(scens, impl):
        sched = ""
        if G.parse_kind(s) == "errload":
            ob = G.parse_obs(o)
            sc = G.errload_schedule(ob) if ob and "crash" not in ob else None
            if sc:
                sched = "SCHED %d %s " % (len(sc), " ".join("%d %d" % x for x in sc))
        mlines.append("M %d %d %s%s %s" % (SLACK_US, GUARD_US, sched, s, o))
    model = chk.run_model("cache", mlines, name=name)
    out = []
    for o, m in zip(impl, model):
        if not m.startswith("ORACLE "):
            raise C.BuildError("model driver: " + m[:400] + " on " + o[:300])
        oracle, replay = m[len("ORACLE "):].split(" REPLAY ", 1)
        obs = G.parse_obs(o)
        out.append((o, oracle.strip(), replay.strip(), G.impl_projection(obs) if obs else "", obs))
    return out


def split_replay(replay):
    """'R .. LK n .. FLAGS f..' -> (comparable part, flags)"""
    if replay == "-":
        return None, []
    body, flags = replay.rsplit(" FLAGS ", 1)
    fl = [] if flags.strip() == "-" else flags.split()
    return body.strip(), fl


def only_timing(oracle):
    """oracle failure made only of code 3 entries (the one that depends on the clock)"""
    if not oracle.startswith("FAIL "):
        return False
    return all(x.split(":")[1] == "3" for x in oracle[5:].split(","))


def explain(oracle):
    if oracle == "ok":
        return "ok"
    if not oracle.startswith("FAIL ") or ":" not in oracle:
        return oracle
    return "; ".join(("scenario: %s" % CODES["4"]) if x.startswith("alias:") else
                     "request %s: %s" % (x.split(":")[0], CODES.get(x.split(":")[1], x)) for x in oracle[5:].split(","))


def stats(chk, scen, tags, obs):
    ev = obs["events"]
    qs = {e[1]: e for e in ev if e[0] == "Q"}
    fetches = [e for e in ev if e[0] == "L"]
    hits = nf = found = 0
    for e in ev:
        if e[0] != "R":
            continue
        body = e[5].split()
        if body[1] == "0":
            nf += 1
            continue
        found += 1
        # the client id of the first listed partition (or of Maxlag) is the stamp of the fetch the reply came from
        stamp = None
        if body[6] != "-":
            stamp = int(body[9])
        if stamp is not None and e[1] in qs and stamp < qs[e[1]][2]:
            hits += 1
    chk.count("kind:" + tags[0])
    chk.count("names:" + tags[1])
    for tg in tags[2:]:
        chk.count("stress:" + tg)
    chk.count("requests", len(qs))
    chk.count("storage-fetches", len(fetches))
    chk.count("replies:NOTFOUND", nf)
    chk.count("replies:data", found)
    chk.count("replies:data-from-cache", hits)
    chk.count("filtered-requests", sum(1 for q in qs.values() if q[5] == 0))
    if hits >= 1 and len(fetches) >= 2:
        chk.nontrivial.add(C.case_hash(scen))


def run(chk, failed):
    nbatch, per = (2, 48) if not chk.thorough else (40, 60)
    chk.rule = ("scripted scenarios on the real CachingEvaluator (request channel, goswarm cache, evaluateConsumerStatus) with the "
                "storage subsystem played by the probe: 2 clusters x 3 groups whose names contain spaces (in cluster and in group), are "
                "empty, unicode or start with digits -- 60% from families in which cluster+' '+group coincides for different pairs; 2-4 "
                "storage contents of 0-4 partitions (OK/STOP/WARN/STALL); storage updates interleaved with sequential requests (both "
                "views), sleeps across the 1 s lifetime, bursts of 8-24 requests from 8 requesters with an update in the middle, and "
                "expire-cache = 0 scenarios; stressed inputs: the storage side takes nothing off its channel for 1.2-1.5 s when the "
                "next request must fetch (~30%), answers a fetch 1.2-1.4 s late (expire-cache = 0 scenarios), requesters with an "
                "unbuffered reply channel (~35%) or coming back for the answer 1.3 s late (~25%); every storage answer carries its fetch time, so a reply shows which fetch it came from. "
                "Compared: (a) sequential scenarios -- every reply (names, status, totals, partitions of the requested view) and every "
                "storage fetch against Cache.step replayed on the observed clock; (b) all scenarios -- the extracted oracle "
                "Cache.check_obs on the observations (one reply, right names, evaluation of an own-pair fetch within lifetime + 0.1 s, "
                "NOTFOUND iff that fetch was nil) and reply objects unchanged afterwards. non-trivial = at least one reply served from "
                "the cache and at least two storage fetches; distinct by scenario line")
    scens, tags = [], []
    for ln in C.read_corpus(chk.pid):
        scens.append(ln)
        tags.append(["corpus", "corpus"])
    total = nbatch * per
    for i in range(total):
        if i % per < 2:
            ln, tg = G.gen_errload(chk.rng, "%d" % i)       # two scripted two-requester scenarios per batch
        elif i % per == 2 and (i // per) % 8 == 0:
            ln, tg = G.gen_default(chk.rng, "%d" % i, full=chk.thorough)
        else:
            ln, tg = G.gen_scenario(chk.rng, "s%d" % i)
        scens.append(ln)
        tags.append(tg)

    mism, ofail, inconclusive, transient = [], [], 0, 0
    sampled = 0
    for b in range(0, len(scens), per):
        chunk = scens[b:b + per]
        race = chk.thorough and (b // per) % 4 == 3
        try:
            res = run_batch(chk, chunk, "b%d" % (b // per), race=race)
        except ProbeCrashed as e:
            # the probe survives panics of a scenario; what kills it is the race detector's report (exit 66) or a fatal
            # runtime error of the implementation (concurrent map access ...)
            data_race = "DATA RACE" in (e.out or "")
            chk.violation("probe_died_b%d" % (b // per), {
                "kind": "schedule", "probe": "evaluator/TestVerifProbeCache" + (" (-race)" if race else ""),
                "case": chunk[0], "cases": chunk, "impl_output": (e.out or "")[-6000:],
                "oracle_verdict": ("the race detector reports a data race in the evaluator while serving these scenarios"
                                   if data_race else "the probe process died (rc %s) while serving these scenarios" % e.rc),
                "broken": "no data race between requesters sharing one cached object / every request is answered",
                "cmd": "bin/check C05 --tier thorough"}, found_input=data_race)
            continue
        chk.evaluations += len(chunk)
        chk.traces_validated += len(chunk)
        for j, (o, oracle, replay, proj, obs) in enumerate(res):
            idx = b + j
            scen = chunk[j]
            if obs is None or "crash" in obs:
                ofail.append((idx, scen, o, "probe scenario crashed: " + o[:300], replay))
                continue
            stats(chk, scen, tags[idx], obs)
            body, flags = split_replay(replay)
            want = {"0": 0, "1": 1, "-1": 10}.get(scen.split()[2])
            if G.configured_lifetime(obs) != want:
                ofail.append((idx, scen, o, "the module reads a cache lifetime of %s s from a configuration that says %s"
                              % (G.configured_lifetime(obs), "nothing (default 10)" if want == 10 else want), replay))
                continue
            if tags[idx][0] == "errload":
                chk.count("errload:replayed" if body is not None else "errload:shape-missed")
            # the oracle on the implementation's own observations
            cur = (o, oracle, replay, proj)
            if oracle != "ok":
                if len(ofail) >= 5:
                    continue            # enough failing histories recorded; do not spend re-runs on more
                confirmed = not only_timing(oracle)
                if not confirmed:
                    for k in range(2):      # a stretched evaluation on a loaded machine does not repeat; a defect does
                        r2 = run_batch(chk, [scen], "re%d_%d" % (idx, k))[0]
                        if r2[1] != "ok":
                            confirmed = True
                            break
                if confirmed:
                    ofail.append((idx, scen, o, oracle, replay))
                    continue
                transient += 1
            # the model replay (sequential scenarios)
            if body is not None and body != proj:
                ok = False
                for k in range(2):
                    if not flags:
                        break
                    r2 = run_batch(chk, [scen], "rp%d_%d" % (idx, k))[0]
                    b2, f2 = split_replay(r2[2])
                    cur = r2[:4]
                    if r2[1] != "ok" and not only_timing(r2[1]):
                        break
                    if b2 == r2[3]:
                        ok = True
                        break
                    flags = f2
                if not ok:
                    if flags and all(f.startswith(("AMBIG", "NOFETCH", "EXTRA")) for f in flags) and "AMBIG" in flags:
                        inconclusive += 1
                    else:
                        mism.append((idx, scen, cur))
            if sampled < 3 and body is not None:
                sampled += 1
                chk.sample({"case": scen[:600], "impl": proj[:600], "model": (body or "-")[:600], "oracle": oracle})
    if inconclusive:
        chk.notes.append("%d sequential scenario(s) read the cache within %d ms of an expiry instant in three runs; not replayed"
                         % (inconclusive, GUARD_US // 1000))
    if transient:
        chk.notes.append("%d scenario(s) failed the staleness clause once and passed twice on re-run (evaluation stretched beyond "
                         "the %d ms slack by machine load)" % (transient, SLACK_US // 1000))
    chk.count("inconclusive-timing", inconclusive)

    for (idx, scen, o, oracle, replay) in ofail[:5]:
        chk.violation("oracle_%d" % idx, {
            "kind": "history", "probe": "evaluator/TestVerifProbeCache", "case": scen, "impl_output": o,
            "model_output": replay, "oracle_verdict": explain(oracle), "broken": "Cache.check_obs (one_reply_named / "
            "staleness_bound / notfound_iff / not_shared / filtered_does_not_disturb) on the implementation's observations",
            "cmd": "bin/check C05 --replay <this file>"})

    if (mism or failed) and not ofail:
        # search phase: a focused batch around the mismatching scenarios (same kinds, fresh names/scripts), oracle only
        found = None
        extra = 96 if not chk.thorough else 600
        kinds = [G.parse_kind(s) for (_, s, _) in mism] or [None]
        more = [G.gen_scenario(chk.rng, "x%d" % i, kind=kinds[i % len(kinds)])[0] for i in range(extra)]
        for b in range(0, len(more), per):
            for (o, oracle, replay, proj, obs), scen in zip(run_batch(chk, more[b:b + per], "x%d" % (b // per)), more[b:b + per]):
                if oracle != "ok" and found is None:
                    if only_timing(oracle) and run_batch(chk, [scen], "xc")[0][1] == "ok":
                        continue
                    found = (scen, o, oracle, replay)
            chk.evaluations += len(more[b:b + per])
        if found:
            scen, o, oracle, replay = found
            chk.violation("search", {"kind": "history", "probe": "evaluator/TestVerifProbeCache", "case": scen, "impl_output": o,
                                     "model_output": replay, "oracle_verdict": explain(oracle), "broken": CORR,
                                     "cmd": "bin/check C05 --replay <this file>"})
        else:
            for (idx, scen, cur) in mism[:3]:
                chk.violation("replay_%d" % idx, {"kind": "history", "probe": "evaluator/TestVerifProbeCache", "case": scen,
                                                  "impl_output": cur[3], "model_output": cur[2], "observation": cur[0],
                                                  "oracle_verdict": "the property's oracle holds on every observation of "
                                                  "this run and of the focused batch; the implementation no longer behaves as the model",
                                                  "broken": CORR, "cmd": "bin/check C05 --replay <this file>"}, found_input=False)
            if failed and not mism:
                chk.violation("obligation", {"kind": "theorem", "broken": [n for n, _ in failed],
                                             "detail": [d for _, d in failed]}, found_input=False)
    chk.assumptions += [
        "storage eventually takes and answers every fetch (the probe's responder stalls for up to 1.5 s before taking one, or answers up "
        "to 1.4 s late, but never drops one; a storage side that never answers leaves the request unanswered in code and model alike) and the evaluation "
        "of a storage reply returns (Eval.eval_group without Crash: storage never reports a nil commit after a non-nil one, C03/C04)",
        "goswarm Simple (v1.10.0) is modelled from its source at the granularity of its atomic Load/Store operations; it reads the real "
        "clock, so scenarios really sleep and the model is replayed on the observed clock (request, fetch and reply stamps); a cache "
        "read within 50 ms of an expiry instant is re-run, not compared",
        "concurrent bursts are checked with the extracted oracle Cache.check_obs only (the interleaving inside goswarm is not observable); "
        "the step model behind it is tied through the sequential scenarios, including the background refresh of a cached NOTFOUND",
        "the observation oracle allows lifetime + 100 ms between a storage fetch and a request served from it (the model's bound is "
        "lifetime + the time from the fetch to the store of its result)",
        "the three *_refuted theorems of props/C05.v describe the code BEFORE the two fix: commits (old key function; expire-cache = 0 "
        "without the bypass) and are kept as documentation; the theorems in force are about the repaired code",
    ]


def replay(path):
    import framework
    obj = json.load(open(path))
    case = obj.get("case")
    if not case:
        print("replay file has no case (broken: %s)" % obj.get("broken"))
        return 2
    chk = framework.Check("C05", "quick", int(obj.get("seed", 1)))
    C.build_coq()
    o, oracle, rep, proj, obs = run_batch(chk, [case], "replay")[0]
    body, flags = split_replay(rep)
    print("case:   " + case)
    print("impl:   " + o)
    print("model:  " + rep)
    print("oracle: " + explain(oracle))
    bad = oracle != "ok" or (body is not None and not flags and body != proj)
    print("verdict: " + ("FAILS" if bad else "passes"))
    return 1 if bad else 0
