"""Shared plumbing for the Burrow verification checks.

Everything here is orchestration: building the Coq development, extracting the model to OCaml,
building the Go probes against /repo's *current working tree* through a `go build -overlay`
(no file of /repo is ever written), running both sides on the same generated cases, diffing,
writing evidence / replay files and honouring known_findings.json.
"""
import fcntl
import glob
import hashlib
import json
import os
import random
import re
import shutil
import subprocess
import sys
import time

VERIF = os.path.dirname(os.path.dirname(os.path.abspath(__file__)))
REPO = os.environ.get("VERIF_REPO", "/repo")
BUILD = os.environ.get("VERIF_BUILD") or os.path.join(VERIF, "_build")
COQ = os.environ.get("VERIF_COQ") or os.path.join(VERIF, "coq")   # a scratch copy for runs against a mutated tree (bin/seedtest)
COQ_LOCK = "coq" if not os.environ.get("VERIF_COQ") else "coq_" + hashlib.sha1(COQ.encode()).hexdigest()[:8]
THEORIES = os.path.join(COQ, "theories")
PROPS = os.path.join(THEORIES, "props")
OCAML = os.path.join(VERIF, "ocaml")
PROBES = os.path.join(VERIF, "probes")
EVIDENCE = os.environ.get("VERIF_EVIDENCE_DIR") or os.path.join(VERIF, "evidence")
REPLAYS = os.environ.get("VERIF_REPLAYS_DIR") or os.path.join(VERIF, "replays")
CORPUS = os.path.join(VERIF, "corpus")

GO_ENV = dict(os.environ)
GO_ENV.update({"GOFLAGS": "-mod=mod", "GOPROXY": "off", "CGO_ENABLED": os.environ.get("CGO_ENABLED", "0")})
for k in ("GOSUMDB", "GOTOOLCHAIN"):
    GO_ENV.pop(k, None)

# Library axioms that may appear under Print Assumptions (all declared by Coq's standard library and reached
# through Flocq / Reals); anything else is a gate failure.
ALLOWED_AXIOMS = {
    "Classical_Prop.classic",
    "FunctionalExtensionality.functional_extensionality_dep",
    "ClassicalDedekindReals.sig_forall_dec",
    "ClassicalDedekindReals.sig_not_dec",
}

FORBIDDEN = re.compile(
    r"\b(Admitted|admit|Axiom|Axioms|Parameter|Parameters|Conjecture|Conjectures|Admit Obligations|"
    r"Unset Guard Checking|Unset Positivity Checking|Unset Universe Checking|bypass_check|type-in-type|"
    r"impredicative-set|native_compute)\b")


def log(*a):
    print(*a, file=sys.stderr, flush=True)


def sh(cmd, cwd=None, env=None, timeout=None, check=True, capture=True):
    p = subprocess.run(cmd, cwd=cwd, env=env, timeout=timeout, shell=isinstance(cmd, str),
                       stdout=subprocess.PIPE if capture else None,
                       stderr=subprocess.STDOUT if capture else None, text=True)
    if check and p.returncode != 0:
        raise BuildError("command failed (%s): %s\n%s" % (p.returncode, cmd, (p.stdout or "")[-4000:]))
    return p


class BuildError(Exception):
    pass


class Lock:
    """flock on _build/<name>.lock; shared=True takes a read lock (several readers of the compiled theories - compiling a
    props file, extraction - may run at once; `make`, which rewrites .vo files, takes the exclusive lock)."""
    def __init__(self, name, shared=False):
        self.shared = shared
        lockdir = os.path.join(VERIF, "_build")   # one lock directory whatever VERIF_BUILD says (coq/ is shared)
        os.makedirs(lockdir, exist_ok=True)
        os.makedirs(BUILD, exist_ok=True)
        self.path = os.path.join(lockdir, name + ".lock")

    def __enter__(self):
        self.f = open(self.path, "w")
        fcntl.flock(self.f, fcntl.LOCK_SH if self.shared else fcntl.LOCK_EX)
        return self

    def __exit__(self, *a):
        fcntl.flock(self.f, fcntl.LOCK_UN)
        self.f.close()


# ---------------------------------------------------------------------------------------------
# Coq
# ---------------------------------------------------------------------------------------------

def coq_sources():
    """All model / proof files (not props/, not extraction)."""
    vs = sorted(glob.glob(os.path.join(THEORIES, "*.v")))
    gen = sorted(glob.glob(os.path.join(COQ, "gen", "*.v")))
    return vs, gen


def grep_gate():
    """No Admitted / Axiom / Parameter / switched-off checks anywhere in the development."""
    bad = []
    files = glob.glob(os.path.join(COQ, "**", "*.v"), recursive=True)
    for f in files:
        txt = open(f).read()
        txt = re.sub(r"\(\*.*?\*\)", "", txt, flags=re.S)  # comments may mention the words
        for m in FORBIDDEN.finditer(txt):
            bad.append("%s: %s" % (os.path.relpath(f, VERIF), m.group(0)))
    # top-level Variable/Hypothesis outside a Section
    for f in files:
        depth = 0
        for ln in open(f):
            s = ln.strip()
            if re.match(r"Section\s+\w+", s):
                depth += 1
            elif re.match(r"End\s+\w+", s) and depth > 0:
                depth -= 1
            elif depth == 0 and re.match(r"(Variable|Variables|Hypothesis|Hypotheses|Context)\b", s):
                bad.append("%s: top-level %s" % (os.path.relpath(f, VERIF), s.split()[0]))
    return bad


def prop_targets(pid):
    """The .vo files props/<pid>.v imports directly (make builds their own dependencies): a property's check compiles
    the closure it needs, not other layers' files."""
    src = os.path.join(PROPS, pid + ".v")
    if not os.path.exists(src):
        return None
    txt = re.sub(r"\(\*.*?\*\)", "", open(src).read(), flags=re.S)
    tg = []
    for m in re.finditer(r"From\s+(Burrow|BurrowGen)\s+Require\s+(?:Import|Export)?\s*([^.]*)\.", txt):
        for name in m.group(2).split():
            d = "theories" if m.group(1) == "Burrow" else "gen"
            if os.path.exists(os.path.join(COQ, d, name + ".v")):
                tg.append("%s/%s.vo" % (d, name))
    return sorted(set(tg)) or None


def build_coq(clean=False, targets=None):
    """Full .vo build (never -vos) of every theory, or of `targets` and what they depend on."""
    with Lock(COQ_LOCK):
        vs, gen = coq_sources()
        lines = ["-Q theories Burrow"]
        if gen:
            lines.append("-Q gen BurrowGen")
        lines += [os.path.relpath(v, COQ) for v in vs + gen]
        proj = "\n".join(lines) + "\n"
        pp = os.path.join(COQ, "_CoqProject")
        old = open(pp).read() if os.path.exists(pp) else None
        if old != proj or not os.path.exists(os.path.join(COQ, "Makefile")):
            open(pp, "w").write(proj)
            sh(["coq_makefile", "-f", "_CoqProject", "-o", "Makefile"], cwd=COQ)
        if clean:
            sh("make clean >/dev/null 2>&1; find . -name '*.vo' -o -name '*.glob' -o -name '*.vok' -o -name '*.vos' | xargs rm -f",
               cwd=COQ, check=False)
        t0 = time.time()
        # per-file limits: a diverging proof step must not take the machine (or the shared lock) with it
        p = sh("ulimit -v 16000000; timeout 3000 make -k -j16 COQC='timeout 1200 coqc' %s" % " ".join(targets or []),
               cwd=COQ, check=False)
        # A file that does not compile is only fatal for the properties that depend on it: compile_prop()
        # fails for exactly those (their .vo prerequisites are missing).  The log is kept for the evidence.
        open(os.path.join(BUILD, "coq_build.log"), "w").write(p.stdout or "")
        return p.returncode == 0, (p.stdout or "")[-3000:]


def coq_flags():
    fl = ["-Q", "theories", "Burrow"]
    if os.path.isdir(os.path.join(COQ, "gen")) and glob.glob(os.path.join(COQ, "gen", "*.v")):
        fl += ["-Q", "gen", "BurrowGen"]
    return fl


def compile_prop(pid):
    """Compile theories/props/<pid>.v on its own, capture Print Assumptions output.
    Returns dict(theorems=[...], axioms=set(...), closed=int, ok=bool, log=str)."""
    src = os.path.join(PROPS, pid + ".v")
    with Lock(COQ_LOCK, shared=True), Lock("prop_" + pid):
        p = sh("ulimit -v 16000000; exec timeout 900 coqc %s %s" % (" ".join(coq_flags()), os.path.relpath(src, COQ)),
               cwd=COQ, check=False)
    out = p.stdout or ""
    txt = open(src).read()
    txt_nc = re.sub(r"\(\*.*?\*\)", "", txt, flags=re.S)
    theorems = re.findall(r"^\s*(?:Theorem|Lemma|Corollary|Example)\s+(\w+)", txt_nc, flags=re.M)
    closed = out.count("Closed under the global context")
    axioms = set()
    in_ax = False
    for ln in out.splitlines():
        if ln.startswith("Axioms:"):
            in_ax = True
            continue
        if in_ax:
            m = re.match(r"^([A-Za-z_][\w.']*)\s*(:|$)", ln)
            if m and not ln.startswith(" "):
                axioms.add(m.group(1))
            elif ln and not ln.startswith(" "):
                in_ax = False
    ok = p.returncode == 0
    return dict(theorems=theorems, axioms=axioms, closed=closed, ok=ok, log=out)


def coqchk(pid, timeout=3000):
    """Re-checks the compiled props/<pid>.vo and everything it depends on with Coq's independent checker (thorough tier)."""
    with Lock(COQ_LOCK, shared=True), Lock("coqchk"):
        p = sh("ulimit -v 24000000; exec timeout %d coqchk -silent -o %s Burrow.props.%s" % (timeout, " ".join(coq_flags()), pid),
               cwd=COQ, check=False)
    return p.returncode == 0, p.stdout or ""


def coqchk_axioms(txt):
    m = re.search(r"\* Axioms:(.*?)(\n\* |\Z)", txt, flags=re.S)
    if not m:
        return "none listed"
    names = [l.strip() for l in m.group(1).splitlines() if l.strip()]
    return ", ".join(names) if names else "<none>"


# ---------------------------------------------------------------------------------------------
# OCaml model driver (extracted model + hand-written line parser/printer)
# ---------------------------------------------------------------------------------------------

def build_driver(layer):
    """Extract the layer's model (coq/extract/<layer>.v, ExtrOcamlBasic only) and build its driver binary
    (_build/ocaml/<layer>/driver) from ocaml/vutil.ml + ocaml/drv_<layer>.ml."""
    with Lock(COQ_LOCK, shared=True), Lock("driver_" + layer):
        odir = os.path.join(BUILD, "ocaml", layer)
        os.makedirs(odir, exist_ok=True)
        ext = os.path.join(COQ, "extract", layer + ".v")
        drv = os.path.join(OCAML, "drv_%s.ml" % layer)
        deps = [ext, drv, os.path.join(OCAML, "vutil.ml")] + glob.glob(os.path.join(THEORIES, "*.vo")) \
            + glob.glob(os.path.join(COQ, "gen", "*.vo"))
        h = hashlib.sha256()
        for d in sorted(deps):
            h.update(d.encode())
            h.update(open(d, "rb").read())
        stamp = os.path.join(odir, "stamp")
        binp = os.path.join(odir, "driver")
        if os.path.exists(stamp) and os.path.exists(binp) and open(stamp).read() == h.hexdigest():
            return binp
        for f in glob.glob(os.path.join(odir, "*")):
            if os.path.isfile(f):
                os.remove(f)
        shutil.copy(ext, os.path.join(odir, "Extract.v"))
        fl = ["-Q", os.path.join(COQ, "theories"), "Burrow"]
        if glob.glob(os.path.join(COQ, "gen", "*.vo")):
            fl += ["-Q", os.path.join(COQ, "gen"), "BurrowGen"]
        sh(["timeout", "900", "coqc"] + fl + ["Extract.v"], cwd=odir)
        shutil.copy(os.path.join(OCAML, "vutil.ml"), odir)
        shutil.copy(drv, odir)
        mod = "Drv_" + layer
        open(os.path.join(odir, "main.ml"), "w").write(
            "let () =\n  let path = Sys.argv.(1) in\n"
            "  List.iter (fun l -> if String.trim l <> \"\" then\n"
            "    print_endline (try %s.run l with e -> \"DRIVER-ERROR \" ^ Printexc.to_string e))\n"
            "    (Vutil.read_lines path)\n" % mod)
        sh(["ocamlfind", "ocamlopt", "-w", "-a", "-inline", "50", "-package", "zarith", "-linkpkg",
            "model.mli", "model.ml", "vutil.ml", "drv_%s.ml" % layer, "main.ml", "-o", "driver"], cwd=odir, timeout=900)
        open(stamp, "w").write(h.hexdigest())
        return binp


def run_model(layer, cases_path, out_path, timeout=1800):
    drv = build_driver(layer)
    with open(out_path, "w") as o:
        p = subprocess.run([drv, cases_path], stdout=o, stderr=subprocess.PIPE, text=True, timeout=timeout)
    if p.returncode != 0:
        raise BuildError("model driver failed on %s: %s" % (layer, p.stderr[-3000:]))


# ---------------------------------------------------------------------------------------------
# Go probes via -overlay
# ---------------------------------------------------------------------------------------------

CLOCK_PKGS = {
    "storage": "core/internal/storage",
    "evaluator": "core/internal/evaluator",
    "notifier": "core/internal/notifier",
    "cluster": "core/internal/cluster",
    "consumer": "core/internal/consumer",
}

CLOCK_FILE = """package %s

import (
	"sync/atomic"
	"time"
)

// Virtual clock used by the verification probes (overlay-injected; not part of /repo).
var verifClock atomic.Int64

func verifNow() time.Time {
	if v := verifClock.Load(); v != 0 {
		return time.Unix(0, v)
	}
	return time.Now()
}

// VerifSetClock sets the virtual clock in nanoseconds since the epoch; 0 restores the real clock.
func VerifSetClock(nanos int64) { verifClock.Store(nanos) }
"""


def package_name(pkgdir):
    for f in sorted(glob.glob(os.path.join(pkgdir, "*.go"))):
        if f.endswith("_test.go"):
            continue
        m = re.search(r"^package\s+(\w+)", open(f).read(), flags=re.M)
        if m:
            return m.group(1)
    raise BuildError("no package clause in " + pkgdir)


def probe_pkg(key):
    """probes/<key>/PKG names the /repo package (relative path) the probe files of that directory are injected into."""
    return open(os.path.join(PROBES, key, "PKG")).read().strip()


def make_overlay(key):
    """Writes _build/overlay_<key>.json: the probe files of probes/<key>/ injected as new files of their package; for
    the packages that read the wall clock, a token-for-token rewrite time.Now() -> verifNow() of their non-test
    sources (copies under _build; /repo itself is never written)."""
    odir = os.path.join(BUILD, "overlay_src", key)
    shutil.rmtree(odir, ignore_errors=True)
    os.makedirs(odir, exist_ok=True)
    replace = {}
    for ck, rel in CLOCK_PKGS.items():
        pkgdir = os.path.join(REPO, rel)
        if not os.path.isdir(pkgdir):
            continue
        pname = package_name(pkgdir)
        touched = False
        for f in sorted(glob.glob(os.path.join(pkgdir, "*.go"))):
            if f.endswith("_test.go"):
                continue
            src = open(f).read()
            if "time.Now()" not in src:
                continue
            new = src.replace("time.Now()", "verifNow()")
            if not new.endswith("\n"):
                new += "\n"
            new += "var _ time.Duration // keeps the time import used after the verif clock rewrite\n"
            dst = os.path.join(odir, ck + "__" + os.path.basename(f))
            open(dst, "w").write(new)
            replace[f] = dst
            touched = True
        if touched:
            dst = os.path.join(odir, ck + "__zz_verif_clock.go")
            open(dst, "w").write(CLOCK_FILE % pname)
            replace[os.path.join(pkgdir, "zz_verif_clock.go")] = dst
    rel = probe_pkg(key)
    for f in sorted(glob.glob(os.path.join(PROBES, key, "*.go"))):
        replace[os.path.join(REPO, rel, os.path.basename(f))] = f
    path = os.path.join(BUILD, "overlay_%s.json" % key)
    open(path, "w").write(json.dumps({"Replace": replace}, indent=1))
    return path


def build_probe(key, race=False):
    """go test -c of the /repo package named by probes/<key>/PKG with that directory's probe files injected.
    Returns (binary path, None) or (None, compiler output) when the probe no longer compiles against the tree."""
    with Lock("probe_" + key):
        overlay = make_overlay(key)
        out = os.path.join(BUILD, "probes", key + (".race" if race else "") + ".test")
        os.makedirs(os.path.dirname(out), exist_ok=True)
        env = dict(GO_ENV)
        if race:
            env["CGO_ENABLED"] = "1"
        cmd = ["go", "test", "-c", "-tags", "verif", "-vet=off", "-overlay", overlay, "-o", out]
        if race:
            cmd.append("-race")
        cmd.append("./" + probe_pkg(key))
        p = sh(cmd, cwd=REPO, env=env, timeout=1500, check=False)
        if p.returncode != 0:
            return None, p.stdout
        return out, None


def run_probe(binary, test, cases_path, out_path, extra_env=None, timeout=1800, mem_kb=6 * 1024 * 1024, cwd=None):
    env = dict(os.environ)
    env.update({"VERIF_CASES": cases_path, "VERIF_OUT": out_path})
    if extra_env:
        env.update(extra_env)
    cmd = "ulimit -v %d; exec timeout %d %s -test.run '^%s$' -test.count=1 -test.timeout %ds" % (
        mem_kb, timeout, binary, test, timeout)
    p = subprocess.run(cmd, shell=True, cwd=cwd or os.path.dirname(binary), env=env,
                       stdout=subprocess.PIPE, stderr=subprocess.STDOUT, text=True)
    return p.returncode, p.stdout


# ---------------------------------------------------------------------------------------------
# Evidence, findings, violations
# ---------------------------------------------------------------------------------------------

def load_known():
    p = os.path.join(VERIF, "known_findings.json")
    if not os.path.exists(p):
        return {"findings": [], "fixed": []}
    return json.load(open(p))


def write_replay(pid, name, obj):
    os.makedirs(REPLAYS, exist_ok=True)
    path = os.path.join(REPLAYS, "%s_%s.json" % (pid, name))
    json.dump(obj, open(path, "w"), indent=1, default=str)
    return path


def write_evidence(pid, tier, seed, coverage, wall, violations, assumptions):
    os.makedirs(EVIDENCE, exist_ok=True)
    ev = {
        "property_id": pid, "tier": tier, "seed": seed, "level": "proof",
        "coverage": coverage, "assumptions": assumptions, "wall_s": round(wall, 2), "violations": violations,
    }
    path = os.path.join(EVIDENCE, pid + ".json")
    tmp = path + ".tmp"
    json.dump(ev, open(tmp, "w"), indent=1, default=str)
    os.replace(tmp, path)


def case_hash(s):
    return hashlib.sha1(s.encode()).hexdigest()[:16]


class Rng(random.Random):
    """One PRNG per check run, seeded from VERIF_SEED."""
    pass


def work_dir(pid):
    d = os.path.join(BUILD, "work", pid)
    shutil.rmtree(d, ignore_errors=True)
    os.makedirs(d, exist_ok=True)
    return d


def read_corpus(pid, name="cases.txt"):
    p = os.path.join(CORPUS, pid, name)
    if not os.path.exists(p):
        return []
    return [l.rstrip("\n") for l in open(p) if l.strip() and not l.startswith("#")]


def write_gen(name, content):
    """Writes coq/gen/<name>.v (logical path BurrowGen.<name>) if its content changed.  Generated tables are
    regenerated from /repo on every run by the translators; Coq then re-checks the table obligations."""
    with Lock(COQ_LOCK):
        gdir = os.path.join(COQ, "gen")
        os.makedirs(gdir, exist_ok=True)
        path = os.path.join(gdir, name + ".v")
        if not os.path.exists(path) or open(path).read() != content:
            open(path, "w").write(content)
        return path


def run_translator(name, args=(), timeout=600):
    """Runs the Go translator /verif/translator/<name> (stdlib-only module) and returns its stdout."""
    tdir = os.path.join(VERIF, "translator", name)
    out = os.path.join(BUILD, "translator", name)
    os.makedirs(os.path.dirname(out), exist_ok=True)
    with Lock("translator_" + name):
        sh(["go", "build", "-o", out, "."], cwd=tdir, env=GO_ENV, timeout=timeout)
    p = sh([out] + list(args), cwd=REPO, env=GO_ENV, timeout=timeout)
    return p.stdout
