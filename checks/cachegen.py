"""Scenario generator and observation parser for the evaluator cache layer (C05).

A scenario line (`scn ...`) is a table of cluster names, group names (hex bytes, `-` = empty) and storage contents
(evalgen partition format), then a script:
    U ci gi v                  storage content of (cluster ci, group gi) becomes version v (0 = group gone)
    Q ci gi showall            one status request, answered before the script goes on
    S ms                       sleep
    W ms                       the storage subsystem takes nothing off its channel for ms
    WR ms                      the next storage fetch is taken at once and answered ms later
    M cap delay                from here on: reply channels of capacity cap (0 = unbuffered), read delay ms after the request
    C k uci ugi uv m (ci gi showall)*m
                               m requests at once from 8 requesters; after the k-th storage fetch of the burst the
                               update (uci, ugi, uv) is applied (k < 0: none)
"""
import evalgen

NOW_MS = 1600000000 * 1000


def hx(b):
    return b.hex() if b else "-"


def unhx(s):
    return b"" if s == "-" else bytes.fromhex(s)


# name pools: spaces in cluster AND group names, empty, unicode, digits (the repaired key starts with a length)
CLUSTERS = [b"testcluster", b"testcluster b", b"a", b"a b", b"", b" ", b"1 a", b"3", "kafka-ü".encode(), b"x  y", b"b",
            b"11 testcluster", b"a b c"]
GROUPS = [b"b c", b"c", b"g", b"", b" ", b"b", b"a b c", b"3 a b", "grp ü中".encode(), b"c ", b" c", b"testcluster b c",
          b"1 a x"]
# families in which cluster + " " + group coincides for different pairs
FAMILIES = [
    ([b"a", b"a b"], [b"b c", b"c", b"g"]),
    ([b"testcluster", b"testcluster b"], [b"b c", b"c", b""]),
    ([b"", b" "], [b" c", b"c", b"  c"]),
    ([b"a b", b"a b c"], [b"c d", b"d", b" d"]),
    ([b"a", b"a "], [b" b", b"b", b"  b"]),
    ([b"1 a", b"1"], [b"x", b"a x", b"1 a x"]),
]


def part_ok(lag_tag):
    return (1, 0, 0, [100 + lag_tag], [(90, 1, NOW_MS - 10000, 10), (100 + lag_tag, 2, NOW_MS - 5000, 0)])


def part_stop(x):
    return (2, 0, x, [20 + x], [(10, 1, NOW_MS - 100000, 5), (20, 2, NOW_MS - 90000, 5 + x)])


def part_warn(x):
    return (3, 0, x, [20 + x], [(10, 1, NOW_MS - 20000, 5), (20, 2, NOW_MS - 1000, 5 + x)])


def part_stall(x):
    return (1, 0, x, [10 + x], [(10, 1, NOW_MS - 20000, x), (10, 2, NOW_MS - 1000, x)])


def gen_content(rng, tag):
    """Storage content number `tag`: 0..4 partitions of mixed status; lags carry the tag so contents differ."""
    n = rng.choice([0, 1, 2, 3, 3, 4])
    parts = []
    for i in range(n):
        k = rng.choice(["ok", "ok", "stop", "warn", "stall"])
        x = 10 * tag + i + 1
        parts.append({"ok": part_ok, "stop": part_stop, "warn": part_warn, "stall": part_stall}[k](x))
    return parts


def fmt_content(parts):
    return " ".join([str(len(parts))] + [evalgen.fmt_part(p) for p in parts])


def pick_names(rng):
    if rng.random() < 0.6:
        cl, gr = rng.choice(FAMILIES)
        return list(cl), list(gr), "family"
    return rng.sample(CLUSTERS, 2), rng.sample(GROUPS, 3), "pool"


LONG = 1200   # ms: longer than lifetime + slack
def gen_scenario(rng, sid, kind=None):
    """kind: 'seq' (replayed by the model step by step), 'conc' (bursts from 8 requesters), 'zero' (expire-cache 0)."""
    if kind is None:
        kind = rng.choice(["seq", "seq", "seq", "conc", "conc", "zero"])
    cl, gr, how = pick_names(rng)
    nv = rng.choice([2, 3, 4])
    contents = [gen_content(rng, v + 1) for v in range(nv)]
    lsec = 0 if kind == "zero" else 1
    pairs = [(c, g) for c in range(len(cl)) for g in range(len(gr))]
    hot = rng.sample(pairs, rng.choice([1, 2, 3]))
    steps = []
    tags = [kind, how]

    def some_updates(n):
        for _ in range(n):
            c, g = rng.choice(hot) if rng.random() < 0.8 else rng.choice(pairs)
            v = rng.choice([0] + list(range(1, nv + 1)) * 2)
            steps.append("U %d %d %d" % (c, g, v))

    def some_requests(n):
        for _ in range(n):
            c, g = rng.choice(hot) if rng.random() < 0.8 else rng.choice(pairs)
            steps.append("Q %d %d %d" % (c, g, rng.choice([0, 1, 1])))

    def burst():
        m = rng.choice([8, 8, 12, 16, 24])
        k = rng.choice([-1, 1, 1, 2, 3])
        uc, ug = rng.choice(hot)
        uv = rng.choice([0] + list(range(1, nv + 1)))
        rq = []
        for _ in range(m):
            c, g = rng.choice(hot) if rng.random() < 0.85 else rng.choice(pairs)
            rq.append("%d %d %d" % (c, g, rng.choice([0, 1])))
        steps.append("C %d %d %d %d %d %s" % (k, uc, ug, uv, m, " ".join(rq)))

    some_updates(rng.choice([0, 1, 2, 3]))
    head = steps
    nphase = rng.choice([2, 3]) if kind != "zero" else 2
    phases, cold = [], [True]          # cold[p]: nothing usable is cached when phase p starts
    for ph in range(nphase):
        steps = []
        if kind == "conc" and (ph > 0 or rng.random() < 0.5):
            if rng.random() < 0.5:
                some_requests(rng.choice([1, 2]))
            burst()
            some_requests(rng.choice([0, 1, 2]))
        else:
            some_requests(rng.choice([1, 2, 3]))
            some_updates(rng.choice([0, 1, 1, 2]))
            some_requests(rng.choice([1, 2, 3]))
        if ph + 1 < nphase:
            # the hot groups change while the cached results age
            some_updates(rng.choice([1, 1, 2]))
            if kind == "zero":
                steps.append("S %d" % rng.choice([150, 300]))
                cold.append(True)
            else:
                ms = rng.choice([LONG, LONG, LONG, 200])
                steps.append("S %d" % ms)
                cold.append(ms == LONG)
        phases.append(steps)

    # the inputs the evaluator does not control: a storage subsystem that is busy, requesters that are slow or use an
    # unbuffered reply channel (the HTTP server and the notifier do)
    cap = 4
    if rng.random() < 0.35:
        cap = 0
        tags.append("unbuffered-reply-channel")
    if rng.random() < 0.3:
        # storage takes nothing off its channel for longer than any send timeout in the code base (1 s), at a moment
        # when the next request must fetch (nothing cached, or everything expired)
        p = rng.choice([i for i in range(nphase) if cold[i]])
        phases[p].insert(0, "W %d" % rng.choice([1200, 1300, 1500]))
        tags.append("storage-stall")
    if kind == "zero" and rng.random() < 0.4:
        # storage takes the fetch at once but answers late (no cache in these scenarios: every request fetches)
        p = rng.randrange(nphase)
        qi = [i for i, x in enumerate(phases[p]) if x.startswith(("Q ", "C "))]
        phases[p].insert(qi[0], "WR %d" % rng.choice([1200, 1400]))
        tags.append("slow-storage-answer")
    if rng.random() < 0.25:
        # one requester comes back for its answer 1.3 s after handing the request over
        p = rng.randrange(nphase)
        qi = [i for i, x in enumerate(phases[p]) if x.startswith("Q ")]
        if qi:
            i = rng.choice(qi)
            phases[p][i:i + 1] = ["M %d 1300" % cap, phases[p][i], "M %d 0" % cap]
            tags.append("slow-requester")
    steps = head + (["M %d 0" % cap] if cap != 4 else [])
    for ph in phases:
        steps += ph
    line = "scn %s %d NC %d %s NG %d %s NV %d %s ST %d %s" % (
        sid, lsec, len(cl), " ".join(hx(c) for c in cl), len(gr), " ".join(hx(g) for g in gr),
        nv, " ".join(fmt_content(c) for c in contents), len(steps), " ".join(steps))
    return line, tags


def parse_obs(line):
    """OBS line of the probe -> dict(events=[...], counts=[...], alias=int) ; events are tuples headed by their kind."""
    f = line.split()
    if len(f) < 3 or f[0] != "OBS":
        return None
    if f[2] == "CRASH":
        return {"crash": " ".join(f[3:]), "events": [], "counts": [], "alias": 0}
    n = int(f[2])
    i = 3
    evs = []
    for _ in range(n):
        k = f[i]
        if k == "U":
            evs.append(("U", int(f[i + 1]), int(f[i + 2]), int(f[i + 3]), int(f[i + 4])))
            i += 5
        elif k == "L":
            evs.append(("L", int(f[i + 1]), f[i + 2], f[i + 3], int(f[i + 4])))
            i += 5
        elif k in ("W", "X"):
            evs.append((k, int(f[i + 1]), int(f[i + 2])))
            i += 3
        elif k == "Q":
            evs.append(("Q", int(f[i + 1]), int(f[i + 2]), int(f[i + 3]), int(f[i + 4]), int(f[i + 5])))
            i += 6
        elif k == "R":
            nt = int(f[i + 5])
            evs.append(("R", int(f[i + 1]), int(f[i + 2]), f[i + 3], f[i + 4], " ".join(f[i + 6:i + 6 + nt])))
            i += 6 + nt
        else:
            raise ValueError("bad event %r in %r" % (k, line[:200]))
    assert f[i] == "RC"
    nc = int(f[i + 1])
    counts = [int(x) for x in f[i + 2:i + 2 + nc]]
    i += 2 + nc
    assert f[i] == "ALIAS"
    return {"events": evs, "counts": counts, "alias": int(f[i + 1])}


def impl_projection(obs):
    """What the model's replay prints, computed from the implementation's observation: replies in order of arrival,
    then the storage fetches."""
    rs = ["R %d %s %s %d %s" % (e[1], e[3], e[4], len(e[5].split()), e[5]) for e in obs["events"] if e[0] == "R"]
    lk = ["%d %s %s" % (e[1], e[2], e[3]) for e in obs["events"] if e[0] == "L"]
    return " ".join(rs + ["LK", str(len(lk))] + lk)


def gen_errload(rng, sid):
    """Scripted: two requesters of one group overlap so that goswarm's update() finds a live good value when its own
    fetch came back nil.  Storage holds nothing for the pair; both requests miss; the first fetch taken is answered nil
    600 ms late (WR); after it is taken the group appears (update after the 1st fetch of the burst); the second
    requester's fetch gets data and is stored at once; when the nil arrives, the first requester Loads the other's
    value (created < 1 s ago) and is answered with it.  A third request 40 ms later still finds that value cached."""
    cl, gr, how = pick_names(rng)
    nv = 2
    contents = [gen_content(rng, v + 1) or [part_stop(7)] for v in range(nv)]
    c, g = rng.randrange(len(cl)), rng.randrange(len(gr))
    sa = [rng.choice([0, 1]) for _ in range(3)]
    cap = rng.choice([0, 4])
    steps = ["M %d 0" % cap, "U %d %d 0" % (c, g), "WR 600",
             "C 1 %d %d %d 2 %d %d %d %d %d %d" % (c, g, rng.choice([1, 2]), c, g, sa[0], c, g, sa[1]),
             "Q %d %d %d" % (c, g, sa[2])]
    line = "scn el%s 1 NC %d %s NG %d %s NV %d %s ST %d %s" % (
        sid, len(cl), " ".join(hx(x) for x in cl), len(gr), " ".join(hx(x) for x in gr),
        nv, " ".join(fmt_content(x) for x in contents), len(steps), " ".join(steps))
    return line, ["errload", how, "error-fetch-finds-live-value"]


def errload_schedule(obs):
    """The schedule (thread, clock) of a gen_errload scenario, from what was observed; None if the run did not take the
    scripted shape (then only the oracle judges it)."""
    ev = obs["events"]
    q = {e[1]: e[2] for e in ev if e[0] == "Q"}
    r = {}
    for e in ev:
        if e[0] == "R":
            r.setdefault(e[1], e[2])
    looks = [e for e in ev if e[0] == "L"]
    if sorted(q) != [0, 1, 2] or sorted(r) != [0, 1, 2] or len(looks) != 2 or looks[0][4] != 0 or looks[1][4] == 0:
        return None
    x, y = (0, 1) if r[0] > r[1] else (1, 0)      # x waited for the late nil answer
    if not (looks[1][1] < r[y] < r[x] < q[2]):
        return None
    if not (q[x] < looks[0][1] and q[y] < looks[1][1]):
        return None
    head = sorted([(x, q[x]), (y, q[y]),          # both read the cache: nothing there (y possibly after x's fetch)
                   (x, looks[0][1]), (y, looks[1][1])],   # fetches: nil for x, data for y
                  key=lambda e: e[1])
    return head + [
            (y, looks[1][1]), (y, r[y]),          # y stores and replies
            (x, r[x]), (x, r[x]),                 # x Loads: live good value; replies with it
            (2, q[2]), (2, r[2])]                 # served from the cache


def gen_default(rng, sid, full):
    """expire-cache left unset: Configure's SetDefault(10).  Short form: a request 1.2 s after the fetch is still served
    from the cache; full form (thorough tier): also 9.5 s after it, and no longer 10.3 s after it."""
    cl, gr, how = pick_names(rng)
    contents = [gen_content(rng, 1) or [part_ok(1)], gen_content(rng, 2)]
    c, g = rng.randrange(len(cl)), rng.randrange(len(gr))
    steps = ["U %d %d 1" % (c, g), "Q %d %d 1" % (c, g), "U %d %d 2" % (c, g), "S 1200", "Q %d %d 0" % (c, g)]
    if full:
        steps += ["S 8300", "Q %d %d 1" % (c, g), "S 900", "Q %d %d 1" % (c, g), "Q %d %d 0" % (c, g)]
    line = "scn df%s -1 NC %d %s NG %d %s NV 2 %s ST %d %s" % (
        sid, len(cl), " ".join(hx(x) for x in cl), len(gr), " ".join(hx(x) for x in gr),
        " ".join(fmt_content(x) for x in contents), len(steps), " ".join(steps))
    return line, ["default", how, "expire-cache-unset"]


def configured_lifetime(obs):
    for e in obs["events"]:
        if e[0] == "X":
            return e[2]
    return None


def parse_kind(scen):
    f = scen.split()
    if f[1].startswith("el"):
        return "errload"
    if f[1].startswith("df"):
        return "default"
    if f[2] == "0":
        return "zero"
    st = f.index("ST")
    return "conc" if "C" in f[st:] else "seq"
