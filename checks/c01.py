"""C01 — reported lag is exact and never negative.

Tie: whole histories (virtual clock) on the real InMemoryStorage handlers (probe `storage`) and on the extracted Coq
model (Burrow.Storage.step); every fetch reply is compared.  Independently of the model, `check_C01` recomputes from
the HISTORY ALONE what the property demands of every FetchConsumer reply and is applied to the implementation's
replies on every run (and drives the search / shrinking when something differs)."""
import json

import common as C
import storage_common as SC
import storagegen

U64 = 2 ** 64

# ---------------------------------------------------------------------------------------------
# the property's own oracle (Python, history -> demands on the replies)
# ---------------------------------------------------------------------------------------------


def _clusters(head):
    ncl = int(head[4])
    return set(int(x) for x in head[5:5 + ncl])


def check_C01(line, out, stats=None):
    """Returns the list of demands of C01 that the replies in `out` (one probe/driver output line) violate.
    Uses only the history `line`:
      * CurrentLag of a partition whose newest window slot holds commit k = max(0, B - k.offset), B = offset of the
        last SetBrokerOffset for (cluster, topic, partition) before the fetch; 0 when the newest slot is empty;
      * a stored commit's lag, when present, = max(0, B' - offset) for B' = the last broker offset before AN arrival
        of a commit with that (offset, log position) on that group/topic/partition;
      * a stored commit that carries a lag value cannot have arrived below a commit that is still in the window
        (every arrival of the higher-positioned one precedes every arrival of this one => it arrived out of order);
      * a stored commit without a lag value must have had, before one of its arrivals, an arrival with a log position
        at least as high (otherwise it was the newest on arrival and must carry its lag)."""
    head, ops = SC.split_history(line)
    known = _clusters(head)
    segs = SC.segments(out)
    si = 0
    lb, nb, arrivals = {}, {}, {}
    fails = []
    for k, op in enumerate(ops):
        kind = op[0]
        if kind == "B":
            c, t, p, cnt, off = (int(x) for x in op[2:7])
            if c in known:
                lb[(c, t, p)] = off
                nb[(c, t, p)] = nb.get((c, t, p), 0) + 1
        elif kind == "C":
            c, g, t, p, off, order, ts = (int(x) for x in op[2:9])
            arrivals.setdefault((c, g, t, p), []).append((k, off, order, lb.get((c, t, p))))
        if kind not in SC.FETCH:
            continue
        if si >= len(segs):
            fails.append("op %d (%s): no reply recorded" % (k, kind))
            break
        seg = segs[si]
        si += 1
        if seg == "CRASH":
            fails.append("op %d (%s): storage panicked" % (k, kind))
            break
        if kind != "FX" or seg == "NIL":
            continue
        c, g = int(op[2]), int(op[3])
        try:
            topics = SC.parse_consumer(seg)
        except Exception as e:  # unparsable reply
            fails.append("op %d: unparsable reply (%s)" % (k, e))
            continue
        for t, parts in topics.items():
            for i, part in enumerate(parts):
                offs = part["offsets"]
                where = "op %d FX c%d g%d t%d p%d" % (k, c, g, t, i)
                newest = offs[-1] if offs else None
                b = lb.get((c, t, i))
                stored = [e for e in offs if e is not None]
                if stats is not None and stored:
                    stats["partitions_with_commits"] = stats.get("partitions_with_commits", 0) + 1
                    if nb.get((c, t, i), 0) >= 2:
                        stats["nontrivial"] = True
                    if newest is not None and b is not None and newest[0] > b:
                        stats["ahead_at_fetch"] = stats.get("ahead_at_fetch", 0) + 1
                if newest is None:
                    if part["lag"] != 0:
                        fails.append("%s: newest slot empty but CurrentLag=%d" % (where, part["lag"]))
                else:
                    if b is None:
                        fails.append("%s: commit stored but no broker offset was ever recorded" % where)
                    else:
                        want = max(0, b - newest[0])
                        if part["lag"] != want:
                            fails.append("%s: CurrentLag=%d, want max(0, %d - %d) = %d" % (where, part["lag"], b, newest[0], want))
                if not (0 <= part["lag"] < U64):
                    fails.append("%s: CurrentLag=%d outside uint64" % (where, part["lag"]))
                arr = arrivals.get((c, g, t, i), [])
                for e in stored:
                    off, order, ts, lag = e
                    mine = [a for a in arr if a[1] == off and a[2] == order]
                    if not mine:
                        continue          # not a C01 matter (C02/C07: a stored commit is one that arrived)
                    if lag is not None:
                        allowed = set(max(0, a[3] - off) for a in mine if a[3] is not None)
                        if lag not in allowed:
                            fails.append("%s: commit (off %d, pos %d) carries lag %d, want one of %s "
                                         "(max(0, broker offset at its arrival - offset))" % (where, off, order, lag, sorted(allowed)))
                        first_mine = min(a[0] for a in mine)
                        for e2 in stored:
                            if e2[1] > order:
                                theirs = [a[0] for a in arr if a[1] == e2[0] and a[2] == e2[1]]
                                if theirs and max(theirs) < first_mine:
                                    fails.append("%s: commit (off %d, pos %d) arrived below the stored commit at pos %d "
                                                 "(out of order) but carries lag %d instead of none" % (where, off, order, e2[1], lag))
                                    break
                    else:
                        ooo = any(a2[0] < a[0] and a2[2] >= order for a in mine for a2 in arr)
                        if not ooo:
                            fails.append("%s: commit (off %d, pos %d) was the newest on arrival but carries no lag" % (where, off, order))
    return fails


# ---------------------------------------------------------------------------------------------
# the check
# ---------------------------------------------------------------------------------------------
FLAVOURS = ["mix", "mix", "extreme", "ahead", "moving", "moving"]
GENERAL = ["general", "general", "ring", "delete"]


def generate(chk, n_lag, n_general):
    hs = []
    for i in range(n_lag):
        hs.append(storagegen.gen_lag(chk.rng, FLAVOURS[i % len(FLAVOURS)]))
    for i in range(n_general):
        hs.append(storagegen.gen_general(chk.rng, GENERAL[i % len(GENERAL)]))
    return hs


def replay_obj(line, impl, model, fails, broken):
    return {"kind": "history", "probe": "storage/TestVerifProbeStorage", "case": line, "impl_output": impl,
            "model_output": model, "oracle_verdict": fails[:6] if fails else "check_C01 accepts the implementation's replies",
            "broken": broken, "cmd": "bin/check C01 --replay <this file>"}


def shrink_on_oracle(chk, line):
    return SC.shrink(chk, line, lambda ln, a, b: bool(check_C01(ln, a)), with_line=True)


def run(chk, failed):
    n_lag = 2400 if not chk.thorough else 90000
    n_gen = 600 if not chk.thorough else 20000
    corpus = C.read_corpus(chk.pid)
    hists = generate(chk, n_lag, n_gen)
    lines = list(corpus) + [h.line() for h in hists]
    tags = [set(["corpus"])] * len(corpus) + [h.tags for h in hists]
    chk.rule = ("whole storage histories (virtual clock): broker offsets and commits around the boundary pool "
                "{0,1,b-1,b,b+1,2^62,2^63-1,-1,-2^63}, consumer ahead of / at / behind the broker, broker offset moving "
                "(also backwards) between commits, partition counts growing, out-of-order and duplicate commits, deletes, "
                "expiry; plus the general/ring/delete streams shared with C02/C09. Non-trivial = the history reaches a "
                "FetchConsumer reply holding a partition with >= 1 stored commit whose broker partition was updated >= 2 "
                "times; distinct by the history line")
    impl, model = SC.run_both(chk, lines, "hist")
    chk.evaluations += len(lines)
    chk.traces_validated += len(lines)
    bad_oracle, mism = [], []
    for ln, tg, a, b in zip(lines, tags, impl, model):
        st = {}
        fails = check_C01(ln, a, st)
        if st.get("nontrivial"):
            chk.nontrivial.add(C.case_hash(ln))
        for t in tg:
            chk.count("tag:" + t)
        chk.count("fetch-partitions-with-commits", st.get("partitions_with_commits", 0))
        chk.count("fetch-partitions-consumer-ahead", st.get("ahead_at_fetch", 0))
        if fails:
            bad_oracle.append((ln, a, b, fails))
        if a != b:
            mism.append((ln, a, b))
    for ln in lines:
        for op in SC.split_history(ln)[1]:
            chk.count("op:" + op[0])
    for i in (0, len(lines) // 2, len(lines) - 1):
        chk.sample({"case": lines[i], "impl": impl[i], "model": model[i]})

    reported = 0
    # 1. the implementation's own replies violate the property (found input, whatever the model says)
    for (ln, a, b, fails) in bad_oracle[:3]:
        small = shrink_on_oracle(chk, ln)
        ia, ib = SC.run_both(chk, [small], "min")
        chk.violation("oracle_%d" % reported, replay_obj(small, ia[0], ib[0], check_C01(small, ia[0]),
                                                         "C01 oracle on the implementation's replies (current_lag_exact / commit_lag_exact)"))
        reported += 1
    # 2. model and implementation differ but the oracle is silent on those cases: search further
    if mism and not bad_oracle:
        found = None
        # neighbours of the first mismatching histories: shrink while they still differ, look at every candidate with the oracle
        for (ln, a, b) in mism[:3]:
            small = SC.shrink(chk, ln, lambda x, y: x != y)
            ia, ib = SC.run_both(chk, [small], "min")
            f = check_C01(small, ia[0])
            if f:
                found = (small, ia[0], ib[0], f)
                break
        if found is None:
            extra = [h.line() for h in generate(chk, 20 * 400, 0)]
            ei = chk.run_impl("storage", "TestVerifProbeStorage", extra, name="search")
            chk.evaluations += len(extra)
            for ln, a in zip(extra, ei):
                f = check_C01(ln, a)
                if f:
                    small = shrink_on_oracle(chk, ln)
                    ia, ib = SC.run_both(chk, [small], "min")
                    found = (small, ia[0], ib[0], check_C01(small, ia[0]))
                    break
        if found is not None:
            chk.violation("search_0", replay_obj(found[0], found[1], found[2], found[3],
                                                 "corr:storage (model/implementation differ); C01 oracle fails on this input"))
        else:
            ln, a, b = mism[0]
            small = SC.shrink(chk, ln, lambda x, y: x != y)
            ia, ib = SC.run_both(chk, [small], "min")
            chk.violation("corr_0", replay_obj(small, ia[0], ib[0], [],
                                               "corr:storage.step (Burrow.Storage no longer describes the handlers; "
                                               "theorems of props/C01.v are about the model)"), found_input=False)
    # 3. a proof obligation failed and nothing above explains it
    if failed and not mism and not bad_oracle:
        chk.violation("obligation", {"kind": "theorem", "broken": [n for n, _ in failed],
                                     "detail": [d for _, d in failed]}, found_input=False)
    # which of the property's observation points THIS check observes (audit A, item 4)
    chk.notes.append("observe_at coverage: this check observes the StorageFetchConsumer reply (Offsets[].Lag, CurrentLag, BrokerOffsets) of "
                     "the real handlers, sequentially. NOT observed here: (a) the stale-topic view (fetchConsumer while a topic is being "
                     "deleted / re-created by another worker: the `continue` branch and the 54faa50 guards) - covered by C08 "
                     "(conc_reply_consistent, conc_reply_broker_complete, scheduler probe); (b) the status views (evaluator "
                     "TotalLag / CurrentLag in caching.go, GET /v3/kafka/{cluster}/consumer/{group}[/status|/lag]) - covered by PIPE "
                     "(PIPE_e2e_lag_exact, end-to-end probe) with C03/C04 (evaluator) and C16/C17 (HTTP); a corrupting cast in "
                     "evaluator/caching.go is theirs to catch, not C01's")
    chk.count("observe_at:StorageFetchConsumer-reply(checked-here)", len(lines))
    chk.count("observe_at:stale-topic-view(covered-by-C08)", 0)
    chk.count("observe_at:status-views-evaluator-http(covered-by-PIPE,C03,C04,C17)", 0)
    chk.assumptions += [
        "requests are well formed (wf_hist): offsets are int64, a broker offset names a partition below the count it announces "
        "(what the cluster module sends); intervals >= 1",
        "one request at a time (sequential semantics of one worker); interleavings (incl. the stale-topic view of fetchConsumer) are C08's",
        "the evaluator / HTTP status views of the same numbers are PIPE's (PIPE_e2e_lag_exact) and C03/C04/C17's, not observed by this check",
        "props/C01.v: current_lag_latest_in_log, stored_lag_exact_strong and commit_in_order_stored go through C02's window shape (RingProofs.v, StorageWindows.v)",
        "handlers are called directly (symbols pinned by the storage unit tests), time.Now() replaced by the virtual clock in the overlay copy",
        "last_broker ignores topic deletion: a commit can only be stored after a broker offset recorded after the deletion, so the last "
        "SetBrokerOffset of the history is the one in force (proved: broker_ok link in StorageProofs.hinv)",
    ]


def replay(path):
    import framework
    obj = json.load(open(path))
    case = obj.get("case")
    if not case:
        print("replay file has no case (theorem-level failure): %s" % obj.get("broken"))
        return 1
    chk = framework.Check("C01", "quick", int(obj.get("seed", 1)))
    impl, model = SC.run_both(chk, [case], "replay")
    fails = check_C01(case, impl[0])
    print("case  : %s\nimpl  : %s\nmodel : %s\noracle: %s" % (case, impl[0], model[0], fails or "accepts"))
    return 1 if (fails or impl[0] != model[0]) else 0
