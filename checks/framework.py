"""Per-run driver shared by all property checks: proof obligations, correspondence, verdict, evidence."""
import json
import os
import sys
import time
import traceback

import common as C


class Check:
    def __init__(self, pid, tier, seed):
        self.pid = pid
        self.tier = tier
        self.seed = seed
        self.rng = C.Rng(seed)
        self.t0 = time.time()
        self.violations = []          # (replay_path, suffix)
        self.known_hits = {}          # key -> text
        self.obligations = []         # (name, ok, detail)
        self.evaluations = 0
        self.nontrivial = set()
        self.samples = []
        self.distribution = {}
        self.rule = ""
        self.traces_validated = 0
        self.notes = []
        self.assumptions = []
        self.trusted = []
        self.refuted_or_partial = []
        self.checker_cmd = "coqc -Q theories Burrow theories/props/%s.v (after make -j16 of coq/_CoqProject)" % pid
        self.known = C.load_known()
        self.work = C.work_dir(pid)
        self.thorough = tier == "thorough"

    # -- obligations -------------------------------------------------------------------------
    def obligation(self, name, ok, detail=""):
        self.obligations.append((name, bool(ok), detail))

    def prove(self):
        """Builds the development and compiles props/<pid>.v; every Theorem there is one obligation.
        Returns the names of obligations that failed."""
        failed = []
        all_ok, coq_log = C.build_coq(clean=self.thorough and os.environ.get("VERIF_NO_CLEAN") != "1",
                                      targets=C.prop_targets(self.pid))
        if not all_ok:
            self.notes.append("some Coq file failed to build this run (fatal only if props/%s.v depends on it): %s"
                              % (self.pid, coq_log[-600:]))
        gate = C.grep_gate()
        self.obligation("no-admit-axiom-gate", not gate, "; ".join(gate))
        res = C.compile_prop(self.pid)
        bad_ax = sorted(a for a in res["axioms"] if a not in C.ALLOWED_AXIOMS)
        if not res["theorems"]:
            self.obligation("props/%s.v" % self.pid, False, "no theorem found / not compiled: " + res["log"][-1500:])
        for th in res["theorems"]:
            self.obligation("theorem:" + th, res["ok"], "" if res["ok"] else res["log"][-1500:])
        self.obligation("axioms-allowed", not bad_ax, "unexpected axioms: %s" % bad_ax)
        self.trusted.append("Print Assumptions (props/%s.v): %d closed under the global context; library axioms used: %s"
                            % (self.pid, res["closed"], sorted(res["axioms"]) or "none"))
        self.refuted_or_partial = [t for t in res["theorems"] if t.endswith("_refuted") or t.endswith("_partial")]
        if self.thorough and res["ok"] and os.environ.get("VERIF_NO_COQCHK") != "1":
            ok, txt = C.coqchk(self.pid)
            self.obligation("coqchk:props/%s" % self.pid, ok, txt[-1500:])
            self.trusted.append("coqchk -silent -o (independent checker) on Burrow.props.%s and everything it depends on: %s"
                                % (self.pid, "accepted; axioms reported: " + C.coqchk_axioms(txt) if ok else "FAILED"))
        for n, ok, d in self.obligations:
            if not ok:
                failed.append((n, d))
        return failed

    # -- correspondence ----------------------------------------------------------------------
    def run_impl(self, probe_key, test, cases, name="cases", extra_env=None, timeout=1800):
        """Runs the real implementation (Go probe built from /repo's working tree) on the case lines."""
        cpath = os.path.join(self.work, name + ".txt")
        with open(cpath, "w") as f:
            for c in cases:
                f.write(c + "\n")
        binp, err = C.build_probe(probe_key)
        if binp is None:
            raise ProbeBroken("probe %s does not compile against the tree:\n%s" % (probe_key, err[-3000:]))
        ipath = os.path.join(self.work, name + ".impl")
        if os.path.exists(ipath):
            os.remove(ipath)
        rc, out = C.run_probe(binp, test, cpath, ipath, extra_env=extra_env, timeout=timeout)
        impl = open(ipath).read().splitlines() if os.path.exists(ipath) else []
        if rc != 0 or len(impl) != len(cases):
            raise ProbeCrashed(rc, out, len(impl), cases[len(impl)] if len(impl) < len(cases) else None)
        return impl

    def run_model(self, layer, cases, name="cases"):
        """Runs the extracted Coq model on the case lines."""
        cpath = os.path.join(self.work, name + ".mtxt")
        with open(cpath, "w") as f:
            for c in cases:
                f.write(c + "\n")
        mpath = os.path.join(self.work, name + ".model")
        C.run_model(layer, cpath, mpath)
        model = open(mpath).read().splitlines()
        if len(model) != len(cases):
            raise C.BuildError("model produced %d lines for %d cases" % (len(model), len(cases)))
        return model

    def differential(self, layer, probe_key, test, cases, name="cases", extra_env=None, project=None, timeout=1800):
        """Runs the implementation (probe) and the model (extracted driver) on the same case lines.
        Returns (impl_lines, model_lines, mismatches[(index, case, impl, model)]) or raises ProbeBroken."""
        impl = self.run_impl(probe_key, test, cases, name=name, extra_env=extra_env, timeout=timeout)
        model = self.run_model(layer, cases, name=name)
        mism = []
        for i, (c, a, b) in enumerate(zip(cases, impl, model)):
            pa, pb = (project(a), project(b)) if project else (a, b)
            if pa != pb:
                mism.append((i, c, a, b))
        self.evaluations += len(cases)
        self.traces_validated += len(cases)
        return impl, model, mism

    def count(self, key, n=1):
        self.distribution[key] = self.distribution.get(key, 0) + n

    def sample(self, obj):
        if len(self.samples) < 4:
            self.samples.append(obj)

    # -- verdicts ----------------------------------------------------------------------------
    def violation(self, name, replay_obj, found_input=True):
        replay_obj = dict(replay_obj)
        replay_obj.setdefault("property", self.pid)
        replay_obj.setdefault("seed", self.seed)
        replay_obj.setdefault("tier", self.tier)
        path = C.write_replay(self.pid, name, replay_obj)
        self.violations.append((path, "" if found_input else " no-failing-input-found"))

    def known_finding(self, key, case_text=""):
        """True if known_findings.json lists `key` for this property (then the case is reported as KNOWN-FINDING)."""
        for f in self.known.get("findings", []):
            if f["property"] == self.pid and f["key"] == key:
                self.known_hits.setdefault(key, f["what"])
                return True
        return False

    def finish(self):
        wall = time.time() - self.t0
        n_obl = len(self.obligations)
        n_ok = sum(1 for _, ok, _ in self.obligations if ok)
        cov = {
            "obligations": n_obl, "discharged": n_ok,
            "checker_cmd": self.checker_cmd,
            "trusted_base": self.trusted + [
                "Coq 8.16.1 kernel + vm_compute (no native_compute); extraction ExtrOcamlBasic only; OCaml driver glue (ocaml/*.ml)",
                "Go probes under /verif/probes injected by `go test -overlay` (generation on the Python side, projection of observables)",
            ],
            "obligation_list": [{"name": n, "ok": ok, **({"detail": d} if (d and not ok) else {})} for n, ok, d in self.obligations],
            "evaluations": self.evaluations,
            "distinct_nontrivial": len(self.nontrivial),
            "rule": self.rule,
            "samples": self.samples or [{"note": "no sample recorded"}],
            "traces_validated_against_impl": self.traces_validated,
            "input_distribution": self.distribution,
            "refuted_or_partial": self.refuted_or_partial,
            "known_findings_seen": sorted(self.known_hits),
            "notes": self.notes,
        }
        C.write_evidence(self.pid, self.tier, self.seed, cov, wall, len(self.violations), self.assumptions)
        for k, what in sorted(self.known_hits.items()):
            print("KNOWN-FINDING: property=%s %s [%s]" % (self.pid, what, k))
        for path, suffix in self.violations:
            print("VIOLATION property=%s replay=%s%s" % (self.pid, path, suffix))
        sys.stdout.flush()
        return 1 if self.violations else 0


class ProbeBroken(Exception):
    pass


class ProbeCrashed(Exception):
    def __init__(self, rc, out, done, case):
        super().__init__("probe exited %s after %d cases" % (rc, done))
        self.rc, self.out, self.done, self.case = rc, out, done, case


def run_property(mod, pid, tier, seed):
    chk = Check(pid, tier, seed)
    try:
        if hasattr(mod, "pre"):
            mod.pre(chk)      # regenerate coq/gen tables from /repo before the proof obligations are checked
        failed = chk.prove()
        for n, d in failed:
            C.log("obligation failed: %s\n%s" % (n, d))
        mod.run(chk, failed)
    except ProbeBroken as e:
        C.log(str(e))
        chk.obligation("probe-compiles", False, str(e)[-2000:])
        chk.violation("probe_broken", {"broken": "correspondence probe no longer compiles against /repo",
                                       "detail": str(e)[-3000:]}, found_input=False)
    except ProbeCrashed as e:
        # the implementation (or the probe around it) died on a case: that case is the observation
        C.log(str(e) + "\n" + (e.out or "")[-3000:])
        panicked = "panic:" in (e.out or "") or "fatal error:" in (e.out or "") or "signal:" in (e.out or "")
        chk.obligation("implementation-survives-the-cases", False, str(e))
        chk.violation("impl_crashed", {
            "kind": "input", "broken": "the probe process running the implementation exited %s after %d cases" % (e.rc, e.done),
            "case": e.case, "impl_output": (e.out or "")[-4000:],
            "oracle_verdict": "the implementation crashed (panic / fatal error) on this case" if panicked
                              else "the probe stopped without a Go panic in its output (timeout, kill or harness fault)",
            "cmd": "bin/check %s --replay <this file>" % pid}, found_input=bool(panicked and e.case))
    except C.BuildError as e:
        C.log(str(e))
        chk.obligation("build", False, str(e)[-2000:])
        chk.violation("build_failed", {"broken": "build", "detail": str(e)[-3000:]}, found_input=False)
    except Exception:
        tb = traceback.format_exc()
        C.log(tb)
        chk.obligation("harness", False, tb[-2000:])
        chk.violation("harness_error", {"broken": "harness", "detail": tb[-3000:]}, found_input=False)
    return chk.finish()
