"""C02 — the offset window holds the newest N commits in log order, however they arrive."""
import json
import sys

import common as C
import ringgen as R
import storage_common as SC

PROBE = "storage/TestVerifProbeStorage"
THEOREMS = "RingProofs.ring_step_abs / run_window_shape / run_newest_last / step_merge / step_no_merge / run_topn"


def run_cases(chk, lines, name):
    """implementation and model on the same lines; -> (impl, model, [index of lines whose C02 observables differ])"""
    impl, model = SC.run_both(chk, lines, name)
    chk.evaluations += len(lines)
    chk.traces_validated += len(lines)
    mism = [i for i, (l, a, b) in enumerate(zip(lines, impl, model)) if R.project(l, a) != R.project(l, b)]
    return impl, model, mism


def oracle_failures(line, impl_line):
    """the property's oracle on the implementation's reply: full oracle on ring-focused histories, shape on others"""
    o = R.Oracle(line)
    if o.applicable():
        return o.check(impl_line)
    n = int(line.split()[1])
    errs = []
    for (t, p, w) in R.windows_of(line, impl_line):
        errs += ["topic %d partition %d: %s" % (t, p, e) for e in R.shape_errors(w, n, allow_empty=True)]
    return errs


def shrink_oracle(chk, line, rounds=40):
    """delta-debugging over the operation list while the oracle still fails on the implementation's reply"""
    head, ops = SC.split_history(line)
    best = (line, None, None)
    for _ in range(rounds):
        cands = [ops[:i] + ops[i + 1:] for i in range(len(ops))]
        cands = [c for c in cands if c]
        if not cands:
            break
        lines = [SC.join_history(head, c) for c in cands]
        impl, model = SC.run_both(chk, lines, "shrink")
        hit = None
        for c, l, a, b in zip(cands, lines, impl, model):
            if oracle_failures(l, a):
                hit = (c, l, a, b)
                break
        if hit is None:
            break
        ops = hit[0]
        best = (hit[1], hit[2], hit[3])
    return best


def report_failure(chk, name, line, impl_line, model_line, fails, broken):
    small, si, sm = shrink_oracle(chk, line)
    if si is not None:
        line, impl_line, model_line = small, si, sm
        fails = oracle_failures(line, impl_line) or fails
    chk.violation(name, {"kind": "history", "probe": PROBE, "case": line, "impl_output": impl_line,
                         "model_output": model_line, "oracle_verdict": fails[:6], "broken": broken,
                         "cmd": "bin/check C02 --replay <this file>"})


def search(chk, line, impl_line, model_line, budget):
    """Search phase after a mismatch: the mismatching history, its per-partition neighbours, then a fresh focused
    batch; returns True if a failing input of the property was found (and reported)."""
    fails = oracle_failures(line, impl_line)
    if fails:
        report_failure(chk, "oracle_%s" % C.case_hash(line)[:8], line, impl_line, model_line, fails, "corr:storage.ring + C02 oracle")
        return True
    neigh = R.derive_ring_lines(line)
    head = line.split()
    n, md = int(head[1]), int(head[3])
    for _ in range(budget):
        neigh.append(R.gen_ring(chk.rng)[0])
    # same ring size / distance as the mismatching case first
    for foc in ("topn", "merge", "mixed", "dup"):
        for _ in range(budget // 8):
            l, _t = R.gen_ring(chk.rng, foc)
            f = l.split()
            f[1], f[3] = str(n), str(md if foc != "topn" else 0)
            neigh.append(" ".join(f))
    impl, model = SC.run_both(chk, neigh, "search")
    for l, a, b in zip(neigh, impl, model):
        fails = oracle_failures(l, a)
        if fails:
            report_failure(chk, "oracle_%s" % C.case_hash(l)[:8], l, a, b, fails, "corr:storage.ring + C02 oracle")
            return True
    return False


def run(chk, failed):
    thorough = chk.thorough
    n_ring = 3000 if not thorough else 60000
    n_gen = 300 if not thorough else 6000
    lines, kinds = [], []
    for ln in C.read_corpus(chk.pid):
        lines.append(ln)
        kinds.append("corpus")
    for _ in range(n_ring):
        ln, tags = R.gen_ring(chk.rng)
        lines.append(ln)
        kinds.append("ring")
        for t in tags:
            chk.count("ring:" + t)
    h_tags = {}
    for h in SC.generate(chk, ["ring", "topn", "general", "ring"], n_gen):
        h_tags[len(lines)] = set(h.tags)
        lines.append(h.line())
        kinds.append("general")
        for t in sorted(h.tags):
            chk.count("general:" + t)
    if thorough:
        for n in (1, 2, 3):
            for md in (0, 1):
                ex = R.exhaustive(n, md)
                lines += ex
                kinds += ["exhaustive"] * len(ex)
                chk.count("exhaustive:N=%d,md=%d" % (n, md), len(ex))
    chk.rule = ("histories run through the real storage handlers and through Storage.step/Ring.ring_step, compared on every "
                "group fetch per partition window as (offset, log position, timestamp | nil). Ring-focused: one partition, "
                "ring size in {1,2,3,4,5,10}, 1-14 commits (+ replays) over N+3 log positions, arrival ascending / descending / "
                "shuffled / live+backfill overlap / random, timestamps monotone, around the min-distance boundary, or random; "
                "a fetch after every commit. General: storagegen histories (ring/topn/general focus). Thorough: all sequences "
                "of length <= 6 over 5 log positions for N <= 3, min-distance 0 and 1 s. Non-trivial = a history in which at "
                "least one commit is not a plain append (insert, prepend, merge, duplicate or drop); distinct by the case line. "
                "placement:* counts classify every accepted commit of the ring-focused histories by the property's rules "
                "(Python, from the arrival list alone).")
    impl, model, mism = run_cases(chk, lines, "hist")

    # the property's oracle on every ring-focused reply of the implementation (arrival list alone; not the model)
    oracle_bad = []
    for i, (l, k, a) in enumerate(zip(lines, kinds, impl)):
        o = R.Oracle(l)
        if o.applicable():
            errs = o.check(a)
            nonplain = False
            for t in o.tags:
                chk.count("placement:" + t)
                if not (t.startswith("append/") and t.endswith("/nomerge")):
                    nonplain = True
            if nonplain:
                chk.nontrivial.add(C.case_hash(l))
            if errs:
                oracle_bad.append((i, errs))
        else:
            n = int(l.split()[1])
            errs = []
            for (t, p, w) in R.windows_of(l, a):
                errs += R.shape_errors(w, n, allow_empty=True)
            if ("out-of-order" in h_tags.get(i, ()) or "duplicate" in h_tags.get(i, ())) and \
                    any(e is not None for (_, _, w) in R.windows_of(l, a) for e in w):
                chk.nontrivial.add(C.case_hash(l))
            if errs:
                oracle_bad.append((i, errs))
    for i in (0, len(lines) // 3, len(lines) - 1):
        chk.sample({"case": lines[i][:600], "impl": impl[i][:600], "model": model[i][:600]})

    reported = set()
    for (i, errs) in oracle_bad[:3]:
        report_failure(chk, "oracle_%d" % i, lines[i], impl[i], model[i], errs, "C02 oracle on the implementation's windows")
        reported.add(i)
    if not oracle_bad:
        found = False
        hard = [i for i in mism if not R.reading_ambiguous(lines[i])]
        for i in (hard + [j for j in mism if j not in hard])[:3]:
            if search(chk, lines[i], impl[i], model[i], 400 if not thorough else 4000):
                found = True
                break
        if mism and not found and not hard:
            # Every history on which implementation and model differ contains an arrival whose outcome the property
            # text leaves open (a commit later in the log with an earlier timestamp: signed vs absolute reading of
            # "closer in time"; or two payloads for one log position), and the oracle — which accepts every outcome the
            # text allows — holds on those replies and on the searched neighbourhood.  Allowed, different output: no alarm.
            chk.count("tolerated:differs-from-model-only-where-the-text-leaves-the-outcome-open", len(mism))
            chk.notes.append("implementation and model differ on %d histories, all of them reading-ambiguous (see design_notes/C02.md, "
                             "Interpretation); the property's oracle holds on the implementation's replies; first: %s" % (len(mism), lines[mism[0]][:400]))
            C.log("C02: %d model/implementation differences confined to reading-ambiguous histories; oracle holds; tolerated" % len(mism))
        elif mism and not found:
            i = hard[0]
            small = SC.shrink(chk, lines[i], lambda a, b: a != b)
            chk.violation("corr_%d" % i, {"kind": "history", "probe": PROBE, "case": lines[i], "shrunk": small,
                                          "impl_output": impl[i], "model_output": model[i],
                                          "impl_windows": R.project(lines[i], impl[i]), "model_windows": R.project(lines[i], model[i]),
                                          "broken": "corr:storage.ring (implementation and Ring.ring_step differ; the theorems %s no longer describe the code)" % THEOREMS,
                                          "oracle_verdict": "the C02 oracle holds on this reply and on the searched neighbourhood",
                                          "cmd": "bin/check C02 --replay <this file>"}, found_input=False)
    if failed and not mism and not oracle_bad:
        # a proof obligation no longer checks: look for a failing input with a larger focused batch
        extra = [R.gen_ring(chk.rng)[0] for _ in range(3000)]
        ei, em = SC.run_both(chk, extra, "obl")
        hit = None
        for l, a, b in zip(extra, ei, em):
            errs = oracle_failures(l, a)
            if errs:
                hit = (l, a, b, errs)
                break
        if hit:
            report_failure(chk, "oracle_obl", hit[0], hit[1], hit[2], hit[3], "theorem:" + ",".join(n for n, _ in failed))
        else:
            chk.violation("obligation", {"kind": "theorem", "broken": [n for n, _ in failed],
                                         "detail": [d for _, d in failed]}, found_input=False)
    chk.assumptions += [
        "ring theorems are about Ring.ring_step from Ring.new_ring; the lift to every partition ring of every reachable storage state is C02_storage_ring_provenance / _windows_wf / _reply_windows and the state-free C02_storage_ring_of_history (StorageWindows.v)",
        "INTERPRETATION: 'closer in time than the minimum distance' is the code's signed difference new - previous < 1000*distance; a commit later in the log with an earlier timestamp than its stored predecessor replaces it at every distance >= 0, 0 included (C02_closer_is_signed_difference, witness in corpus); the oracle accepts the merged and the unmerged window there, and differences from the model confined to such histories are tolerated",
        "top-N / arrival independence: min-distance 0, timestamps non-decreasing along the log, int64 timestamp differences do not wrap (true of all non-negative timestamps, i.e. of everything the too-old test lets through with a clock later than expire-group), one commit per log position; each is shown necessary by a _refuted witness",
        "when two different commits claim one log position the first to arrive is kept (theorem C02_sorted_set_first_arrival); the property does not state this, so the Python oracle does not demand it",
        "container/ring is modelled as the list of its slots walked backwards from the partition pointer",
    ]


def replay(path):
    """bin/check C02 --replay FILE: re-runs the recorded history on the current tree (implementation, model, oracle)."""
    import framework
    obj = json.load(open(path))
    case = obj.get("case")
    if not case:
        print("replay file has no case (broken: %s)" % obj.get("broken"))
        return 2
    chk = framework.Check("C02", "quick", int(obj.get("seed", 1)))
    impl, model = SC.run_both(chk, [case], "replay")
    fails = oracle_failures(case, impl[0])
    differ = R.project(case, impl[0]) != R.project(case, model[0])
    print("case:   " + case)
    print("impl:   " + R.project(case, impl[0]))
    print("model:  " + R.project(case, model[0]))
    print("oracle: " + ("; ".join(fails) if fails else "holds"))
    sys.stdout.flush()
    return 1 if (fails or differ) else 0
