"""C11 — broker end offsets recorded are exactly what the brokers answered.
Compares, per cycle: whether metadata was re-read, the fetchMetadata flag, the blocks of every broker's OffsetRequest,
and the StorageSetBrokerOffset requests (implementation vs extracted ClusterMod.run)."""
import clustergen


def run(chk, failed):
    clustergen.run_check(chk, failed, 11)


def replay(path):
    return clustergen.replay(path, 11)
