"""C11 — broker end offsets recorded are exactly what the brokers answered.
Compares, per cycle: whether metadata was re-read, the fetchMetadata flag, the blocks of every broker's OffsetRequest,
and the StorageSetBrokerOffset requests the storage side RECEIVED (implementation vs extracted ClusterMod.run / run_s),
over kafka-versions 0.8 .. 3.6.0, with the storage side stalling (1 s timeout sends) in the sc2s scenarios and the real
sarama client + wire protocol in the sc2w scenarios.  See checks/clustergen.py, design_notes/C11.md."""
import clustergen


def run(chk, failed):
    clustergen.run_check(chk, failed, 11)


def replay(path):
    return clustergen.replay(path, 11)
