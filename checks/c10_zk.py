"""C10, Zookeeper reader half: differential of the real KafkaZkClient (fake ZookeeperClient serving a scripted /consumers
tree) against the extracted model Burrow.ZkReader.  The lead's checks/c10.py calls run_part(chk)."""
import common as C
import zkreadergen as G


def oracle(impl_line):
    """The property's oracle on the implementation's own output: a storage request (offset or owner) for a group that
    the module's own lists (real regexp, printed by the probe) reject.  Returns a description or None."""
    parts = impl_line.split(" || ")
    if len(parts) < 3 or not parts[2].startswith("A"):
        return None
    verdicts = {}
    toks = parts[2].split()[1:]
    for i in range(0, len(toks) - 3, 4):
        gid, a_set = toks[i].split("=")
        a_m, d_set, d_m = toks[i + 1], toks[i + 2], toks[i + 3]
        verdicts[gid] = ((a_set == "0") or a_m == "1") and not (d_set == "1" and d_m == "1")
    for ph in parts[0].split(" | "):
        if ph.strip() in ("-", ""):
            continue
        for r in ph.strip().split(","):
            f = r.split(":")
            if f[0] in ("O", "W") and not verdicts.get(f[1], False):
                return "request %s for group id %s which the lists reject" % (r, f[1])
    return None


def run_part(chk, n=None):
    """Runs the ZK-reader differential, reports through chk, returns a summary dict."""
    rng = chk.rng
    if n is None:
        n = 160 if not chk.thorough else 4000
    cases, tags, infos = [], [], []
    for ln in C.read_corpus(chk.pid, "zk_cases.txt"):
        cases.append(ln); tags.append(["corpus"]); infos.append({})
    for i in range(n):
        ln, tg, info = G.gen_zk(rng, i)
        cases.append(ln); tags.append(tg); infos.append(info)
    impl, model, mism = chk.differential("zkreader", "zkreader", "TestVerifProbeZkreader", cases, name="zk", timeout=1500)
    for c, tg, info, a in zip(cases, tags, infos, impl):
        chk.count("zk:cases")
        for t in tg:
            chk.count("zk:" + t)
        if info.get("rejected_with_data") and info.get("accepted_with_data"):
            chk.nontrivial.add(C.case_hash(c))
            chk.count("zk:rejected-and-accepted-group-with-offsets")
    for i in (0, len(cases) // 2):
        chk.sample({"case": cases[i][:600], "impl": impl[i][:600], "model": model[i][:600]})
    found = 0
    # the oracle runs on every implementation output, not only on disagreements
    for i, (c, a) in enumerate(zip(cases, impl)):
        why = oracle(a)
        if why:
            found += 1
            if found <= 3:
                chk.violation("zk_%d" % i, {"kind": "input", "probe": "consumer/TestVerifProbeZkreader", "case": c,
                                            "impl_output": a, "model_output": model[i], "broken": "ZkReaderProofs.zk_rejected_silent",
                                            "oracle_verdict": why, "cmd": "bin/check C10 --replay <this file>"})
    confirmed = []
    if mism and not found:
        # phases are separated by waiting for the module to go quiet; re-run disagreements once with a longer wait
        chk.notes.append("%d zk case(s) disagreed on the first run and were re-run with VERIF_QUIET_MULT=4" % len(mism))
        impl2, model2, mism2 = chk.differential("zkreader", "zkreader", "TestVerifProbeZkreader", [c for _, c, _, _ in mism],
                                                name="zk_retry", extra_env={"VERIF_QUIET_MULT": "4"}, timeout=1500)
        confirmed = [(mism[j][0], c, a, m) for (j, c, a, m) in mism2]
        for (i, c, a, m) in confirmed[:3]:
            why = oracle(a)
            chk.violation("zk_%d" % i, {"kind": "input", "probe": "consumer/TestVerifProbeZkreader", "case": c,
                                        "impl_output": a, "model_output": m, "broken": "corr:consumer.KafkaZkClient",
                                        "oracle_verdict": why or "differs from ZkReader.zk_step; no request for a rejected group observed",
                                        "cmd": "bin/check C10 --replay <this file>"}, found_input=why is not None)
    chk.assumptions += [
        "ZK reader: group/topic/owner names are interned; the four list booleans given to the model are computed by the generator and "
        "compared with what the module's compiled regexps answer (printed by the probe); TimeoutSendStorageRequest is assumed to deliver "
        "(the probe always reads App.StorageChannel); goroutine order within a phase is canonicalised by sorting",
    ]
    return {"cases": len(cases), "mismatches": len(confirmed), "oracle_failures": found}
