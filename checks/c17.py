"""C17 — served data equals ingested state; nothing outlives its deletion."""
import json
import os

import common as C
import metricsgen as G
from framework import ProbeCrashed

CHUNK = 150          # cases per probe process: the gauge registry is process-global and only grows


def pre(chk):
    """Regenerate coq/gen/JsonTags.v (struct tags of the served protocol structs; the functions that send a delete request to
    storage with the httpserver.Delete*Metrics calls they make) from /repo before the proof obligations are checked."""
    C.write_gen("JsonTags", C.run_translator("jsontags"))


def run_chunks(chk, cases, name):
    impl, model, mism = [], [], []
    for k in range(0, len(cases), CHUNK):
        part = cases[k:k + CHUNK]
        try:
            a, b, m = chk.differential("metrics", "metrics", "TestVerifProbeMetrics", part, name="%s%d" % (name, k // CHUNK),
                                       project=G.project)
        except ProbeCrashed as e:
            # the process died (a panic outside the HTTP handler): the case it died on is the observation
            chk.notes.append("probe process died after %d cases of chunk %d: %s" % (e.done, k // CHUNK, (e.out or "")[-400:]))
            raise
        impl += a
        model += b
        mism += [(k + i, c, x, y) for (i, c, x, y) in m]
    return impl, model, mism


def judge(case, impl_line):
    """(violations, known) of the property's oracle on one implementation output: lists of (rule, detail, key)."""
    viol, known = [], []
    for rule, detail, info in G.oracle(case, impl_line):
        key = G.classify(case, rule, info)
        (known if key else viol).append((rule, detail, key))
    return viol, known


def run(chk, failed):
    n = 150 if not chk.thorough else 4000
    cases, tags = [], []
    for ln in C.read_corpus(chk.pid):
        cases.append(ln)
        tags.append(["corpus"])
    for i in range(n):
        ln, tg = G.gen_case(chk.rng, 10 * (i + 2), i)
        cases.append(ln)
        tags.append(tg)
    nwarm = 10 if not chk.thorough else 120          # each costs 1.3 - 2.6 s of real time (the cache runs on the real clock)
    for i in range(nwarm):
        ln, tg = G.gen_warm_case(chk.rng, 10 * (n + i + 2), i)
        cases.append(ln)
        tags.append(tg)
    chk.rule = ("ingest histories over 1-2 clusters x 1-3 groups x 1-3 topics x 1-6 partitions (partitions never given a broker "
                "offset, partitions without commits, owner-only partitions, growing partition counts, offsets beyond 2^53), sent "
                "through App.StorageChannel of the real storage+evaluator+httpserver coordinators, with deletions through every "
                "path (topic deletion, API delete group / group-topic over HTTP, tombstone/reaper call sites, expiry by the virtual "
                "clock) and 2-7 read phases (GET /metrics + every JSON endpoint over real HTTP, both orders); non-trivial = some "
                "read phase after a deletion/expiry event shows at least 3 series of the case; distinct by the case line")
    impl, model, mism = run_chunks(chk, cases, "hist")
    mism_idx = {i for i, _, _, _ in mism}
    reported = 0
    oracle_bad = set()
    # a warm read that the machine was too slow for (probe marker TIMING) says nothing: not judged, not compared
    timing = {i for i, a in enumerate(impl) if a.endswith(" TIMING")}
    if timing:
        chk.count("warm-cache:timing-discarded", len(timing))
        mism = [m for m in mism if m[0] not in timing]
    for i, (c, tg, a) in enumerate(zip(cases, tags, impl)):
        if i in timing:
            continue
        for t in tg:
            chk.count("shape:" + t)
        d = G.parse_case(c)
        seen_del, nontrivial = False, False
        reads = [b for b in a.split(" | ") if b.startswith("M ")]
        ri = 0
        for op, _, _ in d["ops"]:
            chk.count("op:" + op)
            if op in ("DT", "DG", "GG"):
                seen_del = True
            if op in G.READS and ri < len(reads):
                m = reads[ri].split(" ; ")[0].split()
                ri += 1
                if len(m) > 1 and m[1] != "PANIC":
                    for s in m[2:]:
                        chk.count("series:" + s.split(":")[0])
                    if (seen_del or "del:expire" in tg) and int(m[1]) >= 3:
                        nontrivial = True
        if nontrivial:
            chk.nontrivial.add(C.case_hash(c))
        viol, known = judge(c, a)
        for rule, detail, key in known:
            chk.count("oracle:known:" + rule)
            if not chk.known_finding(key, c):
                viol.append((rule, detail + " [classifier %s, not listed in known_findings.json]" % key, key))
        if not viol:
            chk.count("oracle:ok")
            continue
        oracle_bad.add(i)
        chk.count("oracle:VIOLATION:" + viol[0][0])
        if reported < 4:
            reported += 1
            small = c
            if reported <= 2:
                small = shrink_case(chk, c, viol[0][0])
            chk.violation("hist_%d" % i, {"kind": "history", "probe": "core/TestVerifProbeMetrics", "case": small, "original_case": c,
                                          "impl_output": a, "model_output": model[i],
                                          "oracle_verdict": ["%s: %s" % (r, dt) for r, dt, _ in viol[:6]],
                                          "broken": "C17 oracle on the implementation's own /metrics + JSON output",
                                          "cmd": "bin/check C17 --replay <this file>"})
    # model and implementation differ although the property's own rules hold on the implementation's output
    corr = [x for x in mism if x[0] not in oracle_bad]
    if corr:
        found = search_neighbourhood(chk, corr[0][1])
        for (i, c, a, b) in corr[:3]:
            obj = {"kind": "history", "probe": "core/TestVerifProbeMetrics", "case": c, "impl_output": a, "model_output": b,
                   "first_difference": first_diff(G.project(a), G.project(b)),
                   "oracle_verdict": "the property's rules hold on this output; the model no longer describes the served data",
                   "broken": "corr:metrics.scrape/json views (MetricsFullProofs.metrics_equal_state is about a model that no longer matches)",
                   "cmd": "bin/check C17 --replay <this file>"}
            if found and i == corr[0][0]:
                obj.update({"case": found[0], "impl_output": found[1], "oracle_verdict": found[2]})
                chk.violation("corr_%d" % i, obj)
            else:
                chk.violation("corr_%d" % i, obj, found_input=False)
    if failed and not oracle_bad and not mism:
        found = search_neighbourhood(chk, cases[len(cases) // 2])
        obj = {"kind": "theorem", "broken": [nm for nm, _ in failed], "detail": [dt[-1500:] for _, dt in failed][:2]}
        try:
            gen = open(os.path.join(C.COQ, "gen", "JsonTags.v")).read()
            obj["table:delete-sites (gen/JsonTags.v, regenerated from the tree)"] = [ln.strip() for ln in gen.splitlines() if "mkSite" in ln]
        except OSError:
            pass
        if found:
            obj.update({"case": found[0], "impl_output": found[1], "oracle_verdict": found[2]})
            chk.violation("obligation", obj)
        else:
            chk.violation("obligation", obj, found_input=False)
    elif failed:
        chk.notes.append("failed obligations: %s" % [nm for nm, _ in failed])
    for i in (0, len(cases) // 2, len(cases) - 1):
        chk.sample({"case": cases[i][:400], "impl": impl[i][:500], "model": model[i][:500]})
    chk.assumptions += [
        "reads are quiescent: no ingest runs concurrently with a read phase (storage workers = 1, every fetch is a barrier); concurrency is C08's subject",
        "the evaluator's result cache (goswarm, real clock) is part of the model (Metrics.cstatus, sequential behaviour): cold read phases restart the evaluator, warm ones (RW/RJW, expire-cache = 1 s, real sleeps) read through it; the concurrent behaviour of the cache is C05's subject",
        "the tombstone / reaper / topic-deletion call sites are replayed by the probe as the pair (storage request, httpserver.Delete*Metrics) they consist of",
        "gauge values are float64: model integers are compared after the same conversion (exact below 2^53)",
        "group allow/deny lists are not configured (C10's subject)",
    ]
    chk.trusted += ["translator /verif/translator/jsontags (go/ast walk) for gen/JsonTags.v",
                    "prometheus client_golang v1.20.5 GaugeVec.With/Set/Delete/DeletePartialMatch and the text exposition as modelled "
                    "(Metrics.reg_set / vec_delete / vec_delete_partial); net/http; encoding/json"]


def first_diff(a, b):
    sa, sb = a.replace(" | ", " ; ").split(" ; "), b.replace(" | ", " ; ").split(" ; ")
    for x, y in zip(sa, sb):
        if x != y:
            return {"impl": x[:400], "model": y[:400]}
    return {"impl_segments": len(sa), "model_segments": len(sb)}


def run_one(chk, line, name):
    try:
        return chk.run_impl("metrics", "TestVerifProbeMetrics", [line], name=name)[0]
    except ProbeCrashed as e:
        return "PROCESS-DIED " + (e.out or "")[-200:].replace("\n", " ")


def shrink_case(chk, case, rule):
    def fails(line):
        out = run_one(chk, line, "shrink")
        v, k = judge(line, out)
        return any(r == rule for r, _, _ in v) or any(r == rule and not chk.known_finding(key) for r, _, key in k)
    try:
        return G.shrink(case, fails)
    except Exception as e:                                     # the shrinker is a convenience, never a reason to fail
        chk.notes.append("shrink failed: %r" % (e,))
        return case


def search_neighbourhood(chk, case):
    """A bigger focused batch around a suspicious case: fresh histories with the same configuration."""
    d = G.parse_case(case)
    batch = []
    for j in range(60):
        ln, _ = G.gen_case(chk.rng, 5000 + 10 * j, j)
        batch.append(ln)
    try:
        outs = chk.run_impl("metrics", "TestVerifProbeMetrics", batch, name="focus")
    except ProbeCrashed:
        return None
    for ln, out in zip(batch, outs):
        v, k = judge(ln, out)
        v += [(r, dt, key) for r, dt, key in k if not chk.known_finding(key)]
        if v:
            return (ln, out, ["%s: %s" % (r, dt) for r, dt, _ in v[:6]])
    return None


def replay(path):
    import framework
    obj = json.load(open(path))
    chk = framework.Check("C17", "quick", int(obj.get("seed", 1)))
    pre(chk)
    C.build_coq()
    case = obj["case"]
    impl, model, mism = chk.differential("metrics", "metrics", "TestVerifProbeMetrics", [case], name="replay", project=G.project)
    print("impl :", impl[0])
    print("model:", model[0])
    v, k = judge(case, impl[0])
    print("oracle:", v or "ok", "| known:", k or "none")
    print("stored oracle verdict:", obj.get("oracle_verdict"))
