"""C15 — only the Zookeeper lock holder evaluates; pacing by the shortest notifier interval."""
import common as C
import evalloopgen as G

KEY_F8 = "C15:expiry-before-wait"
# observations (findings/C15.json "observations"): behaviour of accepted but absurd / degenerate configurations and of a
# reply in flight at the expiry.  The faithful model exhibits each of them and the implementation is compared with it; they
# are reported as KNOWN-FINDING only if known_findings.json lists the key, and never fail the check.
OBS_LATE = "C15:late-reply-notified"
# (C15:interval-duration-overflow and C15:refresh-int63n-panic were observations until /repo 38fa1ff made Configure refuse
# the intervals that caused them; such configurations now print CFGPANIC on both sides.)


def observe(chk, case, impl):
    """Counts the observations a cfg case exhibits on the implementation (see OBS_*)."""
    c = G.parse_cfg(case)
    toks = impl.split()[2:]
    seen = []
    for k, ev in enumerate(c["events"]):
        if k < len(toks) and ev[0] == "af" and toks[k].startswith("AF:") and toks[k].endswith(":1"):
            if any(e[0] == "x" for e in c["events"][:k]) and not any(e[0] == "k" for e in c["events"][max(i for i, e in enumerate(c["events"][:k]) if e[0] == "x"):k]):
                seen.append(OBS_LATE)
    seen = sorted(set(seen))
    for key in seen:
        chk.count("observation:" + key)
        chk.known_finding(key, case)
    return seen


def seq_of(model_line):
    return model_line.split(" || ")[0]


def classify_expiry_before_wait(case, impl, model_line):
    """Classifier of the known finding F8: the schedule delivers the expiry between the lock grant and the loop's
    ZookeeperExpired.Wait() (action okx), the implementation behaves exactly as the interleaved machine (sync.Cond
    semantics: the Broadcast is lost) and first leaves the sequential machine at or after that step, in the unsafe
    direction (it evaluates where the sequential machine does not)."""
    if not case.startswith("loop ") or " || " not in model_line:
        return False
    seq, inter = model_line.split(" || ")
    steps = case.split()[2:]
    f8_steps = [i for i, s in enumerate(steps) if "okx" in s.split("+")]
    if not f8_steps or impl != inter:
        return False
    a, b = impl.split(), seq.split()
    if len(a) != len(b):
        return False
    diff = [i for i in range(len(a)) if a[i] != b[i]]
    if not diff or diff[0] < f8_steps[0]:
        return False
    return a[diff[0]].endswith("1") and b[diff[0]].endswith("0")


def unsafe_direction(impl, seq):
    """The property's oracle on the implementation's observations of a fault sequence: requests observed in a phase in
    which the lock holder machine does not evaluate."""
    a, b = impl.split(), seq.split()
    return any(x.endswith("1") and y.endswith("0") for x, y in zip(a, b))


def pace_oracle(case, impl):
    """Pacing oracle evaluated on the implementation's own output: two evaluations of one group entry at clock values
    less than minInterval apart ("more often than the interval"; exactly the interval apart is not more often -- the
    model's strict '>' is then a disagreement without a failing input; a clock that went backwards in between is no
    frequency either)."""
    f = case.split()
    mi = int(f[1])
    ng = int(f[2])
    i = 3 + 2 * ng
    nev = int(f[i]); i += 1
    last = {}
    outs = impl.split()
    for k in range(nev):
        if f[i] == "t":
            now = int(f[i + 1]); i += 2
            if k < len(outs) and outs[k].startswith("T:"):
                for g in [x for x in outs[k][2:].split(",") if x.isdigit()]:
                    if g in last and 0 <= now - last[g] < mi * G.NS:
                        return "group %s evaluated at %d and %d (minInterval %d s)" % (g, last[g], now, mi)
                    last[g] = now
        else:
            n = int(f[i + 2])
            present = set(f[i + 3 + 2 * j] for j in range(n))
            i += 3 + 2 * n
            for g in list(last):
                if g not in present:
                    del last[g]
    return None


def _ids(tok, tag):
    """'T:1,3' -> ['1','3'] (with multiplicity); anything malformed -> None"""
    body = tok[len(tag):].replace("BAD", "")
    return [x for x in body.split(",") if x]


def cfg_oracle(case, impl):
    """C15's own oracle on the implementation's observations of a configured loop, reference value computed from the
    CONFIGURATION alone (G.shortest_configured): (a) no request while the scripted lock is not held, (b) no group entry
    requested twice within the shortest configured interval, (c) the pace is that interval and not a longer one: with the
    lock held, a group whose last evaluation is more than the shortest configured interval old is requested.
    Returns a description of the first violation or None."""
    c = G.parse_cfg(case)
    exp = G.shortest_configured(c["mods"])
    if exp is None:
        return None
    if not G.accepted(c["mods"]) and (exp < 1 or impl.split()[:1] == ["CFGPANIC"]):
        # a configuration Configure refuses (CFGPANIC); should an implementation run a loop with an interval beyond
        # 9223372036 s all the same, the pacing clause below applies to what it does
        return None
    toks = impl.split()
    if len(toks) < 2 or not toks[0].startswith("MI:"):
        return None
    outs = toks[2:]
    le = dict(c["groups"])           # entry -> LastEval as far as the oracle can know it
    last = {}                        # entry -> clock of its latest observed evaluation
    listed = set(g for g, _ in c["groups"])   # the groups the storage subsystem lists (answered refreshes only)
    gate = False
    dead = False                     # a failed Unlock(): the old lock was never released, nothing may be issued again
    for k, ev in enumerate(c["events"]):
        if k >= len(outs):
            break
        if outs[k] == "PANIC" or outs[k].startswith("CRASH:"):
            break                    # the process is gone: nothing is issued any more
        o = outs[k].lstrip("!")
        kind = ev[0]
        if kind in ("a", "af"):
            continue                 # the evaluator's answers: nothing the property's oracle depends on
        if kind == "ue":
            if not o.startswith("UE"):
                return None
            gate = False
            dead = True
            if "+" in o:
                return ("group(s) %s requested after the session expiry although lock.Unlock() FAILED: the old lock was not "
                        "released and Lock() was not called again" % ",".join(_ids("+" + o.split("+", 1)[1], "+")))
            continue
        if dead and kind in ("k", "t"):
            ids = _ids(o, o[:2]) if o[:2] in ("K:", "T:") else []
            if ids:
                return ("group(s) %s requested at clock %d after a failed lock.Unlock(): no successful Unlock and Lock since "
                        "the session expiry" % (",".join(ids), ev[1]))
            continue
        if kind in ("k", "t"):
            now = ev[1]
            if kind == "k":
                if not o.startswith("K:") or outs[k].startswith("!"):
                    return None      # the lock was not granted as scripted: outside this oracle
                gate = True
            elif not o.startswith("T:"):
                return None
            ids = _ids(o, o[:2])
            if ids and not gate:
                return "group(s) %s requested at clock %d while the lock is not held" % (",".join(ids), now)
            seen = set()
            for g in ids:
                if g not in listed:
                    return "group %s requested at clock %d although the storage subsystem does not list it" % (g, now)
                if g in seen and exp > 0:
                    return "group %s requested more than once in the iteration(s) at clock %d (shortest configured interval %d s)" % (g, now, exp)
                seen.add(g)
                if g in last and 0 <= now - last[g] < exp * G.NS:
                    return ("group %s evaluated at %d and again at %d: %d ns apart, shortest configured interval %d s"
                            % (g, last[g], now, now - last[g], exp))
            if gate:
                for g, l in le.items():
                    if now - l > exp * G.NS and g not in seen:
                        return ("group %s (last evaluation %d) not requested at clock %d although more than the shortest configured "
                                "interval (%d s) has passed: the loop is not paced by the shortest configured interval" % (g, l, now, exp))
            for g in seen:
                last[g] = now
                le[g] = now
        elif kind in ("x", "e"):
            if not o.startswith("X" if kind == "x" else "E"):
                return None
            if kind == "x":
                gate = False
            if "+" in o and not gate:
                return ("group(s) %s requested after %s while the lock is not held"
                        % (",".join(_ids("+" + o.split("+", 1)[1], "+")), "the session expiry" if kind == "x" else "a failed lock.Lock()"))
        elif kind in ("r", "rs", "rp"):
            if not o.startswith("R:"):
                return None
            body = o[2:].split("+")[0].replace("RANGEBAD", "")
            ents = dict(x.split("=") for x in body.split(",") if "=" in x)
            if kind in ("r", "rp"):
                # an answered refresh: the listed groups are the known groups (new entries get the LastEval the
                # implementation reports); a refresh that was not answered changes nothing the oracle knows
                listed = set(g for g, _ in ev[2])
                le = {g: int(ents[g]) if g in ents else le.get(g, ev[1]) for g in listed}
                for g in list(last):
                    if g not in listed:
                        del last[g]
            if "+" in o:
                ids = _ids("+" + o.split("+", 1)[1], "+")
                for g in ids:
                    if not gate:
                        return "group %s requested during the list refresh while the lock is not held" % g
                    if g in last and 0 <= ev[1] - last[g] < exp * G.NS:
                        return ("group %s evaluated at %d and again at %d (during the list refresh), shortest configured interval %d s"
                                % (g, last[g], ev[1], exp))
                    last[g] = ev[1]
                    le[g] = ev[1]
    return None


def zk_oracle(case, impl):
    """'after its Zookeeper session is reported expired': every StateExpired session event must be published (flag down
    and Broadcast), and nothing but a session event may report the connection back."""
    f = case.split()
    n = int(f[2])
    outs = impl.split()
    conn = f[1] == "1"
    for k in range(min(n, len(outs))):
        typ, st = f[3 + 2 * k], f[4 + 2 * k]
        o = outs[k]
        if typ == "s" and st == "exp" and o != "0b":
            return "session event %d (StateExpired) was not published: connected=%s broadcast=%s" % (k, o[0], o[1] == "b")
        if o[0] == "1" and not conn and not (typ == "s" and st in ("con", "has", "ro")):
            return "event %d (%s %s) reported the connection back" % (k, typ, st)
        conn = o[0] == "1"
    return None


def cfg_mi(impl):
    t = impl.split()
    if t and t[0].startswith("MI:"):
        try:
            return int(t[0][3:])
        except ValueError:
            return None
    return None


def run(chk, failed):
    rng = chk.rng
    n_loop = 28 if not chk.thorough else 400
    n_f8 = 3 if not chk.thorough else 40
    n_pace = 45 if not chk.thorough else 1500
    n_cfg = 30 if not chk.thorough else 600
    n_cfg_only = 90 if not chk.thorough else 4000
    n_iso = 5 if not chk.thorough else 60
    n_r3 = 6 if not chk.thorough else 80
    n_wrap = 5 if not chk.thorough else 40
    cases, tags = [], []
    for ln in C.read_corpus(chk.pid):
        cases.append(ln); tags.append(["corpus"])
    for ln in G.FIXED_F8:
        cases.append(ln); tags.append(["expiry-before-wait", "fixed"])
    for i in range(n_loop):
        ln, tg, _ = G.gen_loop(rng, i)
        cases.append(ln); tags.append(tg)
    for i in range(n_f8):
        ln, tg, _ = G.gen_loop(rng, i, f8=True)
        cases.append(ln); tags.append(tg)
    for i in range(n_pace):
        ln, tg = G.gen_pace(rng, i)
        cases.append(ln); tags.append(tg)
    for ln in G.FIXED_CFG:
        cases.append(ln); tags.append(["fixed"] + G.cfg_tags(G.parse_cfg(ln)["mods"]))
    for i in range(n_cfg):
        ln, tg = G.gen_cfg(rng, i)
        cases.append(ln); tags.append(tg)
    for i in range(n_cfg_only):
        ln, tg = G.gen_cfg(rng, i, scenario=False)
        cases.append(ln); tags.append(tg)
    # isolated scenarios: a failing Unlock() (HEAD panics), a storage request that is not taken within its 1 s timeout;
    # one child process each, run in parallel with the rest
    for ln in G.FIXED_ISO:
        cases.append(ln); tags.append(["fixed", "unlock-error" if " ue " in ln else "storage-stall"])
    # round 3: evaluator replies through the real response path (child processes), re-locks inside the interval
    for ln in G.FIXED_R3:
        cases.append(ln); tags.append(["fixed", "replies" if " a " in ln else "relock-inside-interval"])
    for i in range(n_r3):
        ln, tg = G.gen_cfg_replies(rng, i)
        cases.append(ln); tags.append(tg)
        ln, tg = G.gen_cfg_relock(rng, i)
        cases.append(ln); tags.append(tg)
    # round 4 (audit D): beyond the bound of the pacing theorems, the Int63n panic, a late reply
    for ln in G.FIXED_R4:
        cases.append(ln); tags.append(["fixed", "round4"])
    for i in range(n_wrap):
        ln, tg = G.gen_cfg_wrap(rng, i)
        cases.append(ln); tags.append(tg)
    for i in range(n_iso):
        ln, tg = G.gen_cfg_unlock_error(rng, i)
        cases.append(ln); tags.append(tg)
        ln, tg = G.gen_cfg_storage_stall(rng, i)
        cases.append(ln); tags.append(tg)
    chk.rule = ("loop: scripted fault sequences against a started Coordinator (1-5 expiry/reconnect cycles, lock errors, lost "
                "broadcasts, connection flaps, back-to-back relock); non-trivial = at least one expiry delivered while evaluating "
                "and at least one later re-acquisition or a non-evaluating phase observed; pace: sendEvaluatorRequests / "
                "processConsumerList under the virtual clock with the clock placed -1/0/+1 ns around LastEval+minInterval; "
                "non-trivial = at least one tick with a request and one tick/group without; cfg: the real Configure on a generated "
                "viper configuration (0-4 modules null/http/email, interval / send-interval / threshold present or absent, via "
                "viper.Set or a TOML document), then the loop it configured, Started, under the scripted lock and the virtual clock "
                "(minInterval, doEvaluations and the group list all produced by the real code), ticks at shortest+0/+1 ns; "
                "isolated cfg scenarios in child processes: lock.Unlock() failing after an expiry (first / later cycle), a group "
                "refresh whose storage request (cluster list / consumer list) is not taken within the 1 s timeout, evaluator "
                "requests answered through the real reply path (incident opens / closes while the ticks go on); re-locks that "
                "complete well inside the shortest interval; intervals beyond 9223372036 s (Duration wrap), the Int63n panic of a "
                "refresh (interval 0 / product wraps), replies held across an expiry; "
                "non-trivial = at least two modules, or a scenario with a request and a tick without; distinct by the case line")
    impl, model, mism = chk.differential("evalloop", "evalloop", "TestVerifProbeEvalloop", cases, name="evalloop",
                                         project=seq_of, timeout=1500)
    for c, a in zip(cases, impl):
        if c.startswith("cfg ") and a == "CFGPANIC":
            chk.count("cfg:refused-by-Configure")
    obs = {}
    for c, a in zip(cases, impl):
        if c.startswith("cfg "):
            for key in observe(chk, c, a):
                obs[key] = obs.get(key, 0) + 1
    if obs:
        chk.notes.append("observations exhibited by the implementation and by the model alike (findings/C15.json): %s"
                         % ", ".join("%s x%d" % kv for kv in sorted(obs.items())))
    for c, tg, a, m in zip(cases, tags, impl, model):
        kind = c.split()[0]
        chk.count("kind:" + kind)
        for t in tg:
            chk.count(kind + ":" + t)
        if kind == "loop":
            obs = a.split()
            if any(o.endswith("1") for o in obs) and any(o.endswith("0") for o in obs) and "x" in c.replace("okx", ""):
                chk.nontrivial.add(C.case_hash(c))
            chk.count("loop:steps", len(obs))
        elif kind == "cfg":
            outs = a.split()[2:]
            if (len(G.parse_cfg(c)["mods"]) >= 2 or
                    (any(len(o) > 2 and o[0] in "TK" for o in outs) and any(o == "T:" for o in outs))):
                chk.nontrivial.add(C.case_hash(c))
        else:
            outs = [o for o in a.split() if o.startswith("T:")]
            if any(len(o) > 2 for o in outs) and (any(len(o) == 2 for o in outs) or len(outs) > 1):
                chk.nontrivial.add(C.case_hash(c))
    for i in (0, len(cases) // 2, len(cases) - 1):
        chk.sample({"case": cases[i], "impl": impl[i], "model": model[i]})

    # --- the session publisher: zookeeper.Coordinator.mainLoop against EvalLoop.zk_session ---------------------
    zcases = []
    for i in range(40 if not chk.thorough else 800):
        ln, tg = G.gen_zk(rng, i)
        zcases.append(ln)
        chk.count("kind:zk")
        for t in tg:
            chk.count("zk:" + t)
    zimpl, zmodel, zmism = chk.differential("evalloop", "evalloopzk", "TestVerifProbeEvalloopzk", zcases, name="evalloopzk", timeout=600)
    for c, a in zip(zcases, zimpl):
        if "b" in a and "1" in a:
            chk.nontrivial.add(C.case_hash(c))
    for (i, c, a, m) in zmism[:2]:
        why = zk_oracle(c, a)
        chk.violation("zk_%d" % i, {"kind": "session-events", "probe": "zookeeper/TestVerifProbeEvalloopzk", "case": c,
                                    "impl_output": a, "model_output": m, "broken": "corr:zookeeper.Coordinator.mainLoop (EvalLoop.zk_session)",
                                    "oracle_verdict": why or "differs from EvalLoop.zk_session; every expiry was still reported",
                                    "cmd": "bin/check C15 --replay <this file>"}, found_input=why is not None)

    # --- disagreements -------------------------------------------------------------------------------------------
    retry = []
    for (i, c, a, m) in mism:
        if classify_expiry_before_wait(c, a, m):
            chk.count("loop:classified-expiry-before-wait")
            if chk.known_finding(KEY_F8, c):
                continue
            chk.violation("f8_%d" % i, {"kind": "schedule", "probe": "notifier/TestVerifProbeEvalloop", "case": c,
                                        "impl_output": a, "model_output": m, "broken": "EvalLoopProofs.eval_only_with_lock",
                                        "oracle_verdict": "requests keep arriving after an expiry delivered between the lock grant and "
                                                          "ZookeeperExpired.Wait() (lost wake-up); classifier %s has no entry in "
                                                          "known_findings.json" % KEY_F8,
                                        "cmd": "bin/check C15 --replay <this file>"})
        else:
            retry.append((i, c, a, m))
    # A fault sequence is timing-observed (settle 260 ms, window 60 ms); a disagreement is re-run once, alone and with
    # three times the grace, before it counts.
    badmi = [(i, c, a, m) for (i, c, a, m) in retry if c.startswith("loop ") and a.startswith("BADMI:")]
    loops = [(i, c, a, m) for (i, c, a, m) in retry if c.startswith("loop ") and not a.startswith("BADMI:")]
    cfgs = [(i, c, a, m) for (i, c, a, m) in retry if c.startswith("cfg ")]
    confirmed = [(i, c, a, m) for (i, c, a, m) in retry if c.startswith("pace ")]
    report_cfg(chk, cfgs, badmi)
    if confirmed:
        # a tick is observed through a short real-time window (8 ms + quiescence): re-run once with three times the window
        confirmed = confirmed[:12]
        chk.notes.append("%d pace case(s) disagreed on the first run and were re-run with VERIF_GRACE_MULT=3" % len(confirmed))
        impl2, model2, mism2 = chk.differential("evalloop", "evalloop", "TestVerifProbeEvalloop", [c for _, c, _, _ in confirmed],
                                                name="evalloop_pace_retry", project=seq_of,
                                                extra_env={"VERIF_GRACE_MULT": "3"}, timeout=900)
        confirmed = [(confirmed[j][0], c, a, m) for (j, c, a, m) in mism2]
    if loops:
        chk.notes.append("%d fault sequence(s) disagreed on the first run and were re-run with VERIF_GRACE_MULT=3" % len(loops))
        impl2, model2, mism2 = chk.differential("evalloop", "evalloop", "TestVerifProbeEvalloop", [c for _, c, _, _ in loops],
                                                name="evalloop_retry", project=seq_of,
                                                extra_env={"VERIF_GRACE_MULT": "3"}, timeout=1500)
        for (j, c, a, m) in mism2:
            if classify_expiry_before_wait(c, a, m) and chk.known_finding(KEY_F8, c):
                continue
            confirmed.append((loops[j][0], c, a, m))
    for (i, c, a, m) in confirmed[:3]:
        if c.startswith("loop "):
            bad = unsafe_direction(a, seq_of(m))
            chk.violation("loop_%d" % i, {"kind": "schedule", "probe": "notifier/TestVerifProbeEvalloop", "case": c,
                                          "impl_output": a, "model_output": m, "broken": "corr:notifier.manageEvalLoop",
                                          "oracle_verdict": ("requests observed in a phase where the lock holder machine does not evaluate"
                                                             if bad else "phases differ from EvalLoop.step_s, no evaluation outside the lock observed"),
                                          "cmd": "bin/check C15 --replay <this file>"}, found_input=bad)
        else:
            why = pace_oracle(c, a)
            chk.violation("pace_%d" % i, {"kind": "input", "probe": "notifier/TestVerifProbeEvalloop", "case": c,
                                          "impl_output": a, "model_output": m, "broken": "corr:notifier.sendEvaluatorRequests",
                                          "oracle_verdict": why or "differs from EvalLoop.tick/refresh_groups, pacing oracle not violated",
                                          "cmd": "bin/check C15 --replay <this file>"}, found_input=why is not None)
    if failed and not mism:
        chk.violation("obligation", {"kind": "theorem", "broken": [n for n, _ in failed],
                                     "detail": [d for _, d in failed]}, found_input=False)
    chk.assumptions += [
        "lock.Lock() granting the lock and the expiry Broadcast are environment events; the fake lock's okx action places the "
        "Broadcast inside Lock() just before it returns, which no observer but the loop goroutine's program counter can tell "
        "from a Broadcast just after it returns",
        "phases are observed through requests arriving on App.EvaluatorChannel (settle 260 ms, window 60 ms; loop polls 1 ms / sleeps 100 ms); "
        "the unsynchronised read of doEvaluations and the hand-over between two request goroutines are below the model's step granularity",
        "Configure accepts 1 <= interval <= 9223372036 s for every module (EvalLoop.configure, /repo 38fa1ff): accepted "
        "configurations are inside the range where the model's arithmetic is exact, refused ones are compared on the refusal; viper's key lookup / cast (explicit value, else registered default) is "
        "EvalLoop.viper_get; processConsumerList's random draw is checked to be in "
        "[0, minInterval*1000) ms and then pinned to the scripted value; lock.Unlock() failing (panic) is modelled but not replayed",
    ]


def report_cfg(chk, cfgs, badmi):
    """Disagreements on configured loops.  The case itself first (the property's oracle on the implementation's output);
    otherwise the three-event scenario that separates every wrong pace from the configured one, run on the same
    configuration; otherwise the correspondence that no longer holds, without a failing input."""
    if not cfgs and not badmi:
        return
    if cfgs:
        # scenarios are observed through short real-time windows (a tick: 8 ms + quiescence); a disagreement is re-run
        # once with three times the windows before it counts (the first dozen are enough for the verdict)
        cfgs = sorted(cfgs, key=lambda x: 0 if cfg_oracle(x[1], x[2]) else 1)[:12]   # stable: oracle violations first
        chk.notes.append("%d configured-loop case(s) disagreed on the first run and were re-run with VERIF_GRACE_MULT=3" % len(cfgs))
        impl2, model2, mism2 = chk.differential("evalloop", "evalloop", "TestVerifProbeEvalloop", [c for _, c, _, _ in cfgs],
                                                name="evalloop_cfg_retry", project=seq_of,
                                                extra_env={"VERIF_GRACE_MULT": "3"}, timeout=900)
        cfgs = [(cfgs[j][0], c, a, m) for (j, c, a, m) in mism2]
        if not cfgs and not badmi:
            return
    reported = 0
    pending = []
    for (i, c, a, m) in cfgs:
        why = cfg_oracle(c, a)
        if why:
            if reported < 3:
                chk.violation("cfg_%d" % i, cfg_replay(c, a, m, why))
            reported += 1
        else:
            pending.append((i, c, a, m))
    if badmi:
        # the loop scenarios configure one null module with interval 1
        i, c, a, m = badmi[0]
        pending.append((i, G.LOOP_CFG, "MI:%s (as configured for the loop scenarios)" % a[6:], "MI:1"))
        chk.notes.append("%d loop scenario(s) not run: Configure did not produce minInterval 1 from interval = 1" % len(badmi))
    if reported >= 3 or not pending:
        return
    seen, focus = set(), []
    for (i, c, a, m) in pending:
        fc = G.focus_case(c)
        key = fc or c
        if key in seen:
            continue
        seen.add(key)
        focus.append((i, c, a, m, fc))
    focus = focus[:6]
    runnable = [fc for (_, _, _, _, fc) in focus if fc]
    res = {}
    if runnable:
        impl2, model2, _ = chk.differential("evalloop", "evalloop", "TestVerifProbeEvalloop", runnable, name="evalloop_focus",
                                            project=seq_of, timeout=600)
        res = {fc: (a2, m2) for fc, a2, m2 in zip(runnable, impl2, model2)}
    for (i, c, a, m, fc) in focus:
        if reported >= 3:
            break
        why = cfg_oracle(fc, res[fc][0]) if fc in res else None
        if why:
            r = cfg_replay(fc, res[fc][0], res[fc][1], why)
            r["found_from"] = {"case": c, "impl_output": a, "model_output": m}
            chk.violation("cfg_%d" % i, r)
        else:
            exp = G.shortest_configured(G.parse_cfg(c)["mods"])
            chk.violation("cfg_%d" % i, cfg_replay(c, a, m, "differs from EvalLoop.configure_min / step_s (shortest configured interval: %s); "
                                                             "the property's oracle is not violated on this case nor on the focused scenario"
                                                   % ("none, no module" if exp is None else "%d s" % exp)), found_input=False)
        reported += 1


def cfg_replay(c, a, m, why):
    p = G.parse_cfg(c)
    return {"kind": "configuration+schedule", "probe": "notifier/TestVerifProbeEvalloop", "case": c,
            "configuration": {"source": p["src"],
                              "modules": {"m%s" % x["id"]: {"class-name": x["class"], "interval": x["iv"], "send-interval": x["sv"],
                                                            "threshold": x["th"]} for x in p["mods"]}},
            "shortest_configured_interval_s": G.shortest_configured(p["mods"]),
            "implementation_minInterval": cfg_mi(a),
            "impl_output": a, "model_output": m, "broken": "corr:notifier.Coordinator.Configure+sendEvaluatorRequests (EvalLoop.configure_min, step_s)",
            "oracle_verdict": why, "cmd": "bin/check C15 --replay <this file>"}


def replay(path):
    import json
    import framework
    obj = json.load(open(path))
    chk = framework.Check("C15", "quick", int(obj.get("seed", 1)))
    case = obj["case"]
    if case.startswith("zk "):
        impl, model, mism = chk.differential("evalloop", "evalloopzk", "TestVerifProbeEvalloopzk", [case], name="replay")
        print("case :", case)
        print("impl :", impl[0])
        print("model:", model[0])
        print("oracle:", zk_oracle(case, impl[0]))
        return 1 if mism else 0
    impl, model, mism = chk.differential("evalloop", "evalloop", "TestVerifProbeEvalloop", [case], name="replay", project=seq_of)
    print("case :", case)
    print("impl :", impl[0])
    print("model:", model[0])
    if mism and classify_expiry_before_wait(case, impl[0], model[0]):
        print("classified:", KEY_F8)
    if case.startswith("cfg "):
        print("shortest configured interval:", G.shortest_configured(G.parse_cfg(case)["mods"]))
        print("oracle:", cfg_oracle(case, impl[0]))
        return 1 if (mism or cfg_oracle(case, impl[0])) else 0
    if case.startswith("pace "):
        print("oracle:", pace_oracle(case, impl[0]))
    return 1 if mism else 0
