"""C15 — only the Zookeeper lock holder evaluates; pacing by the shortest notifier interval."""
import common as C
import evalloopgen as G

KEY_F8 = "C15:expiry-before-wait"


def seq_of(model_line):
    return model_line.split(" || ")[0]


def classify_expiry_before_wait(case, impl, model_line):
    """Classifier of the known finding F8: the schedule delivers the expiry between the lock grant and the loop's
    ZookeeperExpired.Wait() (action okx), the implementation behaves exactly as the interleaved machine (sync.Cond
    semantics: the Broadcast is lost) and first leaves the sequential machine at or after that step, in the unsafe
    direction (it evaluates where the sequential machine does not)."""
    if not case.startswith("loop ") or " || " not in model_line:
        return False
    seq, inter = model_line.split(" || ")
    steps = case.split()[2:]
    f8_steps = [i for i, s in enumerate(steps) if "okx" in s.split("+")]
    if not f8_steps or impl != inter:
        return False
    a, b = impl.split(), seq.split()
    if len(a) != len(b):
        return False
    diff = [i for i in range(len(a)) if a[i] != b[i]]
    if not diff or diff[0] < f8_steps[0]:
        return False
    return a[diff[0]].endswith("1") and b[diff[0]].endswith("0")


def unsafe_direction(impl, seq):
    """The property's oracle on the implementation's observations of a fault sequence: requests observed in a phase in
    which the lock holder machine does not evaluate."""
    a, b = impl.split(), seq.split()
    return any(x.endswith("1") and y.endswith("0") for x, y in zip(a, b))


def pace_oracle(case, impl):
    """Pacing oracle evaluated on the implementation's own output: two evaluations of one group entry at clock values
    not more than minInterval apart."""
    f = case.split()
    mi = int(f[1])
    ng = int(f[2])
    i = 3 + 2 * ng
    nev = int(f[i]); i += 1
    last = {}
    outs = impl.split()
    for k in range(nev):
        if f[i] == "t":
            now = int(f[i + 1]); i += 2
            if k < len(outs) and outs[k].startswith("T:"):
                for g in [x for x in outs[k][2:].split(",") if x.isdigit()]:
                    if g in last and now - last[g] <= mi * G.NS:
                        return "group %s evaluated at %d and %d (minInterval %d s)" % (g, last[g], now, mi)
                    last[g] = now
        else:
            n = int(f[i + 2])
            present = set(f[i + 3 + 2 * j] for j in range(n))
            i += 3 + 2 * n
            for g in list(last):
                if g not in present:
                    del last[g]
    return None


def run(chk, failed):
    rng = chk.rng
    n_loop = 28 if not chk.thorough else 400
    n_f8 = 3 if not chk.thorough else 40
    n_pace = 45 if not chk.thorough else 1500
    cases, tags = [], []
    for ln in C.read_corpus(chk.pid):
        cases.append(ln); tags.append(["corpus"])
    for ln in G.FIXED_F8:
        cases.append(ln); tags.append(["expiry-before-wait", "fixed"])
    for i in range(n_loop):
        ln, tg, _ = G.gen_loop(rng, i)
        cases.append(ln); tags.append(tg)
    for i in range(n_f8):
        ln, tg, _ = G.gen_loop(rng, i, f8=True)
        cases.append(ln); tags.append(tg)
    for i in range(n_pace):
        ln, tg = G.gen_pace(rng, i)
        cases.append(ln); tags.append(tg)
    chk.rule = ("loop: scripted fault sequences against a started Coordinator (1-5 expiry/reconnect cycles, lock errors, lost "
                "broadcasts, connection flaps, back-to-back relock); non-trivial = at least one expiry delivered while evaluating "
                "and at least one later re-acquisition or a non-evaluating phase observed; pace: sendEvaluatorRequests / "
                "processConsumerList under the virtual clock with the clock placed -1/0/+1 ns around LastEval+minInterval; "
                "non-trivial = at least one tick with a request and one tick/group without; distinct by the case line")
    impl, model, mism = chk.differential("evalloop", "evalloop", "TestVerifProbeEvalloop", cases, name="evalloop",
                                         project=seq_of, timeout=1500)
    for c, tg, a, m in zip(cases, tags, impl, model):
        kind = c.split()[0]
        chk.count("kind:" + kind)
        for t in tg:
            chk.count(kind + ":" + t)
        if kind == "loop":
            obs = a.split()
            if any(o.endswith("1") for o in obs) and any(o.endswith("0") for o in obs) and "x" in c.replace("okx", ""):
                chk.nontrivial.add(C.case_hash(c))
            chk.count("loop:steps", len(obs))
        else:
            outs = [o for o in a.split() if o.startswith("T:")]
            if any(len(o) > 2 for o in outs) and (any(len(o) == 2 for o in outs) or len(outs) > 1):
                chk.nontrivial.add(C.case_hash(c))
    for i in (0, len(cases) // 2, len(cases) - 1):
        chk.sample({"case": cases[i], "impl": impl[i], "model": model[i]})

    # --- disagreements -------------------------------------------------------------------------------------------
    retry = []
    for (i, c, a, m) in mism:
        if classify_expiry_before_wait(c, a, m):
            chk.count("loop:classified-expiry-before-wait")
            if chk.known_finding(KEY_F8, c):
                continue
            chk.violation("f8_%d" % i, {"kind": "schedule", "probe": "notifier/TestVerifProbeEvalloop", "case": c,
                                        "impl_output": a, "model_output": m, "broken": "EvalLoopProofs.eval_only_with_lock",
                                        "oracle_verdict": "requests keep arriving after an expiry delivered between the lock grant and "
                                                          "ZookeeperExpired.Wait() (lost wake-up); classifier %s has no entry in "
                                                          "known_findings.json" % KEY_F8,
                                        "cmd": "bin/check C15 --replay <this file>"})
        else:
            retry.append((i, c, a, m))
    # A fault sequence is timing-observed (settle 260 ms, window 60 ms); a disagreement is re-run once, alone and with
    # three times the grace, before it counts.
    loops = [(i, c, a, m) for (i, c, a, m) in retry if c.startswith("loop ")]
    confirmed = [(i, c, a, m) for (i, c, a, m) in retry if not c.startswith("loop ")]
    if loops:
        chk.notes.append("%d fault sequence(s) disagreed on the first run and were re-run with VERIF_GRACE_MULT=3" % len(loops))
        impl2, model2, mism2 = chk.differential("evalloop", "evalloop", "TestVerifProbeEvalloop", [c for _, c, _, _ in loops],
                                                name="evalloop_retry", project=seq_of,
                                                extra_env={"VERIF_GRACE_MULT": "3"}, timeout=1500)
        for (j, c, a, m) in mism2:
            if classify_expiry_before_wait(c, a, m) and chk.known_finding(KEY_F8, c):
                continue
            confirmed.append((loops[j][0], c, a, m))
    for (i, c, a, m) in confirmed[:5]:
        if c.startswith("loop "):
            bad = unsafe_direction(a, seq_of(m))
            chk.violation("loop_%d" % i, {"kind": "schedule", "probe": "notifier/TestVerifProbeEvalloop", "case": c,
                                          "impl_output": a, "model_output": m, "broken": "corr:notifier.manageEvalLoop",
                                          "oracle_verdict": ("requests observed in a phase where the lock holder machine does not evaluate"
                                                             if bad else "phases differ from EvalLoop.step_s, no evaluation outside the lock observed"),
                                          "cmd": "bin/check C15 --replay <this file>"}, found_input=bad)
        else:
            why = pace_oracle(c, a)
            chk.violation("pace_%d" % i, {"kind": "input", "probe": "notifier/TestVerifProbeEvalloop", "case": c,
                                          "impl_output": a, "model_output": m, "broken": "corr:notifier.sendEvaluatorRequests",
                                          "oracle_verdict": why or "differs from EvalLoop.tick/refresh_groups, pacing oracle not violated",
                                          "cmd": "bin/check C15 --replay <this file>"}, found_input=why is not None)
    if failed and not mism:
        chk.violation("obligation", {"kind": "theorem", "broken": [n for n, _ in failed],
                                     "detail": [d for _, d in failed]}, found_input=False)
    chk.assumptions += [
        "lock.Lock() granting the lock and the expiry Broadcast are environment events; the fake lock's okx action places the "
        "Broadcast inside Lock() just before it returns, which no observer but the loop goroutine's program counter can tell "
        "from a Broadcast just after it returns",
        "phases are observed through requests arriving on App.EvaluatorChannel (settle 260 ms, window 60 ms; loop polls 1 ms / sleeps 100 ms); "
        "the unsynchronised read of doEvaluations and the hand-over between two request goroutines are below the model's step granularity",
        "0 <= minInterval*10^9 < 2^63 (no time.Duration overflow); processConsumerList's random draw is checked to be in "
        "[0, minInterval*1000) ms and then pinned to the scripted value; lock.Unlock() failing (panic) is modelled but not replayed",
    ]


def replay(path):
    import json
    import framework
    obj = json.load(open(path))
    chk = framework.Check("C15", "quick", int(obj.get("seed", 1)))
    case = obj["case"]
    impl, model, mism = chk.differential("evalloop", "evalloop", "TestVerifProbeEvalloop", [case], name="replay", project=seq_of)
    print("case :", case)
    print("impl :", impl[0])
    print("model:", model[0])
    if mism and classify_expiry_before_wait(case, impl[0], model[0]):
        print("classified:", KEY_F8)
    return 1 if mism else 0
