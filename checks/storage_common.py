"""Shared driver for the storage-layer properties (C01, C02, C09, C10): runs generated histories on the real
handlers and on the extracted Coq model, compares per-property projections, shrinks failing histories."""
import re

import common as C
import storagegen

OPLEN = {"B": 7, "C": 9, "O": 8, "X": 4, "DT": 4, "DG": 5, "FC": 2, "FG": 3, "FT": 3, "FX": 4, "FO": 4, "FU": 4}
FETCH = {"FC", "FG", "FT", "FX", "FO", "FU"}


def split_history(line):
    f = line.split()
    assert f[0] == "hist"
    i = 4
    ncl = int(f[i]); i += 1 + ncl
    i += 1  # mode
    nrej = int(f[i]); i += 1 + nrej
    nops = int(f[i]); i += 1
    head = f[:i - 1]
    ops = []
    while i < len(f):
        n = OPLEN[f[i]]
        ops.append(f[i:i + n])
        i += n
    assert len(ops) == nops, (len(ops), nops)
    return head, ops


def join_history(head, ops):
    return " ".join(head + [str(len(ops))] + [" ".join(o) for o in ops])


def parse_consumer(seg):
    """'K n {t np {owner client lag nb b.. no entries..}}' -> {topic: [part dict]}"""
    f = seg.split()
    assert f[0] == "K", seg
    i = 2
    out = {}
    for _ in range(int(f[1])):
        t, npart = int(f[i]), int(f[i + 1]); i += 2
        parts = []
        for _ in range(npart):
            owner, client, lag, nb = int(f[i]), int(f[i + 1]), int(f[i + 2]), int(f[i + 3]); i += 4
            brokers = [int(x) for x in f[i:i + nb]]; i += nb
            no = int(f[i]); i += 1
            offs = []
            for e in f[i:i + no]:
                if e == "nil":
                    offs.append(None)
                else:
                    a, b, c, d = e.strip("()").split(",")
                    offs.append((int(a), int(b), int(c), None if d == "n" else int(d)))
            i += no
            parts.append(dict(owner=owner, client=client, lag=lag, brokers=brokers, offsets=offs))
        out[t] = parts
    return out


def segments(outline):
    return outline.split(" | ") if outline else []


def run_both(chk, lines, name):
    impl = chk.run_impl("storage", "TestVerifProbeStorage", lines, name=name)
    model = chk.run_model("storage", lines, name=name)
    return impl, model


def shrink(chk, line, differs, rounds=40, with_line=False):
    """Delta-debugging over the operation list: removes operations while `differs(impl_line, model_line)` holds
    (`differs(case_line, impl_line, model_line)` when with_line is set, for oracles that need the history)."""
    head, ops = split_history(line)
    for _ in range(rounds):
        cands = []
        for i in range(len(ops)):
            cands.append(ops[:i] + ops[i + 1:])
        if not cands:
            break
        lines = [join_history(head, c) for c in cands]
        impl, model = run_both(chk, lines, "shrink")
        hit = None
        for c, ln, a, b in zip(cands, lines, impl, model):
            if (differs(ln, a, b) if with_line else differs(a, b)):
                hit = c
                break
        if hit is None:
            break
        ops = hit
    return join_history(head, ops)


def generate(chk, focuses, n):
    hs = []
    for i in range(n):
        hs.append(storagegen.gen_general(chk.rng, focuses[i % len(focuses)]))
    return hs
