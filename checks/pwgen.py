"""Generators, table parsers and oracles for C18 (no HTTP response reveals a configured password).

Everything that judges a response lives here, so that the oracle is the property itself:
  * leak_forms / find_tokens : does a response (status line is not text; headers + body) contain a password token, raw
    or JSON-escaped / base64 / hex / URL-escaped / HTML-escaped (also as the basic-auth pair user:token)?
  * canon_response           : what is compared between the run under cfg and the run under cfg' (same configuration,
    different password tokens): status, all headers, body -- bodies byte for byte, except that JSON arrays of strings
    are sorted (Burrow fills module lists by ranging over a Go map) and that of /metrics only the burrow_* series are
    compared (the Go runtime collectors change from call to call).
  * Viper / explain          : a small model of viper's lookup used by the taint run: every configuration leaf is a
    unique token; a token seen in a response must be covered by a row of that handler in the regenerated read table
    (coq/gen/ReadSets.v) -- this validates that the translator's table is complete for the code that ran.
"""
import base64
import html
import json
import os
import re
import urllib.parse

import common as C

PW_SECTIONS = ("sasl", "notifier")


# ---------------------------------------------------------------------------------------------------
# regenerated tables (coq/gen/*.v) -> python
# ---------------------------------------------------------------------------------------------------

def _coq_unquote(s):
    return s.replace('""', '"')


_STR = r'"((?:[^"]|"")*)"'


def parse_pat(txt):
    pat = []
    for m in re.finditer(r'(PFix|PParam|PUnknown) ' + _STR + r'|(PValOf|PKeyOf) (\d+)', txt):
        if m.group(1):
            pat.append((m.group(1), _coq_unquote(m.group(2))))
        else:
            pat.append((m.group(3), int(m.group(4))))
    return pat


def parse_reads(text):
    """rows of ReadSets.table: dict(id, handler, kind, pat, call, feeds, pos)"""
    rows = []
    for m in re.finditer(r'RRow (\d+) ' + _STR + r' (K\w+) \[(.*?)\] ' + _STR + ' ' + _STR + ' ' + _STR + r';?\s*$', text, flags=re.M):
        rows.append(dict(id=int(m.group(1)), handler=_coq_unquote(m.group(2)), kind=m.group(3), pat=parse_pat(m.group(4)),
                         call=_coq_unquote(m.group(5)), feeds=_coq_unquote(m.group(6)), pos=_coq_unquote(m.group(7))))
    return rows


def parse_walked(text):
    m = re.search(r"Definition walked : list string := \[(.*?)\]\.", text, flags=re.S)
    return [_coq_unquote(x) for x in re.findall(_STR, m.group(1))] if m else []


def parse_routes(text):
    """rows of RouteTable.table: (method, pattern, handler); unknown registrations as (None, pos, why)"""
    rts = []
    for m in re.finditer(r'RtRow ' + _STR + ' ' + _STR + r' \[.*?\] ' + _STR + ' ' + _STR, text):
        rts.append((_coq_unquote(m.group(1)), _coq_unquote(m.group(2)), _coq_unquote(m.group(3))))
    unknown = [(_coq_unquote(m.group(1)), _coq_unquote(m.group(2))) for m in re.finditer(r'RtUnknown ' + _STR + ' ' + _STR, text)]
    return rts, unknown


def parse_feeds(text):
    out = []
    for m in re.finditer(r'Feed ' + _STR + ' ' + _STR + ' ' + _STR + r' (F\w+) ' + _STR + ' ' + _STR, text):
        out.append(dict(handler=_coq_unquote(m.group(1)), struct=_coq_unquote(m.group(2)), field=_coq_unquote(m.group(3)),
                        kind=m.group(4), detail=_coq_unquote(m.group(5)), pos=_coq_unquote(m.group(6))))
    return out


def gen_text(name):
    return open(os.path.join(C.COQ, "gen", name + ".v")).read()


def pat_text(pat):
    out = []
    for k, v in pat:
        out.append({"PFix": "%s", "PParam": "<param %s>", "PValOf": "<value of row %s>", "PKeyOf": "<key of row %s>",
                    "PUnknown": "<UNKNOWN: %s>"}[k] % (v,))
    return "".join(out) or "(whole configuration)"


def harvest_literals(repo):
    """String literals of the httpserver sources: names and parameter values a handler might compare against."""
    lits = set()
    d = os.path.join(repo, "core", "internal", "httpserver")
    for fn in sorted(os.listdir(d)) if os.path.isdir(d) else []:
        if not fn.endswith(".go") or fn.endswith("_test.go"):
            continue
        src = open(os.path.join(d, fn), errors="replace").read()
        for m in re.finditer(r'"((?:[^"\\\n]|\\.)*)"', src):
            s = m.group(1)
            if "\\" in s or not s or len(s) > 40:
                continue
            lits.add(s)
            for part in re.split(r"[./ :]", s):
                if part and len(part) <= 24:
                    lits.add(part)
    return sorted(lits)


def harvest_paths(repo, known):
    """String literals of the httpserver sources that look like URL patterns and are not in the route table (a
    registration the translator could not name, e.g. an inline closure): tried with every method, handler unknown."""
    out = []
    d = os.path.join(repo, "core", "internal", "httpserver")
    for fn in sorted(os.listdir(d)) if os.path.isdir(d) else []:
        if not fn.endswith(".go") or fn.endswith("_test.go"):
            continue
        src = open(os.path.join(d, fn), errors="replace").read()
        for m in re.finditer(r'"(/[^"\\\s]*)"', src):
            pat = m.group(1)
            if pat not in known and pat not in [p for _, p, _ in out] and len(pat) < 120:
                for method in ("GET", "POST", "DELETE"):
                    out.append((method, pat, "?"))
    return out


# ---------------------------------------------------------------------------------------------------
# configurations
# ---------------------------------------------------------------------------------------------------

class PW:
    """a password leaf (index into the token list of the run).  related / related2: the password is not a random token but
    a value RELATED to other settings (equal to the user name, a piece of it, another field of the module, the profile
    name, 1-3 characters ...) -- under cfg (related) and, sometimes, under cfg' as well (related2)"""

    def __init__(self, idx, numeric=False):
        self.idx, self.numeric = idx, numeric
        self.related = self.related2 = self.kind = None


REL_P = [0.25]   # share of passwords that are related to other configured values (raised by the focused search)


def _pieces(rng, s):
    """(kind, value) candidates cut out of the string s"""
    out = []
    if len(s) >= 2:
        k = rng.randrange(1, len(s))
        out += [("prefix", s[:k]), ("suffix", s[k:])]
        i = rng.randrange(0, len(s) - 1)
        j = rng.randrange(i + 1, len(s) + 1)
        out.append(("inside", s[i:j]))
    return out


def related_values(rng, root, module, path):
    """[(kind, value)]: passwords that are related to what the configuration shows elsewhere"""
    out = []
    user = next((v for k, v in module.items() if k.lower() == "username" and isinstance(v, str) and v), None)
    if user:
        out.append(("equals-username", user))
        out += [(k + "-of-username", v) for k, v in _pieces(rng, user)]
        out.append(("username-plus", user + rng.choice(["1", "x", "!", ":"])))
        out.append(("short", rng.choice(user)))
    fields = [(k, v) for k, v in module.items() if isinstance(v, str) and v and k.lower() not in ("username", "class-name")]
    if fields:
        k, v = rng.choice(fields)
        out.append(("equals-field:" + k.lower(), v))
        host = re.sub(r"^\w+://", "", v).split("/")[0]
        if host and host != v:
            out.append(("part-of-field:" + k.lower(), host))
        out += [("%s-of-field:%s" % (kk, k.lower()), vv) for kk, vv in _pieces(rng, v)[:1]]
    if len(path) >= 2:
        out.append(("equals-name", path[-2]))
    cids = [p.get("client-id") for p in (root.get("client-profile") or {}).values() if isinstance(p, dict) and isinstance(p.get("client-id"), str)]
    if cids and path and path[0] == "sasl":
        out.append(("equals-client-id", rng.choice(cids)))
    out.append(("short", "".join(rng.choice(ALNUM) for _ in range(rng.randrange(1, 4)))))
    out.append(("short", rng.choice(["a", "1", "e", "o:", "ab", "pw", "***", "x"])))
    return [(k, v) for k, v in out if v]


ALNUM = "abcdefghijklmnopqrstuvwxyzABCDEFGHIJKLMNOPQRSTUVWXYZ0123456789"
SPECIALS = ['<', '>', '&', '"', "'", '\\', '/', ' ', '+', '%', '=', ':', '@', '#', '?', 'é', 'ß', '€', '{', '}', '$', '\t']


def make_token(rng, numeric=False, plain=False):
    if numeric:
        return rng.randrange(10 ** 11, 10 ** 12)
    core = "".join(rng.choice(ALNUM) for _ in range(rng.randrange(14, 22)))
    if plain or rng.random() < 0.45:
        return "pw" + core
    # specials in the middle: JSON / URL / HTML escaping then changes the bytes
    k = rng.randrange(1, 4)
    parts = list(core)
    for _ in range(k):
        parts.insert(rng.randrange(3, len(parts) - 3), rng.choice(SPECIALS))
    return "".join(parts)


BASE_NAMES = ["alpha", "local", "kafka1", "my-cluster", "Prod", "west_2", "b", "test", "default", "x1", "Q", "node-7"]
KEYWORD_NAMES = ["password", "username", "extras", "class-name", "sasl", "notifier", "tls", "client-profile", "name", "Password",
                 "servers", "cluster", "headers", "module"]


def _case_variants(rng, s):
    return rng.choice([s, s.lower(), s.upper(), s.capitalize(), s.swapcase()])


LIT_P = [0.10]   # share of module names drawn from the string literals of the sources (raised by the focused search)


def gen_name(rng, lits, used, dotted_ok=True):
    for _ in range(50):
        r = rng.random()
        if lits and rng.random() < LIT_P[0]:
            n = rng.choice(lits)
        elif r < 0.55:
            n = rng.choice(BASE_NAMES)
        elif r < 0.70:
            n = rng.choice(KEYWORD_NAMES)
        elif r < 0.86 and dotted_ok:
            n = rng.choice(BASE_NAMES) + "." + rng.choice(["password", "x", "username", "Prod", "class-name"])
        else:
            n = rng.choice(BASE_NAMES) + str(rng.randrange(100))
        if rng.random() < 0.25:
            n = _case_variants(rng, n)
        if not n or n.lower() in used or "/" in n or " " in n:
            continue
        used.add(n.lower())
        return n
    n = "n%d" % len(used)
    used.add(n)
    return n


def pw_key(rng):
    return rng.choice(["password", "password", "password", "Password", "PASSWORD", "passWord"])


CHILD_NAMES = ["east", "sub", "b", "Prod", "password", "username", "class-name", "extras", "sasl", "tls", "client-profile", "Password"]
FAMILY_SECTIONS = ("sasl", "tls", "client-profile", "cluster", "consumer", "notifier", "storage")


def entry_names(sec, depth=3):
    """dotted names of the entries of a section and of the entries nested inside them: x, x.y, x.y.z (viper reads
    [sasl.prod.east] as the profile "prod.east" INSIDE the profile "prod")"""
    out = []

    def walk(d, prefix, k):
        for name, v in d.items():
            if isinstance(v, dict):
                out.append(prefix + name)
                if k > 1:
                    walk(v, prefix + name + ".", k - 1)
    if isinstance(sec, dict):
        walk(sec, "", depth)
    return out


def is_pw_path(path):
    """mirror of ConfigRead.is_pw: sasl.<s1>...<sk>.password (profiles nest), notifier.<n>.password"""
    return len(path) >= 3 and path[-1] == "password" and (path[0] == "sasl" or (path[0] == "notifier" and len(path) == 3))


def gen_config(rng, lits, rich=False, dotted=True, nested=False):
    """A Burrow configuration (nested dicts; password leaves are PW objects) and its summary.
    nested=True adds NESTED-NAME FAMILIES to every section that holds or references profiles/modules: entries x, x.y
    (and x.y.z) where x.y is configured inside x -- the parent explicit or only implied by its child, child names also
    key words (password, username, class-name ...) -- and makes client profiles, clusters and consumers point at the
    parent and at each child."""
    pwn = [0]

    def pw():
        pwn[0] += 1
        return PW(pwn[0] - 1, numeric=rng.random() < 0.12)

    cfg = {}
    info = {"classes": [], "dotted": 0}
    if rich or rng.random() < 0.8:
        g = {"pidfile": "/var/run/burrow.pid", "stdout-logfile": "burrow.out"}
        if rng.random() < 0.5:
            g["access-control-allow-origin"] = rng.choice(["*", "https://example.org"])
        cfg["general"] = g
    if rich or rng.random() < 0.6:
        cfg["logging"] = {"filename": "logs/burrow.log", "level": rng.choice(["info", "debug"]), "maxsize": 100, "maxbackups": 30,
                          "maxage": 10, "use-localtime": False, "use-compression": True}
    if rich or rng.random() < 0.7:
        cfg["zookeeper"] = {"servers": ["zk1:2181", "zk2:2181"], "timeout": 6, "root-path": "/burrow"}
    if rng.random() < 0.6:
        cfg["httpserver"] = {gen_name(rng, [], set(), dotted_ok=False): {"address": rng.choice([":0", "127.0.0.1:0"]), "timeout": 300}
                             for _ in range(rng.randrange(1, 3))}
    cfg["storage"] = {gen_name(rng, lits, set(), dotted): {"class-name": "inmemory", "intervals": rng.randrange(1, 20), "min-distance": 1,
                                                            "expire-group": 604800, "group-allowlist": ".*", "workers": 2}
                      for _ in range(rng.randrange(1, 3))}
    cfg["evaluator"] = {gen_name(rng, lits, set(), dotted): {"class-name": "caching", "expire-cache": rng.randrange(0, 30)}}

    used = set()
    tls = {}
    for _ in range(rng.randrange(0, 3) if not rich else 2):
        tls[gen_name(rng, lits, used, dotted)] = {"certfile": "/etc/cert.pem", "keyfile": "/etc/key.pem", "cafile": "/etc/ca.pem",
                                                  "noverify": rng.random() < 0.5}
    used = set()
    sasl = {}
    for _ in range(rng.randrange(0, 4) if not rich else rng.randrange(2, 4)):
        p = {"username": rng.choice(["kafka", "burrow", "svc-" + str(rng.randrange(99))]), pw_key(rng): pw(),
             "handshake-first": rng.random() < 0.5}
        if rng.random() < 0.4:
            p["mechanism"] = rng.choice(["SCRAM-SHA-256", "SCRAM-SHA-512"])
        if rng.random() < 0.1:
            del p["username"]
        sasl[gen_name(rng, lits, used, dotted)] = p
    used = set()
    profiles = {}
    for _ in range(rng.randrange(0, 4) if not rich else rng.randrange(2, 4)):
        p = {"client-id": "burrow-" + str(rng.randrange(1000)), "kafka-version": rng.choice(["0.8", "2.0.0", "1.1.0"])}
        if tls and rng.random() < 0.6:
            p["tls"] = rng.choice(list(tls))
        if sasl and (rich or rng.random() < 0.75):
            s = rng.choice(list(sasl))
            r = rng.random()
            if r < 0.15:
                s = _case_variants(rng, s)
            elif r < 0.22:
                s = s + "." + rng.choice(["password", "Password", "username"])   # indirection into the profile
            p["sasl"] = s
        elif rng.random() < 0.15:
            p["sasl"] = rng.choice(["missing", "password", ""])
        profiles[gen_name(rng, lits, used, dotted)] = p
    if tls:
        cfg["tls"] = tls
    if sasl:
        cfg["sasl"] = sasl
    if profiles:
        cfg["client-profile"] = profiles

    def profile_ref():
        if profiles and (rich or rng.random() < 0.8):
            p = rng.choice(list(profiles))
            return _case_variants(rng, p) if rng.random() < 0.15 else p
        return rng.choice(["", "nope"]) if rng.random() < 0.3 else None

    used = set()
    clusters = {}
    for _ in range(rng.randrange(1, 4)):
        c = {"class-name": "kafka", "servers": ["k1:9092", "k2:9092"], "topic-refresh": 120, "offset-refresh": 30}
        r = profile_ref()
        if r is not None:
            c["client-profile"] = r
        clusters[gen_name(rng, lits, used, dotted)] = c
    cfg["cluster"] = clusters
    used = set()
    consumers = {}
    for _ in range(rng.randrange(0, 4) if not rich else rng.randrange(1, 3)):
        c = {"class-name": rng.choice(["kafka", "kafka_zk"]), "cluster": rng.choice(list(clusters)), "servers": ["k1:9092"],
             "group-allowlist": "^ok", "offsets-topic": "__consumer_offsets", "start-latest": rng.random() < 0.5,
             "zookeeper-path": "/kafka", "zookeeper-timeout": 30}
        r = profile_ref()
        if r is not None:
            c["client-profile"] = r
        consumers[gen_name(rng, lits, used, dotted)] = c
    if consumers:
        cfg["consumer"] = consumers
    used = set()
    notifiers = {}
    classes = ["http", "email", "slack", "null"]
    k = rng.randrange(0, 5) if not rich else 4
    for i in range(k):
        cl = classes[i] if rich else rng.choice(classes)
        n = {"class-name": cl, "group-allowlist": ".*", "interval": rng.randrange(10, 600), "threshold": rng.randrange(1, 4),
             "template-open": "conf/default-%s-post.tmpl" % cl, "template-close": "conf/default-%s-delete.tmpl" % cl,
             "send-close": rng.random() < 0.5}
        if rng.random() < 0.7:
            n["extras"] = {"api_key": "REDACTED-%d" % rng.randrange(999), "app": "burrow", "tier": rng.choice(["STG", "PROD"])}
        if cl == "http":
            n.update({"url-open": "http://example.org/open", "url-close": "http://example.org/close", "method-open": "POST",
                      "method-close": "DELETE", "timeout": 5, "keepalive": 30})
            if rich or rng.random() < 0.8:
                n["username"] = "hook" + str(rng.randrange(99))
                n[pw_key(rng)] = pw()
            if rng.random() < 0.3:
                n["headers"] = {"X-Env": "prod"}
        elif cl == "email":
            n.update({"server": "smtp.example.org", "port": 587, "from": "burrow@example.org", "to": "ops@example.org",
                      "auth-type": rng.choice(["plain", "crammd5", ""])})
            if rich or rng.random() < 0.85:
                n["username"] = "mailer" + str(rng.randrange(99))
                n[pw_key(rng)] = pw()
        elif cl == "slack":
            n.update({"channel": "#alerts", "username": "burrow", "icon-emoji": ":burrow:", "timeout": 5, "keepalive": 30})
            if rng.random() < 0.3:
                n[pw_key(rng)] = pw()          # not used by the class, but configured
        else:
            if rng.random() < 0.3:
                n[pw_key(rng)] = pw()
        info["classes"].append(cl)
        notifiers[gen_name(rng, lits, used, dotted)] = n
    if notifiers:
        cfg["notifier"] = notifiers
    info["families"] = 0
    if nested:
        def mk_sasl():
            return {"username": "fam-" + str(rng.randrange(999)), pw_key(rng): pw(), "handshake-first": rng.random() < 0.5,
                    "mechanism": "SCRAM-SHA-512"}

        def mk_tls():
            return {"certfile": "/etc/f-cert.pem", "keyfile": "/etc/f-key.pem", "cafile": "/etc/f-ca.pem", "noverify": True}

        def mk_profile(sasl_ref=None, tls_ref=None):
            p = {"client-id": "burrow-f" + str(rng.randrange(1000)), "kafka-version": "2.0.0"}
            sn, tn = entry_names(cfg.get("sasl", {})), entry_names(cfg.get("tls", {}))
            if sasl_ref or sn:
                p["sasl"] = sasl_ref or rng.choice(sn)
            if tls_ref or (tn and rng.random() < 0.5):
                p["tls"] = tls_ref or rng.choice(tn)
            return p

        def mk_cluster(ref=None):
            c = {"class-name": "kafka", "servers": ["kf:9092"], "topic-refresh": 60, "offset-refresh": 10}
            pn = entry_names(cfg.get("client-profile", {}))
            if ref or pn:
                c["client-profile"] = ref or rng.choice(pn)
            return c

        def mk_consumer(ref=None):
            c = {"class-name": "kafka", "cluster": rng.choice(list(cfg["cluster"])), "servers": ["kf:9092"], "group-allowlist": ".*",
                 "offsets-topic": "__consumer_offsets", "start-latest": True}
            pn = entry_names(cfg.get("client-profile", {}))
            if ref or pn:
                c["client-profile"] = ref or rng.choice(pn)
            return c

        def mk_notifier():
            cl = rng.choice(["http", "email", "slack", "null"])
            n = {"class-name": cl, "group-allowlist": ".*", "interval": 30, "threshold": 2, "template-open": "o.tmpl",
                 "template-close": "c.tmpl", "send-close": True, "username": "fam" + str(rng.randrange(99)), pw_key(rng): pw(),
                 "server": "smtp.f.example", "port": 25, "from": "f@example.org", "to": "g@example.org", "url-open": "http://f/open"}
            if rng.random() < 0.5:
                n["extras"] = {"k": "v" + str(rng.randrange(99))}
            return n

        def mk_storage():
            return {"class-name": "inmemory", "intervals": 7, "min-distance": 2, "expire-group": 99, "group-allowlist": "fam.*"}
        makers = {"sasl": mk_sasl, "tls": mk_tls, "client-profile": mk_profile, "cluster": mk_cluster, "consumer": mk_consumer,
                  "notifier": mk_notifier, "storage": mk_storage}

        def family(section):
            sec = cfg.setdefault(section, {})
            explicit = bool(sec) and rng.random() < 0.55
            if explicit:
                x = rng.choice([k for k in sec if isinstance(sec[k], dict)])
            else:
                x = gen_name(rng, [], {k.lower() for k in sec}, dotted_ok=False)
                # the parent exists only because its child does (half of the time), or is a full entry of its own
                sec[x] = {} if rng.random() < 0.5 else makers[section]()
            names, cur, cname = [x], sec[x], x
            for _ in range(1 + (rng.random() < 0.4)):
                taken = {k.lower() for k in cur}
                y = rng.choice([c for c in CHILD_NAMES if c.lower() not in taken])
                cur[y] = makers[section]()
                cname = cname + "." + y
                names.append(cname)
                cur = cur[y]
            info["families"] += 1
            return names
        # profiles first (so that the referencing entries can point at every member), then the modules
        fam = {sec: [] for sec in FAMILY_SECTIONS}
        for sec in ("sasl", "tls"):
            for _ in range(1 + (rng.random() < 0.3)):
                fam[sec] += family(sec)
        # every member of a SASL/TLS family is referenced by a client profile of its own ...
        profs = cfg.setdefault("client-profile", {})
        made = []
        for i, f in enumerate(fam["sasl"]):
            t = fam["tls"][i % len(fam["tls"])] if fam["tls"] and rng.random() < 0.6 else None
            nm = "fp%d" % i
            profs[nm] = mk_profile(sasl_ref=f if rng.random() < 0.85 else _case_variants(rng, f), tls_ref=t)
            made.append(nm)
        for i, f in enumerate(fam["tls"]):
            nm = "ft%d" % i
            profs[nm] = mk_profile(tls_ref=f)
            made.append(nm)
        fam["client-profile"] += family("client-profile")
        # ... and every such client profile, and every member of a client-profile family, by a cluster AND a consumer
        for i, pn in enumerate(made + fam["client-profile"]):
            cfg["cluster"]["fc%d" % i] = mk_cluster(ref=pn)
            cfg.setdefault("consumer", {})["fk%d" % i] = mk_consumer(ref=pn)
        for sec in ("cluster", "consumer", "notifier", "storage"):
            if rng.random() < 0.8:
                fam[sec] += family(sec)
        info["family_names"] = {k: v for k, v in fam.items() if v}
    # a PW leaf counts as a password only where the property says so (is_pw_path): something called "password" inside a
    # notifier's extras, or inside a nested non-module such as notifier.<n>.<child>, is an ordinary setting
    live = []

    def settle(t, path):
        for k in list(t):
            v, pth = t[k], path + (k.lower(),)
            if isinstance(v, dict):
                settle(v, pth)
            elif isinstance(v, PW):
                if is_pw_path(pth):
                    v.idx = len(live)
                    live.append(v)
                    if rng.random() < REL_P[0]:
                        cands = related_values(rng, cfg, t, pth)
                        v.kind, v.related = rng.choice(cands)
                        v.numeric = False
                        if rng.random() < 0.3:
                            other = [c for c in cands if c[1] != v.related]
                            if other:
                                v.related2 = rng.choice(other)[1]
                else:
                    t[k] = "not-a-password-%d" % rng.randrange(10 ** 6)
    settle(cfg, ())
    info["n_pw"] = len(live)
    info["related"] = [p.kind for p in live if p.related is not None]
    info["sections"] = {k: (len(v) if isinstance(v, dict) else 1) for k, v in cfg.items()}
    info["dotted"] = sum(1 for sec in cfg.values() if isinstance(sec, dict) for k in sec if "." in k)
    return cfg, info


def materialise(cfg, tokens):
    if isinstance(cfg, PW):
        return tokens[cfg.idx]
    if isinstance(cfg, dict):
        return {k: materialise(v, tokens) for k, v in cfg.items()}
    if isinstance(cfg, list):
        return [materialise(v, tokens) for v in cfg]
    return cfg


def gen_tokens(rng, cfg):
    """two token lists (same types) for the password leaves of cfg"""
    leaves = []

    def walk(t):
        if isinstance(t, PW):
            leaves.append(t)
        elif isinstance(t, dict):
            for v in t.values():
                walk(v)
    walk(cfg)
    leaves.sort(key=lambda p: p.idx)
    a = [p.related if p.related is not None else make_token(rng, p.numeric) for p in leaves]
    b = [p.related2 if p.related2 is not None else make_token(rng, p.numeric) for p in leaves]
    return a, b


def pw_leaf_keys(cfg, keys=()):
    """[(key path with the configuration's own spelling, PW)]"""
    out = []
    if isinstance(cfg, dict):
        for k, v in cfg.items():
            out += pw_leaf_keys(v, keys + (k,))
    elif isinstance(cfg, PW):
        out.append((list(keys), cfg))
    return out


def set_at(cfg, keys, value):
    """copy of the (materialised) configuration with the leaf at keys replaced"""
    if not keys:
        return value
    out = dict(cfg)
    out[keys[0]] = set_at(cfg[keys[0]], keys[1:], value)
    return out


def public_text(cfg):
    """everything the configuration holds apart from its passwords (keys and values, lower-cased): a password that occurs
    in here cannot be searched for in a response -- a hit would be explained by the legitimately shown setting"""
    def strip(t):
        if isinstance(t, PW):
            return ""
        if isinstance(t, dict):
            return {k: strip(v) for k, v in t.items()}
        return t
    return json.dumps(strip(cfg), ensure_ascii=False).lower()


def searchable(token, text):
    s = str(token)
    return len(s.encode("utf-8")) >= 8 and s.lower() not in text


def password_paths(cfg, path=()):
    """(path, leaf) of every leaf at a password path: sasl.<name>.password with a possibly dotted (nested) profile name,
    notifier.<module>.password"""
    out = []
    if isinstance(cfg, dict):
        for k, v in cfg.items():
            out += password_paths(v, path + (k.lower(),))
    elif is_pw_path(path):
        out.append((path, cfg))
    return out


STRUCTURAL = {"class-name", "client-profile", "sasl", "tls", "cluster", "address"}


def taint_config(rng, cfg, numeric):
    """Every leaf becomes a unique token (strings, or 9-digit numbers where the leaf is a number and numeric=True);
    leaves that steer the handlers (class names, profile references, listener address) keep their value.
    Returns (config, {token: path})."""
    where = {}

    def fresh(path, as_int):
        while True:
            t = rng.randrange(10 ** 8, 2 ** 31 - 1) if as_int else "tk" + "".join(rng.choice(ALNUM) for _ in range(14))
            if t not in where:
                where[t] = path
                return t

    def walk(t, path):
        if isinstance(t, dict):
            return {k: walk(v, path + (k.lower(),)) for k, v in t.items()}
        if path and path[-1] in STRUCTURAL and not isinstance(t, PW):
            return t
        if isinstance(t, PW):
            return fresh(path, False)
        if isinstance(t, bool):
            return t
        if isinstance(t, int):
            return fresh(path, True) if numeric else t
        if isinstance(t, list):
            return [fresh(path, False) for _ in t]
        return fresh(path, False)
    return walk(cfg, ()), where


# ---------------------------------------------------------------------------------------------------
# requests
# ---------------------------------------------------------------------------------------------------

def world_for(rng, cfg):
    w = {}
    for c in list(cfg.get("cluster", {}))[:3]:
        w[c] = {"topics": {"t1": [10, 20], "topic.two": [5]}, "groups": {"g1": 1, "grp.x": 3}}
        for cn in list(cfg.get("consumer", {}))[:2]:
            w[c]["groups"][cn] = 2
    return w


def param_pool(rng, cfg, lits, section, extra=6):
    """parameter strings for a :name / :cluster hole of a route that looks into `section`"""
    out = []

    def add(v, cl):
        if v is not None and (v, cl) not in out:
            out.append((v, cl))
    if section:
        names = entry_names(cfg.get(section, {}))
        if len(names) > 9:      # keep every top-level name, sample the nested ones
            top = [n for n in names if "." not in n]
            deep = [n for n in names if "." in n]
            rng.shuffle(deep)
            names = top[:9] + deep[:6]
    else:
        names = [n for sec in ("sasl", "notifier", "client-profile", "cluster", "tls") for n in entry_names(cfg.get(sec, {}))[:3]]
    for n in names:
        add(n, "configured")
        add(n.upper(), "case")
        add(n.lower(), "case")
        add(n + ".password", "dotted-password")
        add(n + "." + rng.choice(["Password", "PASSWORD", "username", "extras", "class-name", "sasl", "client-profile"]), "dotted")
        add(n + "x", "near-miss")
    others = [n for sec, v in cfg.items() if isinstance(v, dict) and sec != section for n in v if isinstance(v[n], dict)]
    rng.shuffle(others)
    for n in others[:3]:
        add(n, "other-section")
    for sec in PW_SECTIONS:
        pn = entry_names(cfg.get(sec, {}))
        for n in pn[:2] + [x for x in pn if "." in x][:2]:
            add(sec + "." + n + ".password", "pw-path")
            add(n + ".password", "dotted-password")
    add("password", "keyword")
    add(rng.choice(KEYWORD_NAMES), "keyword")
    pool = list(lits)
    rng.shuffle(pool)
    for v in pool[:extra]:
        add(v, "literal")
    add("%s.%s" % (rng.choice(names), "password") if names else "a.password", "dotted-password")
    add("", "empty")
    return out


SECTION_OF = {"storage": "storage", "evaluator": "evaluator", "cluster": "cluster", "consumer": "consumer", "notifier": "notifier",
              "kafka": "cluster"}


def route_section(pattern):
    segs = [s for s in pattern.split("/") if s]
    for i, s in enumerate(segs):
        if s.startswith(":") and i > 0:
            return SECTION_OF.get(segs[i - 1])
    return None


def build_requests(rng, routes, cfg, world, lits, per_route=10, lit_share=6, all_lits=False):
    """[(method, raw path, body, meta)] -- every registered route, parameters from the configuration; requests with a
    configured name are repeated with a query string ?<literal of the sources>=password (all literals when all_lits)"""
    reqs = []
    qkeys = list(lits) if all_lits else [rng.choice(lits) for _ in range(2)] if lits else []
    for (method, pattern, handler) in routes:
        segs = pattern.split("/")
        holes = [s for s in segs if s.startswith(":") or s.startswith("*")]
        body = '{"level":"info"}' if method == "POST" else ""
        if not holes:
            reqs.append((method, pattern, body, {"route": method + " " + pattern, "handler": handler, "params": {}, "classes": ["-"]}))
            continue
        sec = route_section(pattern)
        first = param_pool(rng, cfg, lits, sec, extra=len(lits) if all_lits else lit_share)
        if len(first) > per_route and not all_lits:
            keep = [x for x in first if x[1] in ("configured", "dotted-password", "pw-path")]
            rest = [x for x in first if x not in keep]
            rng.shuffle(rest)
            first = (keep + rest)[:max(per_route, len(keep))]
        for (v0, cl0) in first:
            if v0 == "":
                continue
            vals, classes = {}, [cl0]
            for h in holes:
                nm = h[1:]
                if h == holes[0]:
                    vals[nm] = v0
                else:
                    cw = world.get(v0) or {}
                    cands = list(cw.get("topics", {})) + list(cw.get("groups", {})) + ["password", "nope"] + list(cfg.get("sasl", {}))[:1]
                    vals[nm] = rng.choice(cands)
                    classes.append("sub")
            path = "/".join(urllib.parse.quote(vals[s[1:]], safe="") if (s.startswith(":") or s.startswith("*")) else s for s in segs)
            reqs.append((method, path, body, {"route": method + " " + pattern, "handler": handler, "params": vals, "classes": classes}))
            if cl0 == "configured" and len(holes) == 1:
                for q in qkeys:
                    if re.fullmatch(r"[A-Za-z0-9_.-]+", q):
                        reqs.append((method, path + "?" + q + "=" + rng.choice(["password", "Password"]), body,
                                     {"route": method + " " + pattern, "handler": handler, "params": vals, "classes": classes + ["query"]}))
    reqs.append(("GET", "/v3/nothing/here", "", {"route": "unrouted", "handler": "ServeHTTP", "params": {}, "classes": ["-"]}))
    reqs.append(("GET", "/v3/config/sasl/" + urllib.parse.quote(next(iter(cfg.get("sasl", {"x": 0}))), safe=""), "",
                 {"route": "unrouted", "handler": "ServeHTTP", "params": {}, "classes": ["-"]}))
    return reqs


def env_variant(config, leaves, tokens):
    """The configuration with its passwords taken OUT of the document and supplied through the environment, as Burrow's
    main.go lets viper read them (prefix BURROW, '.' and '-' -> '_', upper case): (document, {variable: value}).
    Only passwords whose key path is made of [A-Za-z0-9_-] segments can be named by a variable; the others stay."""
    doc, env = config, {}
    for keys, idx, _kind in leaves:
        if all(re.fullmatch(r"[A-Za-z0-9_-]+", k) for k in keys):
            name = "BURROW_" + "_".join(k.upper().replace("-", "_") for k in keys)
            if name in env:
                continue
            env[name] = str(tokens[idx])
            doc = del_at(doc, keys)
    return doc, env


def del_at(cfg, keys):
    out = dict(cfg)
    if len(keys) == 1:
        out.pop(keys[0], None)
    else:
        out[keys[0]] = del_at(cfg[keys[0]], keys[1:])
    return out


def case_line(config, world, reqs, env=None):
    doc = {"config": config, "world": world, "ready": True, "requests": [{"m": m, "p": p, "b": b} for (m, p, b, _) in reqs]}
    if env:
        doc["env"] = env
    return "run " + json.dumps(doc, ensure_ascii=False).encode("utf-8").hex()


def parse_output(line):
    """-> list of dict(code, headers{name: bytes}, body bytes) or an error string"""
    if not line.startswith("OK "):
        if line.startswith("PROBE-ERROR "):
            try:
                return "PROBE-ERROR " + bytes.fromhex(line.split()[1]).decode("utf-8", "replace")
            except Exception:
                return line
        return line or "no output"
    arr = json.loads(bytes.fromhex(line[3:]).decode("utf-8"))
    out = []
    for r in arr:
        out.append({"code": r["code"], "headers": {k: base64.b64decode(v) for k, v in (r.get("headers") or {}).items()},
                    "body": base64.b64decode(r.get("body") or "")})
    return out


# ---------------------------------------------------------------------------------------------------
# oracle 1: a response contains a token
# ---------------------------------------------------------------------------------------------------

def go_json_escape(s):
    """encoding/json's escaping of a string (HTML-safe mode, the default of json.Marshal)"""
    out = []
    for ch in s:
        o = ord(ch)
        if ch == '"':
            out.append('\\"')
        elif ch == '\\':
            out.append('\\\\')
        elif ch == '\n':
            out.append('\\n')
        elif ch == '\r':
            out.append('\\r')
        elif ch == '\t':
            out.append('\\t')
        elif o < 0x20 or ch in '<>&' or o in (0x2028, 0x2029):
            out.append('\\u%04x' % o)
        else:
            out.append(ch)
    return "".join(out)


def leak_forms(token, usernames=()):
    """byte strings whose presence in a response means the token is revealed"""
    s = str(token)
    raw = s.encode("utf-8")
    forms = {"raw": raw}
    forms["json"] = go_json_escape(s).encode("utf-8")
    forms["json-ascii"] = json.dumps(s)[1:-1].encode("ascii")
    forms["base64"] = base64.b64encode(raw).rstrip(b"=")
    forms["base64url"] = base64.urlsafe_b64encode(raw).rstrip(b"=")
    forms["hex"] = raw.hex().encode()
    forms["HEX"] = raw.hex().upper().encode()
    forms["url"] = urllib.parse.quote(s, safe="").encode()
    forms["url+"] = urllib.parse.quote_plus(s).encode()
    forms["html"] = html.escape(s, quote=True).encode("utf-8")
    forms["go-quote"] = s.replace("\\", "\\\\").replace('"', '\\"').encode("utf-8")
    forms["reversed"] = raw[::-1]
    for u in usernames:
        forms["basic:" + u] = base64.b64encode((u + ":" + s).encode("utf-8")).rstrip(b"=")
    # drop forms that are too short to mean anything
    return {k: v for k, v in forms.items() if len(v) >= 8}


def response_blob(resp):
    hs = b"\n".join(k.encode() + b": " + v for k, v in sorted(resp["headers"].items()))
    return hs + b"\n\n" + resp["body"]


def find_tokens(resp, needles):
    """needles: [(token index, form name, bytes)] -> first hit or None"""
    blob = response_blob(resp)
    for (ti, form, b) in needles:
        if b in blob:
            return (ti, form)
    return None


# ---------------------------------------------------------------------------------------------------
# oracle 2: what is compared between cfg and cfg'
# ---------------------------------------------------------------------------------------------------

def _sort_string_arrays(v):
    if isinstance(v, list):
        v = [_sort_string_arrays(x) for x in v]
        if all(isinstance(x, str) for x in v):
            return sorted(v)
        return v
    if isinstance(v, dict):
        return {k: _sort_string_arrays(x) for k, x in v.items()}
    return v


def canon_response(resp, handler):
    body = resp["body"]
    if handler == "handlePrometheusMetrics":
        body = b"\n".join(l for l in body.split(b"\n") if l.startswith(b"burrow_"))
    else:
        try:
            obj = json.loads(body.decode("utf-8"))
            if isinstance(obj, (dict, list)):
                body = json.dumps(_sort_string_arrays(obj), sort_keys=True, ensure_ascii=False).encode("utf-8")
        except Exception:
            pass
    hs = tuple(sorted((k, v) for k, v in resp["headers"].items()))
    return (resp["code"], hs, body)


# ---------------------------------------------------------------------------------------------------
# taint run: a model of viper's lookup and of the read table's semantics (mirror of ConfigRead.observe)
# ---------------------------------------------------------------------------------------------------

class Viper:
    def __init__(self, cfg):
        self.root = self._lower(cfg)

    def _lower(self, t):
        if isinstance(t, dict):
            return {k.lower(): self._lower(v) for k, v in t.items()}
        return t

    @staticmethod
    def path(key):
        return tuple(key.lower().split(".")) if key != "" else ()

    def get(self, path):
        t = self.root
        for s in path:
            if not isinstance(t, dict) or s not in t:
                return None
            t = t[s]
        return t


def _to_string(v):
    if isinstance(v, bool):
        return "true" if v else "false"
    if isinstance(v, (int, float)):
        return str(v)
    if isinstance(v, str):
        return v
    return ""


def table_instances(rows, handler, params, vip):
    """[(row, path)] for every key the handler's rows (and the package rows "*") can read under these parameters"""
    env = {}
    out = []
    for r in rows:
        if r["handler"] not in (handler, "*"):
            continue
        keys = [""]
        for k, v in r["pat"]:
            if k == "PFix":
                alts = [v]
            elif k == "PParam":
                alts = [params.get(v, "")]
            elif k == "PValOf":
                alts = [a for a in env.get(v, {}).get("vals", [])]
            elif k == "PKeyOf":
                alts = [a for a in env.get(v, {}).get("keys", [])]
            else:
                alts = []
            keys = [a + b for a in keys for b in alts]
        vals, ks = [], []
        for key in keys:
            p = Viper.path(key)
            node = vip.get(p)
            out.append((r, p))
            if r["kind"] == "KScalar":
                vals.append(_to_string(node) if not isinstance(node, (dict, list)) and node is not None else "")
            if r["kind"] in ("KKeys", "KChildren", "KSubtree") and isinstance(node, dict):
                ks += list(node.keys())
        env[r["id"]] = {"vals": vals, "keys": ks}
    return out


def explains(inst, leaf_path):
    r, p = inst
    k = r["kind"]
    if k == "KScalar":
        return p == leaf_path
    if k == "KChildren":
        return len(leaf_path) == len(p) + 1 and leaf_path[:len(p)] == p
    if k == "KSubtree":
        return leaf_path[:len(p)] == p
    return False
