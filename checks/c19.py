"""C19 — invalid configuration is refused cleanly; valid configuration is accepted."""
import json
import re

import common as C
import configgen as G
from framework import Check

OUT = re.compile(r"^RET (-?\d+) valid=(true|false) configured=(\S*) started=(\S*)$")


def strip(line):
    """the observable part of a model line (the rest is the spec's verdict, used by the oracle below)"""
    return line.split(" # ")[0]


def spec_reqs(model_line):
    m = re.search(r" # reqs=(\d+) (\S*) first=", model_line)
    return int(m.group(1)), (m.group(2).split(",") if m.group(2) else [])


def oracle(impl_line, invalid):
    """The property itself, evaluated on what the implementation did.  invalid = the formal spec (`requirements`, the
    catalogue of documented requirements) lists at least one violation for this configuration."""
    m = OUT.match(impl_line)
    if not m:
        return False, "start-up crashed: " + impl_line
    rc, valid, started = int(m.group(1)), m.group(2) == "true", [x for x in m.group(4).split(",") if x]
    if invalid:
        if rc == 0:
            return False, "invalid configuration accepted (Start returned 0)"
        if valid:
            return False, "invalid configuration accepted (ConfigurationValid = true, subsystems started: %s)" % started
        if started:
            return False, "invalid configuration: subsystems were started: %s" % started
        return True, "refused"
    if not valid:
        return False, "valid configuration refused"
    if not started:
        return False, "valid configuration: nothing started"
    return True, "accepted"


def classify(case, impl_line, model_line):
    """known-finding classifier over a failing or mismatching case.
    C19:dotted-reference — the case contains an edit that references a cluster / client-profile by a dotted name whose
    path happens to be a set viper key (viper.IsSet("cluster.c1.servers")), the formal spec reports that reference as
    unknown (ConsumerCluster / ProfileUnknown), and the implementation did not stop at it (it accepted the
    configuration, or went on and stopped at a later violation)."""
    base, edits = G.parse_head(case)
    nreq, reqs = spec_reqs(model_line)
    if any(G.EDITS[e]["gate"] == "C19:dotted-reference" for e in edits if e in G.EDITS) \
            and any(r.startswith(("ConsumerCluster@", "ProfileUnknown@")) for r in reqs) and OUT.match(impl_line):
        return "C19:dotted-reference"
    return None


def evaluate(chk, cases, impl, model, mism, tag):
    mism_idx = {i for (i, _, _, _) in mism}
    reported = 0
    for i, (c, a, b) in enumerate(zip(cases, impl, model)):
        base, edits = G.parse_head(c)
        nreq, reqs = spec_reqs(b)
        invalid = nreq > 0
        ok, why = oracle(a, invalid)
        # evidence
        chk.count("base:" + base)
        chk.count("edits:%d" % len(edits))
        for e in edits:
            chk.count("edit-kind:" + G.EDITS[e]["kind"])
        chk.count("spec:" + ("invalid" if invalid else "valid"))
        chk.count("impl:" + (a.split(" configured")[0] if a.startswith("RET") else a))
        if any(G.EDITS[e]["inv"] is True or (G.EDITS[e]["inv"] is None and invalid) for e in edits):
            chk.nontrivial.add(C.case_hash(" ".join(c.split()[3:])))
        # catalogue <-> spec cross-check on focused single edits
        if len(edits) == 1 and base in G.EDITS[edits[0]]["on"] and G.EDITS[edits[0]]["inv"] is not None \
                and G.EDITS[edits[0]]["inv"] != invalid:
            chk.violation("catalogue_%s_%d" % (tag, i), {
                "kind": "input", "case": c, "model_output": b, "impl_output": a,
                "broken": "catalogue: edit %s is marked inv=%s but the formal spec says %s" % (edits[0], G.EDITS[edits[0]]["inv"], reqs),
            }, found_input=False)
        if ok and i not in mism_idx:
            continue
        key = classify(c, a, b)
        if key and chk.known_finding(key, c):
            continue
        if reported >= 8:
            continue
        reported += 1
        replay = {"kind": "input", "probe": "core/TestVerifProbeConfig", "case": c, "base": base, "edits": edits,
                  "edit_descriptions": [G.EDITS[e]["what"] + " [" + G.EDITS[e]["cite"] + "]" for e in edits],
                  "spec_violations": reqs, "impl_output": a, "model_output": b, "oracle_verdict": why,
                  "cmd": "bin/check C19 --replay <this file>"}
        if not ok:
            replay["broken"] = "C19 on the implementation: " + why
            chk.violation("%s_%d" % (tag, i), replay)
        else:
            replay["broken"] = "corr:core.Start (model ConfigValid.start differs from the implementation; the property's oracle holds on this case)"
            chk.violation("%s_%d" % (tag, i), replay, found_input=False)


def run(chk, failed):
    registered = {f["key"] for f in chk.known.get("findings", []) if f.get("property") == chk.pid}
    cases = list(C.read_corpus(chk.pid)) + G.all_cases(chk.rng, chk.thorough, n_pairs=300, registered=registered)
    gated = sorted({e["gate"] for e in G.E if e["gate"] and e["gate"] not in registered})
    if gated:
        chk.notes.append("edits gated on unregistered known-finding keys were not generated: %s (witnesses in findings/C19.json)" % gated)
    chk.rule = ("the catalogue of checks/configgen.py: 3 valid bases (core; notify = zookeeper+http/email/null notifiers+TLS "
                "listener; kafka = client profile with TLS/SASL, cluster, kafka and kafka_zk consumers on the unreachable "
                "127.0.0.1:1) x every single edit (%d edits: invalidating and validity-preserving) and pairs of edits "
                "(quick: 300 sampled, 3/4 of them with both targets present in the base; thorough: all pairs); the configuration "
                "is loaded into viper and the exported core.Start is called; non-trivial = at least one edit that the catalogue "
                "marks invalidating (or a context-dependent edit that the formal spec finds invalid); distinct by the "
                "resulting key/value set" % len(G.E))
    impl, model, mism = chk.differential("config", "config", "TestVerifProbeConfig", cases, name="config", project=strip,
                                         timeout=6000)
    evaluate(chk, cases, impl, model, mism, "config")
    shown = 0
    for i in range(len(cases)):
        base, edits = G.parse_head(cases[i])
        if len(edits) == shown and shown < 3:
            chk.sample({"base": base, "edits": edits, "keys": [t for t in cases[i].split()[3:] if not t.startswith("F:")][:12],
                        "impl": impl[i], "model": model[i]})
            shown += 1
    inv_pair = next((i for i in range(len(cases)) if len(G.parse_head(cases[i])[1]) == 2 and spec_reqs(model[i])[0] > 0), None)
    if inv_pair is not None:
        chk.sample({"base_edits": cases[inv_pair].split()[1:3], "impl": impl[inv_pair], "model": model[inv_pair]})
    if failed and not chk.violations:
        chk.violation("obligation", {"kind": "theorem", "broken": [n for n, _ in failed],
                                     "detail": [d for _, d in failed]}, found_input=False)
    chk.assumptions += [
        "viper lookup semantics are modelled in the driver glue (a key is set iff it was given; module names are atoms without dots; SetDefault values as in the code)",
        "regexp.Compile, template parsing, host:port / zookeeper path syntax, Kafka version parsing, file readability and X509 key pairs are oracle fields of the model; the catalogue's values for them are checked against the real code by the differential run",
        "start time: no Kafka broker or Zookeeper server is reachable (127.0.0.1:1); the OS grants every 127.0.0.1:0 / :0 listener; zookeeper.root-path is \"/\" in the bases so that the zookeeper coordinator's Start needs no server round trip",
        "the old recover handler (re-panic) is kept as ConfigValid.handler_old; its witness was recorded on the unfixed tree (findings/C19.json)",
    ]


def replay(path):
    obj = json.load(open(path))
    chk = Check("C19", "quick", int(obj.get("seed", 1)))
    case = obj["case"]
    impl, model, mism = chk.differential("config", "config", "TestVerifProbeConfig", [case], name="replay", project=strip)
    nreq, reqs = spec_reqs(model[0])
    ok, why = oracle(impl[0], nreq > 0)
    print("case   :", " ".join(case.split()[:3]))
    print("impl   :", impl[0])
    print("model  :", model[0])
    print("oracle :", "holds" if ok else "FAILS", "-", why)
    return 0 if ok and not mism else 1
