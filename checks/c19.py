"""C19 — invalid configuration is refused cleanly; valid configuration is accepted."""
import json
import re
import threading

import common as C
import configgen as G
import os

from framework import Check, ProbeCrashed

OUT = re.compile(r"^RET (-?\d+) valid=(true|false) configured=(\S*) started=(\S*) listening=(\d+)(@\S+)?(?: pre=(\S+)/(true|false))?$")
SHARDS = 6
ENV = {"VERIF_REPO_CONFIG": C.REPO + "/config"}       # where the probe finds the shipped config/*.tmpl of the tree under test


def strip(line):
    """the observable part of a model line (the rest is the spec's verdict, used by the oracle below)"""
    return line.split(" # ")[0]


def spec_reqs(model_line):
    m = re.search(r" # reqs=(\d+) (\S*) first=", model_line)
    return int(m.group(1)), (m.group(2).split(",") if m.group(2) else [])


def oracle(impl_line, invalid):
    """The property itself, evaluated on what the implementation did.  invalid = the formal spec (`requirements`, the
    catalogue of documented requirements) lists at least one violation for this configuration."""
    m = OUT.match(impl_line)
    if not m:
        return False, "start-up crashed: " + impl_line
    rc, valid, started = int(m.group(1)), m.group(2) == "true", [x for x in m.group(4).split(",") if x]
    if invalid:
        if rc == 0:
            return False, "invalid configuration accepted (Start returned 0)"
        if valid:
            return False, "invalid configuration accepted (ConfigurationValid = true, subsystems started: %s)" % started
        if started:
            return False, "invalid configuration: subsystems were started: %s" % started
        if int(m.group(5)) > 0:
            return False, "invalid configuration refused, but %s listening socket(s) opened by Start are left open (ports %s)" % (
                m.group(5), (m.group(6) or "@?")[1:])
        return True, "refused"
    if not valid:
        return False, "valid configuration refused"
    if not started:
        return False, "valid configuration: nothing started"
    return True, "accepted"


TEST = "TestVerifProbeConfig"
MAX_CRASHES = 4
CHUNK = 3000       # cases per probe process: every started-and-stopped notifier coordinator leaves goroutines behind
                   # (manageEvalLoop has no quit path), so a process that runs 10^4 configurations reaches the ulimit -v of the probe


def run_shard(chk, cases, name, timeout, crashed):
    """The probe on `cases` in one process.  If the process dies on a case (os.Exit from inside core.Start, a fatal runtime
    error, a hang killed by the timeout), that single case is run again in a child process of its own: if the child also
    ends without printing the case's output line, the case gets the pseudo output `EXIT <status> ...` (which the property's
    oracle reads as "start-up crashed", a concrete failing configuration) and the shard goes on behind it."""
    out, rest, attempt, runs = [], list(cases), 0, 0
    while rest:
        run = "%s_r%d" % (name, runs)
        runs += 1
        now, later = rest[:CHUNK], rest[CHUNK:]
        try:
            out += chk.run_impl("config", TEST, now, name=run, timeout=timeout, extra_env=ENV)
            rest = later
        except ProbeCrashed as e:
            if e.case is None:
                raise
            part = os.path.join(chk.work, run + ".impl")
            done = open(part).read().splitlines()[:e.done] if os.path.exists(part) else []
            out += done + [""] * (e.done - len(done))
            try:
                alone = chk.run_impl("config", TEST, [e.case], name=run + "_alone", timeout=min(timeout, 300), extra_env=ENV)
                out.append(alone[0])       # not reproducible on its own: keep what it prints, report the batch crash separately
                crashed.append((e.case, e.rc, (e.out or "")[:1500] + "\n[...]\n" + (e.out or "")[-600:], False))
            except ProbeCrashed as e1:
                tail = [l for l in (e1.out or "").splitlines() if l.strip()][-1:] or [""]
                out.append("EXIT %s the process ended inside core.Start without Start returning [%s]" % (e1.rc, tail[0][:160]))
                crashed.append((e.case, e1.rc, (e1.out or "")[-600:], True))
            rest = now[e.done + 1:] + later
            attempt += 1
            if attempt >= MAX_CRASHES and rest:
                out += ["SKIPPED (the probe process died %d times in this shard)" % attempt] * len(rest)
                break
    return out


def differential(chk, cases, name, timeout=6000):
    """chk.differential with the probe run as SHARDS processes side by side (core.Start works on the process-global viper, so
    one process handles one configuration at a time; most of a case's wall time is sarama's metadata retry back-off against
    the unreachable brokers).  Case i goes to shard i mod SHARDS; outputs are put back in order."""
    n = min(SHARDS, max(1, len(cases) // 8))
    C.build_probe("config")       # once, before the shards ask for it
    parts = [cases[k::n] for k in range(n)]
    outs, errs, crashed = [None] * n, [], []

    def work(k):
        try:
            outs[k] = run_shard(chk, parts[k], "%s_%d" % (name, k), timeout, crashed)
        except Exception as e:      # re-raised in the main thread (ProbeBroken / ProbeCrashed are handled by the framework)
            errs.append(e)

    ts = [threading.Thread(target=work, args=(k,)) for k in range(n)]
    for t in ts:
        t.start()
    for t in ts:
        t.join()
    if errs:
        raise errs[0]
    impl = [None] * len(cases)
    for k in range(n):
        impl[k::n] = outs[k]
    model = chk.run_model("config", cases, name=name)
    mism = [(i, c, a, b) for i, (c, a, b) in enumerate(zip(cases, impl, model))
            if a != strip(b) and not a.startswith("SKIPPED")]
    chk.evaluations += len(cases)
    chk.traces_validated += len(cases)
    for case, rc, out, alone in crashed:
        chk.count("probe-process-died:" + ("reproduced-alone" if alone else "only-in-batch"))
        if not alone:
            chk.violation("impl_crashed_in_batch_%d" % (abs(hash(case)) % 100000), {
                "kind": "input", "probe": "core/TestVerifProbeConfig", "case": case, "exit_status": rc, "output_tail": out,
                "broken": "the probe process died while running this case in a batch (exit status %s) but not when the case "
                          "was run on its own" % rc}, found_input=False)
    return impl, model, mism


def evaluate(chk, cases, impl, model, mism, tag):
    mism_idx = {i for (i, _, _, _) in mism}
    reported = 0
    for i, (c, a, b) in enumerate(zip(cases, impl, model)):
        base, edits = G.parse_head(c)
        if a.startswith("SKIPPED"):
            chk.count("impl:SKIPPED")
            continue
        nreq, reqs = spec_reqs(b)
        invalid = nreq > 0
        ok, why = oracle(a, invalid)
        # evidence
        chk.count("base:" + base)
        chk.count("edits:%d" % len(edits))
        for e in edits:
            chk.count("edit-kind:" + G.EDITS[e]["kind"])
        ctx = G.parse_ctx(c)
        chk.count("context:" + ctx)
        chk.count("spec:" + ("invalid" if invalid else "valid"))
        chk.count("spec/context:%s/%s" % ("invalid" if invalid else "valid", ctx))
        chk.count("impl:" + (a.split(" configured")[0] if a.startswith("RET") else a))
        if any(G.EDITS[e]["inv"] is True or (G.EDITS[e]["inv"] is None and invalid) for e in edits):
            chk.nontrivial.add(C.case_hash(G.config_part(c)))
        # catalogue <-> spec cross-check on focused single edits
        if len(edits) == 1 and base in G.EDITS[edits[0]]["on"] and G.EDITS[edits[0]]["inv"] is not None \
                and G.EDITS[edits[0]]["inv"] != invalid:
            chk.violation("catalogue_%s_%d" % (tag, i), {
                "kind": "input", "case": c, "model_output": b, "impl_output": a,
                "broken": "catalogue: edit %s is marked inv=%s but the formal spec says %s" % (edits[0], G.EDITS[edits[0]]["inv"], reqs),
            }, found_input=False)
        if ok and i not in mism_idx:
            continue
        if reported >= 8:
            continue
        reported += 1
        replay = {"kind": "input", "probe": "core/TestVerifProbeConfig", "case": c, "base": base, "edits": edits,
                  "initial_context": {"fresh": "fresh ApplicationContext (ConfigurationValid = false)",
                                      "preset": "ApplicationContext constructed with ConfigurationValid = true",
                                      "reuse": "ApplicationContext re-used after an earlier core.Start on a valid configuration "
                                               "(the P-prefixed tokens of the case)"}.get(ctx, ctx),
                  "edit_descriptions": [G.EDITS[e]["what"] + " [" + G.EDITS[e]["cite"] + "]" for e in edits],
                  "spec_violations": reqs, "impl_output": a, "model_output": b, "oracle_verdict": why,
                  "cmd": "bin/check C19 --replay <this file>"}
        if not ok:
            replay["broken"] = "C19 on the implementation: " + why
            chk.violation("%s_%d" % (tag, i), replay)
        else:
            replay["broken"] = "corr:core.Start (model ConfigValid.start differs from the implementation; the property's oracle holds on this case)"
            chk.violation("%s_%d" % (tag, i), replay, found_input=False)


def run(chk, failed):
    cases = list(C.read_corpus(chk.pid)) + G.all_cases(chk.rng, chk.thorough, n_pairs=300)
    chk.rule = ("the catalogue of checks/configgen.py: 3 valid bases (core; notify = zookeeper+http/email/null notifiers+TLS "
                "listener; kafka = client profile with TLS/SASL, cluster, kafka and kafka_zk consumers on the unreachable "
                "127.0.0.1:1) x every single edit (%d edits: invalidating and validity-preserving) and pairs of edits "
                "(quick: 300 sampled, 3/4 of them with both targets present in the base; thorough: all pairs) x the state of "
                "the ApplicationContext handed to Start (fresh / constructed with ConfigurationValid = true / re-used after an "
                "earlier Start on a valid base; every invalidating single edit under all three); the configuration is loaded "
                "into viper and the exported core.Start is called; non-trivial = at least one edit that the catalogue marks "
                "invalidating (or a context-dependent edit that the formal spec finds invalid); distinct by the resulting "
                "key/value set" % len(G.E))
    impl, model, mism = differential(chk, cases, "config")
    evaluate(chk, cases, impl, model, mism, "config")
    shown = 0
    for i in range(len(cases)):
        base, edits = G.parse_head(cases[i])
        if len(edits) == shown and shown < 3:
            chk.sample({"base": base, "edits": edits, "context": G.parse_ctx(cases[i]),
                        "keys": [t for t in G.config_part(cases[i]).split() if not t.startswith("F:")][:12],
                        "impl": impl[i], "model": model[i]})
            shown += 1
    inv_pair = next((i for i in range(len(cases)) if len(G.parse_head(cases[i])[1]) == 2 and spec_reqs(model[i])[0] > 0), None)
    if inv_pair is not None:
        chk.sample({"base_edits": cases[inv_pair].split()[1:3], "context": G.parse_ctx(cases[inv_pair]),
                    "impl": impl[inv_pair], "model": model[inv_pair]})
    inv_used = next((i for i in range(len(cases)) if G.parse_ctx(cases[i]) == "reuse" and spec_reqs(model[i])[0] > 0), None)
    if inv_used is not None:
        chk.sample({"base_edits": cases[inv_used].split()[1:3], "context": "reuse", "impl": impl[inv_used], "model": model[inv_used]})
    if failed and not chk.violations:
        chk.violation("obligation", {"kind": "theorem", "broken": [n for n, _ in failed],
                                     "detail": [d for _, d in failed]}, found_input=False)
    chk.assumptions += [
        "viper lookup semantics are modelled in the driver glue (a key is set iff it was given; module names are the second path component; a reference names a module iff it equals that component, so a dotted reference names none; SetDefault values as in the code)",
        "of the caller's ApplicationContext only ConfigurationValid is an input of the model (ConfigValid.app_state): the other fields are written by Start or a coordinator before anything reads them (field by field in ConfigValid.v); a nil context / nil Logger makes Start build its own context, which the probe cannot observe",
        "regexp.Compile, template parsing, host:port / zookeeper path syntax, Kafka version parsing, file readability and X509 key pairs are oracle fields of the model; the catalogue's values for them are checked against the real code by the differential run",
        "start time: no Kafka broker or Zookeeper server is reachable (127.0.0.1:1); the OS grants every 127.0.0.1:0 / :0 listener; zookeeper.root-path is \"/\" in the bases so that the zookeeper coordinator's Start needs no server round trip",
        "the old recover handler (re-panic) is kept as ConfigValid.handler_old; its witness was recorded on the unfixed tree (findings/C19.json)",
    ]


def replay(path):
    obj = json.load(open(path))
    chk = Check("C19", "quick", int(obj.get("seed", 1)))
    case = obj["case"]
    impl, model, mism = differential(chk, [case], "replay")
    nreq, reqs = spec_reqs(model[0])
    ok, why = oracle(impl[0], nreq > 0)
    print("case   :", " ".join(case.split()[:3]), " context:", G.parse_ctx(case))
    print("spec   :", ("violated: " + ",".join(reqs)) if nreq else "no requirement violated")
    print("impl   :", impl[0])
    print("model  :", model[0])
    print("oracle :", "holds" if ok else "FAILS", "-", why)
    return 0 if ok and not mism else 1
