"""Generators, parser and oracle for the notification-template layer (C20).

One case = one line:
  render <template file> <stateGood> <cluster> <group> <id> <start unix s> <#extras|-1> {<key> <value>}
         <status> <complete> <total partitions> <total lag> <maxlag partition> <#partitions|-1> {<partition>}
  partition = nil | P <topic> <partition> <owner> <client> <status> <offset> <offset> <current lag> <complete>
  offset    = nil | O <offset> <order> <timestamp> <observed> <lag|n>
Strings are written as x<hex of the bytes>; floats as decimal text or "nan".
"""
import glob
import os

TEMPLATES = ["default-email.tmpl", "default-http-delete.tmpl", "default-http-post.tmpl",
             "default-slack-delete.tmpl", "default-slack-post.tmpl"]


def shipped_templates(repo):
    """The five templates the property names, plus any further template file found in config/ of the tree."""
    found = sorted(os.path.basename(f) for f in glob.glob(os.path.join(repo, "config", "*.tmpl")))
    return TEMPLATES + [f for f in found if f not in TEMPLATES]


# What the data handed to templates offers (C20, first sentence; documented in the notifier wiki and helpers.go):
# one-action templates against each documented field / helper, with the text they must print for the fixed status of
# the probe (cluster "cluster", group "group", event id "event-id", start 1500000000, extras {key: value}, status ERR,
# one STALL partition of topic "topic" with current lag 25, which is also the max-lag partition).
OFFERS = [
    ('{{.Cluster}}', "cluster"), ('{{.Group}}', "group"), ('{{.ID}}', "event-id"), ('{{.Start.Unix}}', "1500000000"),
    ('{{index .Extras "key"}}', "value"), ('{{.Result.Cluster}}/{{.Result.Group}}', "cluster/group"),
    ('{{.Result.Status.String}}', "ERR"), ('{{len .Result.Partitions}}', "1"), ('{{.Result.TotalLag}}', "25"),
    ('{{.Result.TotalPartitions}}', "1"), ('{{.Result.Maxlag.Topic}}', "topic"),
    ('{{add 1 2}}', "3"), ('{{minus 3 1}}', "2"), ('{{multiply 2 3}}', "6"), ('{{divide 6 3}}', "2"),
    ('{{maxlag .Result.Maxlag}}', "25"), ('{{formattimestamp 1500000000000 "2006"}}', "2017"),
    ('{{jsonencoder .Result.Cluster}}', '"cluster"'), ('{{index (partitioncounts .Result.Partitions) "stall"}}', "1"),
    ('{{index (topicsbystatus .Result.Partitions) "STALL"}}', "[topic]"),
]


def offer_case(text):
    return "offer " + hx(text)


def offer_oracle(text, expect, impl_line):
    if impl_line == "OK " + hx(expect):
        return []
    if impl_line.startswith("OK "):
        got = bytes.fromhex(impl_line[4:]).decode("utf-8", "replace")
        return ["the data handed to templates does not offer what is documented: %s prints %r, documented %r" % (text, got, expect)]
    return ["the data handed to templates does not offer what is documented: %s fails (%s)" % (text, impl_line)]
JSON_TEMPLATES = {"default-http-delete.tmpl", "default-http-post.tmpl", "default-slack-delete.tmpl", "default-slack-post.tmpl"}
CLOSE_TEMPLATES = {"default-http-delete.tmpl", "default-slack-delete.tmpl"}
STATUS = {0: "NOTFOUND", 1: "OK", 2: "WARN", 3: "ERR", 4: "STOP", 5: "STALL", 6: "REWIND"}
U64MAX = 2**64 - 1
I64MAX = 2**63 - 1

SAFE_NAMES = ["", "a", "testcluster", "my-group_01.prod", "grp with space", "café-日本", "x" * 40, "a/b:c,d;e",
              "{curly}[square]", "'single'", "<tag>&amp;", "100%", "tab-free", "{{.ID}}", "null", "0"]
HOSTILE_NAMES = ['say "hi"', "back\\slash", "line\nbreak", "tab\there", "nul\x00byte", '\\"', '"', "\\", "ends with \\",
                 '","injected":"1', "\x1f", "bell\x07", "\r\n"]


def hx(s):
    if isinstance(s, str):
        s = s.encode("utf-8")
    return "x" + s.hex()


def unhx(tok):
    return bytes.fromhex(tok[1:])


def json_safe_bytes(b):
    return all(c >= 0x20 and c != 0x22 and c != 0x5c for c in b)


def gen_name(rng, hostile):
    if hostile and rng.random() < 0.6:
        return rng.choice(HOSTILE_NAMES)
    if rng.random() < 0.2:
        alphabet = "abcdefghijklmnopqrstuvwxyzABCDEFGHIJKLMNOPQRSTUVWXYZ0123456789-_."
        return "".join(rng.choice(alphabet) for _ in range(rng.randrange(1, 24)))
    return rng.choice(SAFE_NAMES)


def gen_float(rng, hostile):
    if hostile and rng.random() < 0.3:
        return "nan"
    return rng.choice(["0", "1", "0.5", "0.33333334", "0.1", "0.9", "1e-07", "1e+21", "0.25", "0.70000005"])


def gen_offset(rng, nil):
    if nil:
        return None
    lag = rng.choice([None, 0, 1, 25, rng.randrange(0, 10**6), U64MAX])
    return {"offset": rng.choice([0, 1, 1000, rng.randrange(0, 10**12), I64MAX, -1]),
            "order": rng.randrange(0, 10**9),
            "ts": rng.choice([0, 1500000000000, rng.randrange(0, 2 * 10**12), -1, I64MAX]),
            "obs": rng.choice([0, 1500000000001, rng.randrange(0, 2 * 10**12)]),
            "lag": lag}


def gen_partition(rng, hostile_names, nil_start=False, nil_end=False, status=None, hostile_float=False):
    if status is None:
        r = rng.random()
        status = rng.choice([2, 4, 5, 6]) if r < 0.8 else rng.choice([0, 1, 3, 7, -1, 100])
    return {"topic": gen_name(rng, hostile_names), "partition": rng.choice([0, 1, 7, 63, 2**31 - 1]),
            "owner": gen_name(rng, hostile_names), "client": gen_name(rng, hostile_names), "status": status,
            "start": gen_offset(rng, nil_start), "end": gen_offset(rng, nil_end),
            "lag": rng.choice([0, 1, 1000, rng.randrange(0, 10**9), U64MAX]), "complete": gen_float(rng, hostile_float)}


def gen_case(rng, template, mode):
    """mode: 'wf'        status_wf holds, every name JSON-safe, floats finite  (the property's domain)
             'close'     wf, what a close notification carries: status OK, no problem partitions
             'names'     wf structure, hostile names (quotes, backslashes, control characters)
             'topics'    wf structure, safe top-level names, hostile topic/owner/client names only
             'floats'    wf structure, a NaN somewhere
             'struct'    status_wf broken: nil partition entries / nil Start / nil End"""
    hostile_names = mode == "names"
    c = {"template": template, "mode": mode}
    c["good"] = 1 if (mode == "close" or (template in CLOSE_TEMPLATES and rng.random() < 0.7)) else 0
    c["cluster"], c["group"] = gen_name(rng, hostile_names), gen_name(rng, hostile_names)
    c["id"] = gen_name(rng, hostile_names) if rng.random() < 0.3 else "3a8c9f6e-1b2d-4c5e-8f70-a1b2c3d4e5f6"
    c["start"] = rng.choice([0, 1, 1500000000, 1700000000, rng.randrange(1, 4 * 10**9), 253402300799, -62135596800 + 1])
    r = rng.random()
    if r < 0.15:
        c["extras"] = None
    elif r < 0.3:
        c["extras"] = []
    else:
        keys = rng.sample(["api_key", "app", "tier", "foo", "API_KEY"], rng.randrange(1, 5))
        c["extras"] = [(k, gen_name(rng, hostile_names)) for k in keys]
    if mode == "close":
        c["status"] = 1
        nparts = 0
    else:
        c["status"] = rng.choice([0, 1, 2, 2, 3, 3, 4, 5, 6, 7, -1, 100, 2**31])
        nparts = rng.choice([0, 1, 1, 2, 3, 4, 5, 6])
    c["complete"] = gen_float(rng, mode == "floats" and rng.random() < 0.5)
    c["total_partitions"] = rng.choice([0, 1, nparts, nparts + 3, 1000])
    c["total_lag"] = rng.choice([0, 1, 12345, rng.randrange(0, 10**12), U64MAX])
    pn = mode in ("names", "topics")
    parts = []
    for i in range(nparts):
        parts.append(gen_partition(rng, pn, hostile_float=(mode == "floats")))
    if mode == "floats" and c["complete"] != "nan" and parts:
        rng.choice(parts)["complete"] = "nan"
    if mode == "struct":
        if not parts:
            parts = [gen_partition(rng, False)]
        k = rng.randrange(len(parts))
        what = rng.choice(["nilpart", "nilstart", "nilend", "nilboth"])
        if what == "nilpart":
            parts[k] = None
        elif what == "nilstart":
            parts[k]["start"] = None
        elif what == "nilend":
            parts[k]["end"] = None
        else:
            parts[k]["start"] = parts[k]["end"] = None
    c["partitions"] = parts if (parts or rng.random() < 0.5) else None   # nil slice vs empty slice
    r = rng.random()
    if (not parts and r < 0.7) or (parts and r < 0.04):
        # Maxlag stays nil only for a group without partitions; the evaluator sets it as soon as there is one, so a status
        # that lists partitions and has no Maxlag is outside the property's domain (kept, rarely, for the correspondence)
        c["maxlag"] = None
    elif r < 0.8 and parts and parts[0] is not None:
        c["maxlag"] = rng.choice([p for p in parts if p is not None])
    else:
        # the max-lag partition need not be a listed one: an OK partition, possibly with an all-nil window
        c["maxlag"] = gen_partition(rng, pn, nil_start=rng.random() < 0.5, nil_end=rng.random() < 0.5, status=1)
    return c


def fmt_offset(o):
    if o is None:
        return "nil"
    return "O %d %d %d %d %s" % (o["offset"], o["order"], o["ts"], o["obs"], "n" if o["lag"] is None else str(o["lag"]))


def fmt_partition(p):
    if p is None:
        return "nil"
    return "P %s %d %s %s %d %s %s %d %s" % (hx(p["topic"]), p["partition"], hx(p["owner"]), hx(p["client"]), p["status"],
                                             fmt_offset(p["start"]), fmt_offset(p["end"]), p["lag"], p["complete"])


def fmt_case(c):
    out = ["render", c["template"], str(c["good"]), hx(c["cluster"]), hx(c["group"]), hx(c["id"]), str(c["start"])]
    if c["extras"] is None:
        out.append("-1")
    else:
        out.append(str(len(c["extras"])))
        for k, v in c["extras"]:
            out += [hx(k), hx(v)]
    out += [str(c["status"]), c["complete"], str(c["total_partitions"]), str(c["total_lag"]), fmt_partition(c["maxlag"])]
    if c["partitions"] is None:
        out.append("-1")
    else:
        out.append(str(len(c["partitions"])))
        out += [fmt_partition(p) for p in c["partitions"]]
    return " ".join(out)


# ---------------------------------------------------------------------------------------------
# parsing a case line back (corpus lines, replays) and classifying it
# ---------------------------------------------------------------------------------------------

class _Toks:
    def __init__(self, line):
        self.f = line.split()
        self.i = 0

    def next(self):
        self.i += 1
        return self.f[self.i - 1]


def _offset(t):
    if t.next() == "nil":
        return None
    o = {"offset": int(t.next()), "order": int(t.next()), "ts": int(t.next()), "obs": int(t.next())}
    l = t.next()
    o["lag"] = None if l == "n" else int(l)
    return o


def _partition(t):
    if t.next() == "nil":
        return None
    p = {"topic": unhx(t.next()), "partition": int(t.next()), "owner": unhx(t.next()), "client": unhx(t.next()),
         "status": int(t.next())}
    p["start"] = _offset(t)
    p["end"] = _offset(t)
    p["lag"] = int(t.next())
    p["complete"] = t.next()
    return p


def parse(line):
    t = _Toks(line)
    assert t.next() == "render"
    c = {"template": t.next(), "good": int(t.next()), "cluster": unhx(t.next()), "group": unhx(t.next()),
         "id": unhx(t.next()), "start": int(t.next())}
    n = int(t.next())
    c["extras"] = None if n < 0 else [(unhx(t.next()), unhx(t.next())) for _ in range(n)]
    c["status"] = int(t.next())
    c["complete"] = t.next()
    c["total_partitions"] = int(t.next())
    c["total_lag"] = int(t.next())
    c["maxlag"] = _partition(t)
    n = int(t.next())
    c["partitions"] = None if n < 0 else [_partition(t) for _ in range(n)]
    return c


def status_wf(c):
    """Statuses a notifier can receive, as far as templates can tell: every listed entry is a partition whose Start and
    End are present (TmplProofs.listed_partitions_have_ends), and Maxlag is nil only when nothing is listed."""
    if c["partitions"] and c["maxlag"] is None:
        return False          # the evaluator sets Maxlag whenever the group has a partition (caching.go:237-239)
    return all(p is not None and p["start"] is not None and p["end"] is not None for p in (c["partitions"] or []))


def _strings(c):
    yield c["cluster"]
    yield c["group"]
    yield c["id"]
    for k, v in (c["extras"] or []):
        yield v
    for p in (c["partitions"] or []) + [c["maxlag"]]:
        if p is not None:
            yield p["topic"]
            yield p["owner"]
            yield p["client"]


def _floats(c):
    yield c["complete"]
    for p in (c["partitions"] or []) + [c["maxlag"]]:
        if p is not None:
            yield p["complete"]


def json_safe(c):
    """JSON-safe names (no quote, backslash or control character in any string of the data) and finite numbers."""
    def b(s):
        return s if isinstance(s, bytes) else s.encode("utf-8")
    return all(json_safe_bytes(b(s)) for s in _strings(c)) and all(f != "nan" for f in _floats(c))


def oracle(c, impl_line):
    """C20 on one observed rendering: inside the property's domain the shipped template must render, and the
    HTTP/Slack ones must render to well-formed JSON.  Returns the list of failed clauses."""
    fails = []
    if not status_wf(c):
        return fails
    if not impl_line.startswith("OK"):
        fails.append("shipped template %s fails to render for a group status a notifier can receive (%s)" % (c["template"], impl_line))
    elif c["template"] in JSON_TEMPLATES and json_safe(c) and impl_line != "OK json=1":
        fails.append("shipped template %s renders to malformed JSON for JSON-safe names" % c["template"])
    return fails


def describe(c):
    return {"template": c["template"], "stateGood": c["good"], "status": STATUS.get(c["status"], str(c["status"])),
            "partitions": len(c["partitions"] or []), "maxlag": c["maxlag"] is not None,
            "extras": None if c["extras"] is None else len(c["extras"]),
            "status_wf": status_wf(c), "json_safe": json_safe(c)}


# ---------------------------------------------------------------------------------------------
# "conf" cases: the real Coordinator.Configure on a generated notifier section
#   conf <reps> <#modules> {<name> <class> <open file> <close file> <send-close> <#extras> {<key> <value>}}
#        <cluster> <group> <id> <start> <status> ... (the rest as in a render case)
# ---------------------------------------------------------------------------------------------
CLASSES = ["http", "http", "email", "null"]     # slack notifications are sent by the http class with the slack templates
EXTRA_KEYS = ["api_key", "app", "tier", "foo"]  # viper lower-cases keys


def gen_conf(rng, templates, mode="wf", reps=5):
    c = gen_case(rng, TEMPLATES[0], mode)
    c["kind"] = "conf"
    c["reps"] = reps
    n = rng.choice([1, 2, 2, 3, 3, 4])
    names = rng.sample(["pager", "chat", "mail", "audit", "m1", "zz"], n)
    shared = rng.choice(templates)
    mods = []
    for nm in names:
        r = rng.random()
        if r < 0.35:      # the pairs the shipped configuration examples use
            o, cl = rng.choice([("default-http-post.tmpl", "default-http-delete.tmpl"),
                                ("default-slack-post.tmpl", "default-slack-delete.tmpl"),
                                ("default-email.tmpl", "default-email.tmpl")])
        elif r < 0.6:     # several modules sharing a file
            o, cl = (shared, rng.choice(templates)) if rng.random() < 0.5 else (rng.choice(templates), shared)
        else:             # every combination
            o, cl = rng.choice(templates), rng.choice(templates)
        keys = rng.sample(EXTRA_KEYS, rng.randrange(0, 4))
        mods.append({"name": nm, "class": rng.choice(CLASSES), "open": o, "close": cl,
                     "send_close": 1 if rng.random() < 0.65 else 0,
                     "extras": [(k, gen_name(rng, mode == "names")) for k in keys]})
    c["mods"] = mods
    return c


def fmt_conf(c):
    out = ["conf", str(c["reps"]), str(len(c["mods"]))]
    for m in c["mods"]:
        out += [m["name"], m["class"], m["open"], m["close"], str(m["send_close"]), str(len(m["extras"]))]
        for k, v in m["extras"]:
            out += [hx(k), hx(v)]
    tail = fmt_case(c).split(" ")
    # render <tmpl> <good> <cluster> <group> <id> <start> <#extras|-1> {k v} <status> ...
    head, rest = tail[3:7], tail[7:]
    n = int(rest[0])
    rest = rest[1 + 2 * max(n, 0):]
    return " ".join(out + head + rest)


def parse_conf(line):
    t = _Toks(line)
    assert t.next() == "conf"
    c = {"kind": "conf", "reps": int(t.next()), "mods": []}
    for _ in range(int(t.next())):
        m = {"name": t.next(), "class": t.next(), "open": t.next(), "close": t.next(), "send_close": int(t.next())}
        m["extras"] = [(unhx(t.next()), unhx(t.next())) for _ in range(int(t.next()))]
        c["mods"].append(m)
    c["cluster"], c["group"], c["id"], c["start"] = unhx(t.next()), unhx(t.next()), unhx(t.next()), int(t.next())
    c["status"] = int(t.next())
    c["complete"] = t.next()
    c["total_partitions"] = int(t.next())
    c["total_lag"] = int(t.next())
    c["maxlag"] = _partition(t)
    n = int(t.next())
    c["partitions"] = None if n < 0 else [_partition(t) for _ in range(n)]
    c["template"] = "(configured)"
    c["good"] = 0
    c["extras"] = None
    return c


def conf_oracle(c, impl_line):
    """C20 on what the coordinator really executes: every configured module must execute the template its
    template-open / template-close key names (on every one of the repeated Configure runs), and those renderings
    must satisfy the render oracle."""
    fails = []
    if "MISMATCH" in impl_line or impl_line.startswith("CONFIGURE-PANIC"):
        return ["the template a module executes is not the one its configuration names: " + impl_line]
    parts = impl_line.split(" | ")
    mods = sorted(c["mods"], key=lambda m: m["name"])
    if len(parts) != len(mods):
        return ["unexpected probe output: " + impl_line]
    for m, p in zip(mods, parts):
        f = p.split(" ")
        try:
            o = p[p.index(" open=") + 6:p.index(" close=")]
            cl = p[p.index(" close=") + 7:]
        except ValueError:
            fails.append("unexpected probe output for module %s: %s" % (m["name"], p))
            continue
        for kind, file, verdict in (("open", m["open"], o), ("close", m["close"], cl)):
            if kind == "close" and not m["send_close"]:
                continue
            cc = dict(c)
            cc["template"], cc["extras"] = file, m["extras"]
            fails += ["module %s (%s): %s" % (m["name"], kind, x) for x in oracle(cc, verdict)]
    return fails


def describe_conf(c):
    d = describe(c)
    d.pop("template", None)
    d.pop("stateGood", None)
    d.pop("extras", None)
    d["modules"] = [{k: m[k] for k in ("name", "class", "open", "close", "send_close")} | {"extras": len(m["extras"])}
                    for m in c["mods"]]
    d["configure_runs"] = c["reps"] + 1
    return d


# ---------------------------------------------------------------------------------------------
# "seq" cases: sequences of evaluator replies through the real checkAndSendResponseToModules / Notify
#   seq <#modules> {<name> <class> <open file> <close file> <send-close> <#extras> {<key> <value>}} <clock0 s> <#steps>
#       <cluster> <group0> <group1> {<dt s> <group index> <status> <complete> <total> <totallag> <maxlag> <#parts> parts}
# ---------------------------------------------------------------------------------------------
RESERVED_VALUES = ["Zm9v/YmFy+cQ==", "a b&c=d:e", "100% sure?", "k1=v1;k2=v2", "x+y z", "tier:1/2", "#hash&amp;", "plain"]


def gen_seq(rng, templates):
    c = {"kind": "seq", "mode": "seq", "template": "(sequence)", "good": 0, "extras": None}
    n = rng.choice([1, 2, 2, 3])
    names = rng.sample(["pager", "chat", "mail", "audit"], n)
    mods = []
    for nm in names:
        cls = rng.choice(["http", "http", "email"])
        if cls == "email":
            o, cl = "default-email.tmpl", "default-email.tmpl"
        else:
            o, cl = rng.choice([("default-http-post.tmpl", "default-http-delete.tmpl"),
                                ("default-slack-post.tmpl", "default-slack-delete.tmpl"),
                                ("default-http-post.tmpl", "default-http-post.tmpl")])
        if cls == "http" and rng.random() < 0.15:      # (an email module needs a template that starts with a Subject line)
            o, cl = rng.choice(templates), rng.choice(templates)
        keys = rng.sample(EXTRA_KEYS, rng.randrange(1, 4))
        mods.append({"name": nm, "class": cls, "open": o, "close": cl, "send_close": 1 if rng.random() < 0.75 else 0,
                     "extras": [(k, rng.choice(RESERVED_VALUES)) for k in keys]})
    if "api_key" not in [k for k, _ in mods[0]["extras"]]:
        mods[0]["extras"].append(("api_key", rng.choice(RESERVED_VALUES[:5])))
    c["mods"] = mods
    c["clock0"] = rng.choice([1500000000, 1700000000, rng.randrange(10**9, 2 * 10**9)])
    c["cluster"] = "cluster-" + str(rng.randrange(10))
    c["groups"] = ["group-a%d" % rng.randrange(100), "group-b%d" % rng.randrange(100)]
    pattern = rng.choice([[(0, "bad"), (0, "bad"), (0, "ok")], [(0, "bad"), (1, "bad"), (0, "bad"), (0, "ok")],
                          [(0, "bad"), (0, "bad")], [(0, "bad"), (0, "ok"), (0, "bad"), (0, "bad")],
                          [(1, "bad"), (0, "bad"), (1, "bad"), (1, "ok")], [(0, "ok"), (0, "bad"), (0, "bad")]])
    steps = []
    for g, what in pattern:
        st = gen_case(rng, TEMPLATES[0], "close" if what == "ok" else "wf")
        st["status"] = 1 if what == "ok" else rng.choice([2, 3, 3])
        if what == "ok":
            st["partitions"], st["maxlag"] = [], None
        st["dt"] = rng.choice([1, 5, 61, 3600])
        st["g"] = g
        steps.append(st)
    c["steps"] = steps
    return c


def _status_tail(st):
    tail = fmt_case(st).split(" ")[7:]
    n = int(tail[0])
    return tail[1 + 2 * max(n, 0):]


def fmt_seq(c):
    out = ["seq", str(len(c["mods"]))]
    for m in c["mods"]:
        out += [m["name"], m["class"], m["open"], m["close"], str(m["send_close"]), str(len(m["extras"]))]
        for k, v in m["extras"]:
            out += [hx(k), hx(v)]
    out += [str(c["clock0"]), str(len(c["steps"])), hx(c["cluster"]), hx(c["groups"][0]), hx(c["groups"][1])]
    for st in c["steps"]:
        out += [str(st["dt"]), str(st["g"])] + _status_tail(st)
    return " ".join(out)


def parse_seq(line):
    t = _Toks(line)
    assert t.next() == "seq"
    c = {"kind": "seq", "mods": [], "template": "(sequence)", "good": 0, "extras": None}
    for _ in range(int(t.next())):
        m = {"name": t.next(), "class": t.next(), "open": t.next(), "close": t.next(), "send_close": int(t.next())}
        m["extras"] = [(unhx(t.next()), unhx(t.next())) for _ in range(int(t.next()))]
        c["mods"].append(m)
    c["clock0"], nsteps = int(t.next()), int(t.next())
    c["cluster"] = unhx(t.next())
    c["groups"] = [unhx(t.next()), unhx(t.next())]
    c["steps"] = []
    for _ in range(nsteps):
        st = {"dt": int(t.next()), "g": int(t.next()), "status": int(t.next()), "complete": t.next(),
              "total_partitions": int(t.next()), "total_lag": int(t.next())}
        st["maxlag"] = _partition(t)
        n = int(t.next())
        st["partitions"] = None if n < 0 else [_partition(t) for _ in range(n)]
        c["steps"].append(st)
    c["status"] = c["steps"][0]["status"]
    c["partitions"] = [p for st in c["steps"] for p in (st["partitions"] or [])]
    c["maxlag"] = None
    return c


def seq_expected(c):
    """The notifications the configuration and the sequence call for (threshold 2, send-interval 0, no send-once)."""
    mods = sorted(c["mods"] + [{"name": "zzfields", "class": "http", "open": None, "close": None, "send_close": 1,
                                "extras": c["mods"][0]["extras"] if c["mods"] else []}], key=lambda m: m["name"])
    active, out = set(), []
    for i, st in enumerate(c["steps"]):
        good = st["status"] == 1
        if not good and st["status"] > 1:
            active.add(st["g"])
        for m in mods:
            if good and st["g"] in active and m["send_close"]:
                out.append((i, m, "close"))
            elif not good and st["status"] >= 2:
                out.append((i, m, "open"))
        if good:
            active.discard(st["g"])
    return out


def seq_oracle(c, impl_line):
    """From the configuration and the sequence alone: every notification the sequence calls for is sent once, its body is
    the configured template on the configured extras (verbatim), the reply, the incident's id and the time the incident
    was opened - and renders (to well-formed JSON for the HTTP / Slack templates)."""
    if "MISMATCH" in impl_line or impl_line.startswith("SEQ-"):
        bad = [e for e in impl_line.split(" | ") if "MISMATCH" in e or e.startswith("SEQ-")]
        return ["what a module hands to its template is not the configured / incident data: " + bad[0][:400]]
    entries = [e for e in impl_line.split(" | ") if e]
    exp = seq_expected(c)
    if len(entries) != len(exp):
        return ["%d notifications observed, the sequence calls for %d: %s" % (len(entries), len(exp), impl_line[:300])]
    fails = []
    for e, (i, m, kind) in zip(entries, exp):
        head = "s%d %s %s " % (i, m["name"], kind)
        if not e.startswith(head):
            fails.append("expected %s..., observed %s" % (head, e[:80]))
            continue
        verdict = e[len(head):]
        if m["name"] == "zzfields":
            if verdict != "FIELDS-OK":
                fails.append("module zzfields: " + verdict[:200])
            continue
        st = c["steps"][i]
        cc = dict(st)
        cc.update({"template": m[kind], "extras": m["extras"], "cluster": c["cluster"], "group": c["groups"][st["g"]], "id": b"id"})
        fails += ["step %d module %s (%s): %s" % (i, m["name"], kind, x) for x in oracle(cc, verdict)]
    return fails


def describe_seq(c):
    return {"modules": [{k: m[k] for k in ("name", "class", "open", "close", "send_close")} |
                        {"extras": {k.decode() if isinstance(k, bytes) else k: v.decode() if isinstance(v, bytes) else v
                                    for k, v in m["extras"]}} for m in c["mods"]],
            "cluster": c["cluster"].decode() if isinstance(c["cluster"], bytes) else c["cluster"],
            "groups": [g.decode() if isinstance(g, bytes) else g for g in c["groups"]], "clock0": c["clock0"],
            "steps": [{"dt": st["dt"], "group": st["g"], "status": STATUS.get(st["status"], str(st["status"])),
                       "partitions": len(st["partitions"] or [])} for st in c["steps"]]}


# ---------------------------------------------------------------------------------------------
# "hcall" cases: the value a documented helper returns (hcall <helper> + the rest of a render line)
# ---------------------------------------------------------------------------------------------
HELPERS = ["topicsbystatus", "topicsbystatus", "partitioncounts", "maxlag", "arith"]
TOPIC_POOL = ["orders", "payments", "audit-log", "t3"]


def gen_hcall(rng):
    """Statuses whose partitions come from a few topics in several states: a topic usually has partitions in two or more
    different states (orders:0 STOP, orders:1 STALL ...), sometimes several in the same state."""
    c = gen_case(rng, TEMPLATES[0], "wf")
    c["kind"], c["mode"] = "hcall", "hcall"
    c["helper"] = rng.choice(HELPERS)
    n = rng.choice([0, 1, 2, 3, 4, 6, 8])
    topics = rng.sample(TOPIC_POOL, rng.randrange(1, 4))
    parts = []
    for i in range(n):
        p = gen_partition(rng, False, status=rng.choice([2, 4, 5, 6, 4, 5, 1, 3, 100, -1]))
        p["topic"], p["partition"] = rng.choice(topics), i
        parts.append(p)
    c["partitions"] = parts
    c["maxlag"] = rng.choice(parts) if parts and rng.random() < 0.8 else (gen_partition(rng, False, status=1) if rng.random() < 0.3 else None)
    c["total_partitions"] = rng.choice([0, 1, 6, 7, 8, 13, 1000, n])
    return c


def fmt_hcall(c):
    return "hcall " + c["helper"] + " " + fmt_case(c)[len("render "):]


def parse_hcall(line):
    f = line.split(" ", 2)
    c = parse("render " + f[2])
    c["kind"], c["helper"] = "hcall", f[1]
    return c


def _godiv(a, b):
    q = abs(a) // abs(b)
    return q if (a >= 0) == (b >= 0) else -q


def hcall_expected(c):
    """The documented meaning, from the status alone."""
    parts = [p for p in (c["partitions"] or [])]
    h = c["helper"]
    if any(p is None for p in parts):
        return None
    if h == "topicsbystatus":
        m = {}
        for p in parts:
            m.setdefault(STATUS.get(p["status"], "UNKNOWN"), set()).add(p["topic"].decode() if isinstance(p["topic"], bytes) else p["topic"])
        return "OK " + ";".join(sorted("%s=%s" % (k, ",".join(sorted(v))) for k, v in m.items()))
    if h == "partitioncounts":
        key = {2: "warn", 4: "stop", 5: "stall", 6: "rewind"}
        m = {"warn": 0, "stop": 0, "stall": 0, "rewind": 0, "unknown": 0}
        for p in parts:
            if p["status"] != 1:
                m[key.get(p["status"], "unknown")] += 1
        return "OK " + ";".join(sorted("%s=%d" % kv for kv in m.items()))
    if h == "maxlag":
        return "OK %d" % (c["maxlag"]["lag"] if c["maxlag"] is not None else 0)
    a = c["total_partitions"]
    return "OK %d %d %d %d" % (a + 7, a - 7, a * 7, _godiv(a, 7))


def hcall_oracle(c, impl_line):
    want = hcall_expected(c)
    if want is None or impl_line == want:
        return []
    return ["the documented helper %s does not return its documented value for this status: got %r, documented %r"
            % (c["helper"], impl_line[:300], want[:300])]


def describe_hcall(c):
    d = describe(c)
    d["helper"] = c["helper"]
    d["listed"] = ["%s:%d %s" % (p["topic"].decode() if isinstance(p["topic"], bytes) else p["topic"], p["partition"],
                                  STATUS.get(p["status"], str(p["status"]))) for p in (c["partitions"] or []) if p]
    return d


def parse_any(line):
    if line.startswith("hcall "):
        return parse_hcall(line)
    if line.startswith("seq "):
        return parse_seq(line)
    return parse_conf(line) if line.startswith("conf ") else parse(line)


def oracle_any(c, impl_line):
    if c.get("kind") == "hcall":
        return hcall_oracle(c, impl_line)
    if c.get("kind") == "seq":
        return seq_oracle(c, impl_line)
    return conf_oracle(c, impl_line) if c.get("kind") == "conf" else oracle(c, impl_line)


def describe_any(c):
    if c.get("kind") == "hcall":
        return describe_hcall(c)
    if c.get("kind") == "seq":
        return describe_seq(c)
    return describe_conf(c) if c.get("kind") == "conf" else describe(c)


# ---------------------------------------------------------------------------------------------
# concurrent stream: render cases inside the property's domain whose group / topic / owner names are distinct per
# case, so that output leaking from one rendering into another is visible
# ---------------------------------------------------------------------------------------------
def gen_conc_batch(rng, templates, per_template):
    cases = []
    for tmpl in templates:
        for _ in range(per_template):
            c = gen_case(rng, tmpl, "wf")
            i = len(cases)
            c["cluster"] = "cluster-%d" % (i % 7)
            c["group"] = "group-%d" % i
            c["id"] = "event-%04d" % i
            if not c["partitions"] and rng.random() < 0.6:     # most cases carry partitions: they go through jsonencoder
                c["partitions"] = [gen_partition(rng, False) for _ in range(rng.randrange(1, 6))]
                c["maxlag"] = c["partitions"][0]
            seen = []
            for k, p in enumerate((c["partitions"] or []) + [c["maxlag"]]):
                if p is not None and not any(p is q for q in seen):
                    seen.append(p)
                    p["topic"], p["owner"], p["client"] = "topic-%d-%d" % (i, k), "owner-%d-%d" % (i, k), "client-%d" % i
            c["mode"] = "conc"
            cases.append(c)
    rng.shuffle(cases)
    return cases


def conc_oracle(c, impl_line):
    """Every concurrent rendering must equal the sequential rendering of the same case byte for byte, and that
    rendering must satisfy the render oracle."""
    if impl_line.startswith("SAME "):
        return oracle(c, impl_line[5:])
    return ["rendered concurrently (as the coordinator does), the case does not give its sequential output: " + impl_line[:300]]
