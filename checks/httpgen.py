"""Case generators and the property oracles for the HTTP layer (C16, C18).

One case = one text line (see probes/http/verif_http_probe_test.go and ocaml/drv_http.ml):

  req METHOD RAWPATH_HEX DECODED_HEX BODYKIND READY OVERRIDE C <cfg-tree> W <world>
  leak SEED_A SEED_B C <cfg-tree with `L p i` password leaves> Q n (METHOD RAWPATH_HEX)*

cfg-tree:  L s HEX | L n INT | L b 0/1 | L l n HEX* | L p IDX | N n (KEYHEX tree)*
world:     n ( NAMEHEX  nt (TOPICHEX no OFF*)*  ng (GROUPHEX STATUS FINITE)* )*
"""
import urllib.parse

ROUTES = [
    ("GET", "/burrow/admin"), ("GET", "/burrow/admin/ready"), ("GET", "/metrics"),
    ("GET", "/v3/kafka"), ("GET", "/v3/kafka/:cluster"), ("GET", "/v3/kafka/:cluster/topic"),
    ("GET", "/v3/kafka/:cluster/topic/:topic"), ("GET", "/v3/kafka/:cluster/topic/:topic/consumers"),
    ("GET", "/v3/kafka/:cluster/consumer"), ("GET", "/v3/kafka/:cluster/consumer/:consumer"),
    ("GET", "/v3/kafka/:cluster/consumer/:consumer/status"), ("GET", "/v3/kafka/:cluster/consumer/:consumer/lag"),
    ("GET", "/v3/config"), ("GET", "/v3/config/storage"), ("GET", "/v3/config/storage/:name"),
    ("GET", "/v3/config/evaluator"), ("GET", "/v3/config/evaluator/:name"),
    ("GET", "/v3/config/cluster"), ("GET", "/v3/config/cluster/:cluster"),
    ("GET", "/v3/config/consumer"), ("GET", "/v3/config/consumer/:name"),
    ("GET", "/v3/config/notifier"), ("GET", "/v3/config/notifier/:name"),
    ("DELETE", "/v3/kafka/:cluster/consumer/:consumer"),
    ("DELETE", "/v3/kafka/:cluster/consumer/:consumer/topic/:topic"),
    ("GET", "/v3/admin/loglevel"), ("POST", "/v3/admin/loglevel"),
]
V3 = [r for r in ROUTES if r[1].startswith("/v3")]
CONFIG_DETAIL = {"/v3/kafka/:cluster": "cluster", "/v3/config/cluster/:cluster": "cluster",
                 "/v3/config/storage/:name": "storage", "/v3/config/evaluator/:name": "evaluator",
                 "/v3/config/consumer/:name": "consumer", "/v3/config/notifier/:name": "notifier"}
FETCH_TYPES = {5, 6, 7, 8, 9, 11}
STATUS = ["NOTFOUND", "OK", "WARN", "ERR", "STOP", "STALL", "REWIND"]


def hx(b):
    if isinstance(b, str):
        b = b.encode()
    return b.hex() if b else "-"


def unhx(h):
    return b"" if h == "-" else bytes.fromhex(h)


KELVIN = "\u212a".encode()        # U+212A KELVIN SIGN: strings.ToLower gives 'k'
DOTTED_I = "\u0130".encode()      # U+0130 LATIN CAPITAL LETTER I WITH DOT ABOVE: strings.ToLower gives 'i'


def go_lower(b):
    """strings.ToLower(b) as far as a comparison with ASCII strings can tell (Http.go_lower): ASCII letters, and the only
    two non-ASCII code points whose lower case is ASCII.  (Python's str.lower differs: it maps U+0130 to 'i' + U+0307.)"""
    if isinstance(b, str):
        b = b.encode()
    return b.replace(KELVIN, b"k").replace(DOTTED_I, b"i").lower()      # bytes.lower: ASCII only


def ascii_keys_lower(d):
    return {k.lower().encode() for k in d}


# ------------------------------------------------------------------------------------------------
# configuration trees (python: dict = Node, ("s", str) / ("n", int) / ("b", bool) / ("l", [str]) / ("p", idx) = Leaf)
# ------------------------------------------------------------------------------------------------

def tree_tokens(t):
    if isinstance(t, dict):
        out = ["N", str(len(t))]
        for k, v in t.items():
            out.append(hx(k))
            out += tree_tokens(v)
        return out
    kind, v = t
    if kind == "s":
        return ["L", "s", hx(v)]
    if kind == "n":
        return ["L", "n", str(v)]
    if kind == "b":
        return ["L", "b", "1" if v else "0"]
    if kind == "l":
        return ["L", "l", str(len(v))] + [hx(x) for x in v]
    if kind == "p":
        return ["L", "p", str(v)]
    raise ValueError(kind)


NAME_POOL = ["local", "c1", "c2", "prod-east", "Mixed", "default", "n1", "mail", "hook", "slk", "zk_1", "a", "x"]
CLASSES = ["http", "email", "slack", "null"]


def pick_names(rng, lo, hi):
    n = rng.randint(lo, hi)
    out = []
    for nm in rng.sample(NAME_POOL, min(len(NAME_POOL), n + 2)):
        if nm.lower() not in [o.lower() for o in out] and len(out) < n:
            out.append(nm)
    return out


class PwCounter:
    def __init__(self):
        self.n = 0

    def leaf(self):
        self.n += 1
        return ("p", self.n)


def gen_config(rng, pw=None, rich=False):
    """A Burrow-shaped configuration.  pw: PwCounter -> password leaves are emitted as tokens (`L p i`)."""
    def password():
        return pw.leaf() if pw else ("s", "hunter2-" + str(rng.randint(0, 999)))

    cfg = {}
    if rng.random() < 0.8:
        cfg["general"] = {"pidfile": ("s", "burrow.pid"), "stdout-logfile": ("s", "burrow.out")}
        if rng.random() < 0.5:
            cfg["general"]["access-control-allow-origin"] = ("s", "*")
    if rng.random() < 0.6:
        cfg["logging"] = {"filename": ("s", "logs/burrow.log"), "level": ("s", "info"), "maxsize": ("n", 100),
                          "use-compression": ("b", True)}
    if rng.random() < 0.6:
        cfg["zookeeper"] = {"servers": ("l", ["zk1:2181", "zk2:2181"]), "timeout": ("n", 6), "root-path": ("s", "/burrow")}
    if rng.random() < 0.4:
        cfg["httpserver"] = {nm: {"address": ("s", ":0"), "timeout": ("n", 30)} for nm in pick_names(rng, 1, 2)}
    sasl = pick_names(rng, 0, 2) if not rich else pick_names(rng, 1, 3)
    tls = pick_names(rng, 0, 2)
    if sasl:
        cfg["sasl"] = {nm: {"username": ("s", "user-" + nm), "password": password(), "handshake-first": ("b", True)}
                       for nm in sasl}
    if tls:
        cfg["tls"] = {nm: {"certfile": ("s", "/c/" + nm + ".crt"), "keyfile": ("s", "/c/" + nm + ".key"),
                           "cafile": ("s", "/c/ca.crt"), "noverify": ("b", False)} for nm in tls}
    profiles = pick_names(rng, 0, 3) if not rich else pick_names(rng, 1, 3)
    if profiles:
        cfg["client-profile"] = {}
        for nm in profiles:
            p = {"client-id": ("s", "burrow-" + nm), "kafka-version": ("s", "2.8.0")}
            if sasl and rng.random() < 0.8:
                p["sasl"] = ("s", rng.choice(sasl))
            elif rng.random() < 0.2:
                p["sasl"] = ("s", "missing.profile")
            if tls and rng.random() < 0.6:
                p["tls"] = ("s", rng.choice(tls))
            cfg["client-profile"][nm] = p
    cfg["storage"] = {nm: {"class-name": ("s", "inmemory"), "intervals": ("n", rng.randint(1, 20)),
                           "min-distance": ("n", 1), "expire-group": ("n", 604800)} for nm in pick_names(rng, 1, 2)}
    cfg["evaluator"] = {nm: {"class-name": ("s", "caching"), "expire-cache": ("n", 10)} for nm in pick_names(rng, 1, 1)}
    clusters = pick_names(rng, 1, 3)
    cfg["cluster"] = {}
    for nm in clusters:
        c = {"class-name": ("s", "kafka"), "servers": ("l", ["k1:9092", "k2:9092"]), "topic-refresh": ("n", 60),
             "offset-refresh": ("n", 30)}
        if profiles and rng.random() < 0.8:
            c["client-profile"] = ("s", rng.choice(profiles))
        cfg["cluster"][nm] = c
    consumers = pick_names(rng, 0, 3)
    if consumers:
        cfg["consumer"] = {}
        for nm in consumers:
            c = {"class-name": ("s", rng.choice(["kafka", "kafka_zk"])), "cluster": ("s", rng.choice(clusters)),
                 "servers": ("l", ["k1:9092"]), "start-latest": ("b", True)}
            if profiles and rng.random() < 0.8:
                c["client-profile"] = ("s", rng.choice(profiles))
            cfg["consumer"][nm] = c
    notifiers = pick_names(rng, 0, 4) if not rich else pick_names(rng, 2, 4)
    if notifiers:
        cfg["notifier"] = {}
        for i, nm in enumerate(notifiers):
            cls = CLASSES[i % 4] if rich else rng.choice(CLASSES)
            n = {"class-name": ("s", cls), "interval": ("n", 60), "threshold": ("n", 2), "send-close": ("b", True),
                 "template-open": ("s", "conf/open.tmpl"), "template-close": ("s", "conf/close.tmpl")}
            if rng.random() < 0.5:
                n["extras"] = {"api_key": ("s", "REDACTED"), "app": ("s", "burrow")}
            if cls == "http":
                n.update({"url-open": ("s", "http://h/open"), "url-close": ("s", "http://h/close"),
                          "method-open": ("s", "POST"), "username": ("s", "hookuser"), "password": password()})
            elif cls == "email":
                n.update({"server": ("s", "smtp.example"), "port": ("n", 587), "auth-type": ("s", "plain"),
                          "username": ("s", "mailuser"), "password": password(), "from": ("s", "a@b"), "to": ("s", "c@d")})
            elif cls == "slack":
                n.update({"channel": ("s", "#ops"), "username": ("s", "burrow"), "icon-emoji": ("s", ":x:")})
                if rng.random() < 0.3:
                    n["password"] = password()      # not used by slack, still a password key of a notifier
            cfg["notifier"][nm] = n
    return cfg


def gen_world(rng, cfg):
    names = list(cfg.get("cluster", {}).keys())
    ws = []
    for nm in rng.sample(names, rng.randint(0, len(names))) + (["storage-only"] if rng.random() < 0.3 else []):
        topics = [(t, [rng.randint(0, 10 ** 6) for _ in range(rng.randint(0, 3))])
                  for t in rng.sample(["t1", "orders", "Logs", "a.b", "t 2"], rng.randint(0, 3))]
        groups = [(g, rng.randint(1, 6), True)
                  for g in rng.sample(["g1", "billing", "Group", "g.x", "g 2"], rng.randint(0, 3))]
        ws.append((nm, topics, groups))
    return ws


def world_tokens(ws):
    out = [str(len(ws))]
    for nm, topics, groups in ws:
        out += [hx(nm), str(len(topics))]
        for t, offs in topics:
            out += [hx(t), str(len(offs))] + [str(o) for o in offs]
        out.append(str(len(groups)))
        for g, st, fin in groups:
            out += [hx(g), str(st), "1" if fin else "0"]
    return out


# ------------------------------------------------------------------------------------------------
# parameter pool
# ------------------------------------------------------------------------------------------------

LONG = b"L" * 4096


def param_pool(rng, existing):
    """(class, bytes) candidates for one path parameter; `existing` = names that exist for this parameter."""
    out = []
    for nm in existing:
        b = nm.encode()
        out.append(("existing", b))
        out.append(("upper", b.upper()))
        out.append(("lowered", b.lower()))
        if any(c in b for c in b"kKiI"):
            # viper compares names with Go's Unicode lower-casing: these spell the same module name
            out.append(("unicode-case", b.replace(b"k", KELVIN).replace(b"K", KELVIN)))
            out.append(("unicode-case", b.replace(b"i", DOTTED_I).replace(b"I", DOTTED_I)))
            out.append(("unicode-case", b.replace(b"k", KELVIN[:2]).replace(b"i", DOTTED_I[:1])))      # truncated: not the name
        out.append(("near-miss", b + b"x"))
        if len(b) > 1:
            out.append(("near-miss", b[:-1]))
        out.append(("dotted", b + b".class-name"))
        out.append(("dotted", b + b".intervals"))
        out.append(("dotted", b + b".servers"))
        out.append(("dotted", b + b".password"))
        out.append(("dotted", b + b"."))
        out.append(("dotted", b"." + b))
        out.append(("space", b + b" "))
        out.append(("space", b" " + b))
        out.append(("nul", b + b"\x00"))
        out.append(("slash", b + b"/" + b))
    out += [("space", b" "), ("space", b"a b"), ("long", LONG), ("long", LONG + b".x"),
            ("unicode", "café".encode()), ("unicode", "クラスタ".encode()), ("unicode", "ÉCOLE".encode()),
            ("invalid-utf8", b"\xff\xfe"), ("invalid-utf8", b"c1\xc3"),
            ("unicode-case", KELVIN), ("unicode-case", DOTTED_I), ("unicode-case", b"hoo" + KELVIN), ("unicode-case", b"ma" + DOTTED_I + b"l"),
            ("unicode-case", b"sl" + KELVIN), ("unicode-case", b"z" + KELVIN + b"_1"), ("unicode-case", b"M" + DOTTED_I + b"xed"),
            ("unicode-case", b"\xc3" + KELVIN), ("unicode-case", "\u017f".encode() + b"lk"),
            ("slash", b"a/b"), ("slash", b"/"), ("nul", b"\x00"), ("nul", b"a\x00b"),
            ("dotted", b"."), ("dotted", b".."), ("dotted", b"x.y"), ("dotted", b"storage.local"),
            ("percent", b"%"), ("percent", b"%2F"), ("percent", b"a%20b"), ("other", b"nosuchname"), ("other", b"0"),
            ("other", b"-"), ("other", b"?x=1"), ("other", b"#frag"), ("other", b"a+b"), ("other", b";"), ("other", b"*")]
    return out


def escape(b):
    return urllib.parse.quote_from_bytes(b, safe="")


def build_path(pattern, values):
    """pattern with :params -> (raw escaped path, decoded bytes)."""
    raw, dec, i = [], [], 0
    for seg in pattern.split("/")[1:]:
        if seg.startswith(":"):
            raw.append(escape(values[i]))
            dec.append(values[i])
            i += 1
        else:
            raw.append(seg)
            dec.append(seg.encode())
    return "/" + "/".join(raw), b"/" + b"/".join(dec)


def match(method, decoded):
    """httprouter's choice for (method, decoded path) over ROUTES: (route index, {param: bytes}) or None.
    (A parameter takes a whole path segment; an empty value only when more of the path follows.)"""
    if not decoded.startswith(b"/"):
        return None
    segs = decoded[1:].split(b"/")
    for idx, (m, pat) in enumerate(ROUTES):
        if m != method:
            continue
        ps = pat.split("/")[1:]
        if len(ps) != len(segs):
            continue
        params, ok = {}, True
        for j, (p, s) in enumerate(zip(ps, segs)):
            if p.startswith(":"):
                if s == b"" and j == len(segs) - 1:
                    ok = False
                    break
                params[p[1:]] = s
            elif p.encode() != s:
                ok = False
                break
        if ok:
            return idx, params
    return None


# ------------------------------------------------------------------------------------------------
# C16 cases
# ------------------------------------------------------------------------------------------------

def existing_for(param, pattern, cfg, world):
    if pattern in CONFIG_DETAIL:
        return list(cfg.get(CONFIG_DETAIL[pattern], {}).keys())
    if param == "cluster":
        return [w[0] for w in world] or list(cfg.get("cluster", {}).keys())[:1]
    if param == "topic":
        return sorted({t for w in world for t, _ in w[1]})
    if param == "consumer":
        return sorted({g for w in world for g, _, _ in w[2]})
    return []


def req_line(method, raw, decoded, body, ready, override, cfg, world, kind="req"):
    return " ".join([kind, method, hx(raw), hx(decoded), body, "1" if ready else "0", str(override), "C"]
                    + tree_tokens(cfg) + ["W"] + world_tokens(world))


def gen_routed(rng, i, cfg, world, route=None):
    """A request built from a registered pattern with parameters from the pool."""
    method, pattern = route or V3[i % len(V3)]
    names = [s[1:] for s in pattern.split("/") if s.startswith(":")]
    values, classes = [], []
    for k, pn in enumerate(names):
        pool = param_pool(rng, existing_for(pn, pattern, cfg, world))
        # mostly keep earlier parameters real so that the later ones decide the outcome
        if k < len(names) - 1 and rng.random() < 0.7:
            ex = [p for p in pool if p[0] == "existing"]
            cls, v = rng.choice(ex) if ex else rng.choice(pool)
        elif rng.random() < 0.35:
            ex = [p for p in pool if p[0] == "existing"]
            cls, v = rng.choice(ex) if ex else rng.choice(pool)
        else:
            cls, v = rng.choice(pool)
        values.append(v)
        classes.append(cls)
    raw, dec = build_path(pattern, values)
    body = "-"
    if method == "POST":
        body = str(rng.randint(0, 2))
    override = 0
    r = rng.random()
    if r < 0.04:
        override = rng.choice([1, 2, 3, 4])
    ready = rng.random() < 0.5
    return req_line(method, raw, dec, body, ready, override, cfg, world), \
        {"kind": "routed", "route": pattern, "method": method, "classes": classes or ["none"], "override": override}


def gen_unrouted(rng, cfg, world):
    method, pattern = rng.choice([r for r in ROUTES if r[1] != "/metrics"])     # /metrics belongs to C17
    names = [s for s in pattern.split("/") if s.startswith(":")]
    raw, dec = build_path(pattern, [rng.choice([b"c1", b"local", b"x", b"g1"]) for _ in names])
    m = rng.randint(0, 11)
    if m == 0:
        raw, dec = raw + "/", dec + b"/"
    elif m == 1:
        raw, dec = raw.upper(), dec.upper()
    elif m == 2:
        raw, dec = raw + "/extra", dec + b"/extra"
    elif m == 3:
        raw, dec = raw.rsplit("/", 1)[0] or "/", dec.rsplit(b"/", 1)[0] or b"/"
    elif m == 4:
        method = rng.choice(["POST", "PUT", "PATCH", "HEAD", "OPTIONS", "DELETE", "GET", "TRACE"])
    elif m == 5:
        raw = dec = "/" + "/".join(rng.choice(["v3", "v2", "kafka", "config", "x", "..", ".", "%20", "admin", "burrow"])
                                   for _ in range(rng.randint(0, 5)))
        dec = urllib.parse.unquote_to_bytes(raw)
    elif m == 6:
        raw, dec = raw.replace("/v3/", "/v3//", 1), dec.replace(b"/v3/", b"/v3//", 1)
    elif m == 7:
        raw, dec = raw.replace("/v3/", "/v4/", 1), dec.replace(b"/v3/", b"/v4/", 1)
    elif m == 8:
        raw, dec = raw + "%2Fx", dec + b"/x"
    elif m == 9:
        raw = dec = rng.choice(["/", "/v3", "/v3/", "/favicon.ico", "/v3/kafka/", "/v3/config/", "/burrow", "/metrics/"])
        dec = raw.encode()
    elif m == 10:
        raw, dec = "/v3/../v3" + raw[3:], b"/v3/../v3" + dec[3:]
    elif m == 11:
        raw, dec = raw.replace("/", "//", 2), dec.replace(b"/", b"//", 2)
    body = "-" if method != "POST" else str(rng.randint(0, 2))
    return req_line(method, raw, dec, body, True, 0, cfg, world), \
        {"kind": "stream", "route": pattern, "method": method, "classes": ["mut%d" % m], "override": 0}


def gen_c16(rng, n):
    cases, metas = [], []
    cfg, world = None, None
    for i in range(n):
        if i % 7 == 0:
            cfg = gen_config(rng)
            world = gen_world(rng, cfg)
        if rng.random() < 0.15:
            c, m = gen_unrouted(rng, cfg, world)
        else:
            c, m = gen_routed(rng, i, cfg, world)
        m["cfg"], m["world"] = cfg, world
        cases.append(c)
        metas.append(m)
    return cases, metas


# ------------------------------------------------------------------------------------------------
# the oracle of C16: the envelope rules of the property text, evaluated on the IMPLEMENTATION's output
# ------------------------------------------------------------------------------------------------

def parse_case(case):
    f = case.split()
    return {"method": f[1], "raw": unhx(f[2]).decode(), "decoded": unhx(f[3]), "body": f[4], "override": int(f[6])}


def parse_h(line):
    """H code ct body err msg req status R n reqs... P n params..."""
    f = line.split()
    if f[0] == "CRASH":
        out = {"crash": True}
        rest = f[1:]
    else:
        out = {"crash": False, "code": int(f[1]), "ct": f[2], "body": f[3], "err": f[4], "msg": f[5] == "1", "req": f[6] == "1",
               "status": f[7]}
        rest = f[8:]
    n = int(rest[1])
    out["reqs"] = rest[2:2 + n]
    return out


def lower_keys(d):
    return {k.lower() for k in d}


def expect_exists(pattern, params, cfg, world):
    """True / False = the property text says exists / unknown; None = the text does not decide."""
    if pattern in CONFIG_DETAIL:
        sect = cfg.get(CONFIG_DETAIL[pattern], {})
        nm = params.get("cluster" if "cluster" in params else "name", b"")
        return go_lower(nm) in ascii_keys_lower(sect)
    if not pattern.startswith("/v3/kafka/"):
        return True
    wc = {w[0].encode(): w for w in world}
    c = wc.get(params.get("cluster", b""))
    if c is None:
        return False
    if ":consumer" in pattern:
        if params["consumer"] not in [g.encode() for g, _, _ in c[2]]:
            return False
        return True
    if pattern.endswith("/topic/:topic"):
        return params["topic"] in [t.encode() for t, _ in c[1]]
    return True            # topic list, consumer list, consumers of a topic: the cluster exists


def oracle(case, meta_cfg, meta_world, impl):
    """Returns (verdict, why): verdict in ok | violation | skip; on the implementation's output line."""
    pc = parse_case(case)
    m = match(pc["method"], pc["decoded"])
    f = impl.split()
    if impl.startswith("PROBE-ERROR") or impl.startswith("BADURL"):
        return "violation", "harness: " + impl
    if m is None:
        if f[0] != "U":
            return "violation", "router matched a path the documented route list does not contain: " + impl[:80]
        code, allow, loc, nreq = int(f[1]), f[2], f[3], int(f[4])
        if nreq:
            return "violation", "an unrouted request reached the backend"
        if code == 404:
            return "ok", "unrouted-404"
        if code in (301, 307, 308) and loc == "loc":
            return "ok", "router-redirect-%d" % code
        if code == 405 and allow == "allow":
            return "ok", "router-405"
        if code == 200 and pc["method"] == "OPTIONS" and allow == "allow":
            return "ok", "router-options"
        return "violation", "unrouted path answered %d" % code
    if f[0] == "U":
        return "violation", "a documented route was not served: " + impl[:80]
    idx, params = m
    method, pattern = ROUTES[idx]
    if not pattern.startswith("/v3"):
        return "skip", "not a /v3 route"
    if pc["override"]:
        return "skip", "ill-typed backend (outside backend_typed)"
    h = parse_h(impl)
    if h["crash"]:
        return "violation", "handler panicked"
    if method == "GET":
        for r in h["reqs"]:
            if r.startswith("S:") and int(r.split(":")[1]) not in FETCH_TYPES:
                return "violation", "a GET issued a non-Fetch storage request " + r
    if h["ct"] != "json" or h["body"] != "json" or h["err"] not in ("t", "f"):
        ex = expect_exists(pattern, params, meta_cfg, meta_world)
        return "violation", "no JSON envelope (content-type=%s body=%s) exists=%s" % (h["ct"], h["body"], ex)
    is_status = pattern.endswith("/status") or pattern.endswith("/lag")
    if pattern == "/v3/admin/loglevel":
        if method == "GET" and not (h["code"] == 200 and h["err"] == "f"):
            return "violation", "GET loglevel %s" % impl[:60]
        if (h["code"] == 200) != (h["err"] == "f"):
            return "violation", "loglevel: error flag inconsistent with code"
        return "ok", "loglevel-%d" % h["code"]
    ex = expect_exists(pattern, params, meta_cfg, meta_world)
    if ex:
        if h["code"] != 200 or h["err"] != "f":
            return "violation", "existing resource answered %d error=%s" % (h["code"], h["err"])
        if is_status and h["status"] in ("-", "NOTFOUND"):
            return "violation", "existing group has status %s" % h["status"]
        return "ok", "exists-200"
    if is_status:
        if h["code"] != 404 or h["status"] != "NOTFOUND":
            return "violation", "unknown group on a status route answered %d status=%s" % (h["code"], h["status"])
        return "ok", "status-notfound-404"
    if h["code"] != 404 or h["err"] != "t":
        return "violation", "unknown resource answered %d error=%s" % (h["code"], h["err"])
    return "ok", "unknown-404"


def classify(case, why):
    """Classifier keys of known findings for a failing case (None = not a known class)."""
    pc = parse_case(case)
    m = match(pc["method"], pc["decoded"])
    if m is None:
        return None
    idx, params = m
    method, pattern = ROUTES[idx]
    # recorded finding: a DELETE naming an unknown cluster / consumer group is answered 200 error=false.  Keyed on
    # method DELETE + unknown group + exactly that answer; any other failure of a DELETE (another code, error=true
    # with 200, no JSON envelope, a panic) is not of this class.
    if method == "DELETE" and why == "unknown resource answered 200 error=f":
        return "C16:delete-unknown-group"
    return None


# ------------------------------------------------------------------------------------------------
# C18 cases
# ------------------------------------------------------------------------------------------------

def gen_leak(rng, i):
    pw = PwCounter()
    cfg = gen_config(rng, pw=pw, rich=True)
    reqs = [("GET", "/v3/config"), ("GET", "/v3/kafka")]
    variants = lambda nm: [nm, nm.upper(), nm + ".password", nm + ".username", nm + ".extras", nm + ".class-name",
                           nm + ".password.x", "password", nm + "/password"]
    for sect, pats in (("storage", ["/v3/config/storage/%s"]), ("evaluator", ["/v3/config/evaluator/%s"]),
                       ("cluster", ["/v3/config/cluster/%s", "/v3/kafka/%s"]), ("consumer", ["/v3/config/consumer/%s"]),
                       ("notifier", ["/v3/config/notifier/%s"])):
        reqs.append(("GET", "/v3/config/" + sect))
        for nm in cfg.get(sect, {}):
            for v in variants(nm):
                for p in pats:
                    reqs.append(("GET", p % escape(v.encode())))
    # names of other sections used as module names of the notifier / cluster routes (sasl / profile names)
    for nm in list(cfg.get("sasl", {})) + list(cfg.get("client-profile", {})):
        for p in ("/v3/config/notifier/%s", "/v3/config/cluster/%s", "/v3/config/consumer/%s"):
            reqs.append(("GET", p % escape(nm.encode())))
            reqs.append(("GET", p % escape((nm + ".password").encode())))
    toks = ["leak", "A%d-%d" % (i, rng.randint(0, 10 ** 9)), "B%d-%d" % (i, rng.randint(0, 10 ** 9)), "C"] + tree_tokens(cfg)
    toks += ["Q", str(len(reqs))]
    for m, p in reqs:
        toks += [m, hx(p)]
    return " ".join(toks), {"tokens": pw.n, "requests": len(reqs), "notifiers": len(cfg.get("notifier", {})),
                            "sasl": len(cfg.get("sasl", {}))}


# ------------------------------------------------------------------------------------------------
# C16 storage-backed cases (read-only half): see probes/http/verif_http_e2e_probe_test.go
# ------------------------------------------------------------------------------------------------

E2E_T0 = 1700000000
GET_V3 = [r for r in ROUTES if r[0] == "GET" and r[1] != "/burrow/admin/ready"]


def _e2e_times(rng, kind, nk, last, t0):
    """Commit times (seconds, non-decreasing, ending at `last`) that make the evaluator see the partition as `kind`."""
    if nk == 1:
        return [last]
    if kind == "stop":
        span = nk - 1                       # a window shorter than the silence since the last commit => STOP
    else:
        span = (t0 - last) + rng.randint(2, 10) + nk     # window longer than the silence: the STOP rule stays off
    return [last - span + (k * span) // (nk - 1) for k in range(nk)]


def gen_e2e(rng, i):
    """One storage-backed case: (line, meta).  meta holds the python-side knowledge the oracle needs."""
    expire = rng.choice([60, 300, 3600])
    intervals = rng.choice([2, 3, 5, 10])
    clusters = rng.sample(["c1", "c2", "prod-east"], rng.randint(1, 2))
    t_end_off = rng.choice([0, 0, 5, 30, expire // 2, expire, 2 * expire])
    events = []          # (time, seq, op tokens)
    seq = [0]

    def ev(t, toks):
        seq[0] += 1
        events.append((t, seq[0], toks))

    topics = {}          # cluster -> {topic: partition count}
    groups = {}          # cluster -> {group: category}
    plans = {}           # (cluster, group) -> [partition kinds in (topic, partition) order]
    for c in clusters:
        topics[c] = {}
        broker_last = {}
        for tp in rng.sample(["t1", "orders", "a.b", "Logs"], rng.randint(1, 3)):
            cnt = rng.choice([1, 2, 2, 3, 3])
            topics[c][tp] = cnt
            for p in range(cnt):
                off = 10 ** 6 + rng.randint(0, 10 ** 6)
                for k in range(rng.randint(1, intervals + 1)):
                    off += rng.randint(0, 500)
                    ev(E2E_T0 - 9 * expire - 50 + k, ["b", hx(c), hx(tp), str(p), str(cnt), str(off)])
                broker_last[(tp, p)] = off
        groups[c] = {}
        for g in rng.sample(["g1", "billing", "g.x", "Group", "g 2"], rng.randint(0, 4)):
            cat = rng.choice(["fresh", "fresh", "fresh", "expiring", "expired"])
            groups[c][g] = cat
            if cat == "fresh":
                last = E2E_T0 - rng.randint(0, expire // 3)
            elif cat == "expiring":
                # last commit expires in (T, T + 2*expire]: whether it is gone at T2 depends on the case
                last = E2E_T0 - expire + rng.randint(1, max(1, min(2 * expire, t_end_off + 3)))
            else:
                last = E2E_T0 - expire - rng.randint(1, expire)
            lag_idx = 0
            plan = []
            multi = [tp for tp in sorted(topics[c]) if topics[c][tp] >= 2]
            chosen = rng.sample(sorted(topics[c]), rng.randint(1, min(2, len(topics[c]))))
            if multi and not any(tp in multi for tp in chosen) and rng.random() < 0.8:
                chosen[0] = rng.choice(multi)
            for tp in chosen:
                cnt = topics[c][tp]
                parts = list(range(cnt)) if rng.random() < 0.8 else sorted(rng.sample(range(cnt), rng.randint(1, cnt)))
                # the complete view lists a topic's partitions by index: an OK partition followed by a non-OK one (and
                # other mixes) is what makes an in-place filter of the cached list visible
                if len(parts) >= 2 and rng.random() < 0.6:
                    kinds = ["ok", rng.choice(["stall", "stop"])] + [rng.choice(["ok", "stall", "stop"]) for _ in parts[2:]]
                else:
                    kinds = [rng.choice(["ok", "ok", "stall", "stop", "single"]) for _ in parts]
                for p, kind in zip(parts, kinds):
                    plan.append((tp, p, kind))
                    lag_idx += 1
                    lag = 1000 * lag_idx + rng.randint(0, 999)        # distinct lags inside a group: Maxlag has no ties
                    final = broker_last[(tp, p)] - lag
                    nk = 1 if kind == "single" else rng.randint(2, intervals + 2)
                    times = _e2e_times(rng, kind, nk, last, E2E_T0)
                    for k, tm in enumerate(times):
                        off = final if kind == "stall" else final - (nk - 1 - k) * rng.randint(1, 300)
                        ev(tm, ["c", hx(c), hx(g), hx(tp), str(p), str(max(off, 0)), str(tm * 1000)])
                    if rng.random() < 0.5:
                        ev(last, ["o", hx(c), hx(g), hx(tp), str(p), hx("host-%d" % rng.randint(1, 3))])
            plans[(c, g)] = plan
    events.sort(key=lambda e: (e[0], e[1]))
    ops, cur = [], None
    for tm, _, toks in events:
        if tm != cur:
            ops.append(["t", str(tm)])
            cur = tm
        ops.append(toks)
    # the GET batches: every GET pattern, names from the pools (existing and unknown)
    gets, metas = [], []
    all_topics = sorted({t for c in clusters for t in topics[c]})
    all_groups = sorted({g for c in clusters for g in groups[c]})
    for rep in range(rng.randint(2, 3)):
        for method, pattern in GET_V3:
            names = [s[1:] for s in pattern.split("/") if s.startswith(":")]
            vals = []
            for pn in names:
                if pattern in CONFIG_DETAIL:
                    pool = {"cluster": clusters, "storage": ["e2e"], "evaluator": ["e2e"], "consumer": [], "notifier": []}[CONFIG_DETAIL[pattern]]
                else:
                    pool = {"cluster": clusters, "topic": all_topics, "consumer": all_groups}.get(pn, [])
                if pool and rng.random() < 0.8:
                    vals.append(rng.choice(pool).encode())
                else:
                    vals.append(rng.choice([b"nosuch", b"x.y", b"a b", b"C1", "café".encode()]))
            raw, dec = build_path(pattern, vals)
            gets.append((method, raw))
            metas.append((pattern, dict(zip(names, vals))))
    order = list(range(len(gets)))
    rng.shuffle(order)
    gets = [gets[k] for k in order]
    metas = [metas[k] for k in order]
    n1 = (2 * len(gets)) // 3                       # batch G at the clock value T, batch H with the clock advancing
    dts = [0] * n1 + sorted(rng.randint(0, t_end_off) for _ in gets[n1:])
    # the sweep: the later reads that are compared (A: nothing served before, B: batch G served before)
    plain = [("GET", p) for p in ("/v3/kafka", "/v3/config", "/v3/config/storage", "/v3/config/storage/e2e", "/v3/config/evaluator",
                                  "/v3/config/evaluator/e2e", "/v3/config/cluster", "/v3/config/consumer", "/v3/config/notifier",
                                  "/v3/admin/loglevel")]
    evald = []
    for c in clusters + ["nosuch"]:
        ce = escape(c.encode())
        plain += [("GET", "/v3/kafka/" + ce), ("GET", "/v3/config/cluster/" + ce), ("GET", "/v3/kafka/%s/topic" % ce),
                  ("GET", "/v3/kafka/%s/consumer" % ce)]
        for tp in all_topics + ["nosuch"]:
            te = escape(tp.encode())
            plain += [("GET", "/v3/kafka/%s/topic/%s" % (ce, te)), ("GET", "/v3/kafka/%s/topic/%s/consumers" % (ce, te))]
        for gi, g in enumerate(all_groups + ["nosuch"]):
            ge = escape(g.encode())
            plain.append(("GET", "/v3/kafka/%s/consumer/%s" % (ce, ge)))
            st, lg = "/v3/kafka/%s/consumer/%s/status" % (ce, ge), "/v3/kafka/%s/consumer/%s/lag" % (ce, ge)
            views = [st, lg, st, lg] if gi % 2 == 0 else [lg, st, lg, st]
            evald += [("GET", v) for v in views]
    sweep = plain + evald + plain
    toks = ["e2e", str(expire), str(intervals), str(len(clusters))] + [hx(c) for c in clusters] + ["I", str(len(ops))]
    for o in ops:
        toks += o
    toks += [str(E2E_T0), str(E2E_T0 + t_end_off), "G", str(n1)]
    for (m, raw), dt in list(zip(gets, dts))[:n1]:
        toks += [str(dt), m, hx(raw)]
    toks += ["S", str(len(sweep))]
    for m, raw in sweep:
        toks += ["0", m, hx(raw)]
    toks += ["H", str(len(gets) - n1)]
    for (m, raw), dt in list(zip(gets, dts))[n1:]:
        toks += [str(dt), m, hx(raw)]
    meta = {"kind": "e2e", "expire": expire, "clusters": clusters, "topics": topics, "groups": groups, "gets": metas,
            "t_end_off": t_end_off, "n_ops": len(ops), "sweep": sweep, "batch1": gets[:n1], "plans": plans}
    return " ".join(toks), meta


def e2e_expect(pattern, params, meta):
    """True / False / None (the python side cannot tell: depends on expiry)."""
    if pattern in CONFIG_DETAIL:
        sect = {"cluster": meta["clusters"], "storage": ["e2e"], "evaluator": ["e2e"]}.get(CONFIG_DETAIL[pattern], [])
        nm = params.get("cluster" if "cluster" in params else "name", b"")
        return go_lower(nm) in ascii_keys_lower(sect)
    if not pattern.startswith("/v3/kafka/"):
        return True
    c = params.get("cluster", b"").decode("utf-8", "replace")
    if c not in meta["clusters"]:
        return False
    if ":consumer" in pattern:
        cat = meta["groups"][c].get(params["consumer"].decode("utf-8", "replace"))
        if cat is None:
            return False
        if cat == "fresh" and meta["t_end_off"] <= meta["expire"] // 2:
            return True
        return None
    if pattern.endswith("/topic/:topic"):
        return params["topic"].decode("utf-8", "replace") in meta["topics"][c]
    return True


def oracle_e2e(meta, impl):
    """(verdict, why) for one storage-backed case, on the implementation's output line."""
    f = impl.split()
    if not f or f[0] != "E2E":
        return "violation", "harness: " + impl[:200]
    if f[1] != "same":
        parts = f[1].split(":")
        txt = lambda x: unhx(x).decode("utf-8", "replace")
        sweep = meta.get("sweep", [])
        before = "; served before on that stack: " + ", ".join(m + " " + r for m, r in meta.get("batch1", []))[:1500]
        if parts[1] == "dump" and len(parts) == 5:
            return "violation", ("GET requests changed what later storage reads return: fetch %s answers %s on the stack that served "
                                 "nothing and %s on a stack that served GETs" % (txt(parts[2]), txt(parts[3])[:300], txt(parts[4])[:300]))
        if parts[1] == "sweep" and len(parts) == 7:
            i = int(parts[2])
            return "violation", ("a batch of GET requests changed what a later read returns: sweep request #%d %s is answered %s %s on the "
                                 "stack that served nothing before and %s %s on the stack that served batch G%s"
                                 % (i, " ".join(sweep[i]) if i < len(sweep) else "?", parts[3], txt(parts[4])[:600], parts[5],
                                    txt(parts[6])[:600], before))
        if parts[1] in ("repeatA", "repeatB") and len(parts) == 7:
            j, i = int(parts[2]), int(parts[5])
            between = ", ".join(m + " " + r for m, r in sweep[j + 1:i])[:1200]
            return "violation", ("read requests changed what a later read returns (stack %s): %s answered %s %s as sweep request #%d and %s as "
                                 "#%d, with only these GETs in between: %s"
                                 % (parts[1][-1], " ".join(sweep[i]) if i < len(sweep) else "?", parts[3], txt(parts[4])[:600], j,
                                    txt(parts[6])[:600], i, between))
        return "violation", "storage-backed case: " + f[1][:300]
    obs = f[f.index("K") + 1:]
    if len(obs) != len(meta["gets"]):
        return "violation", "harness: %d observations for %d GETs" % (len(obs), len(meta["gets"]))
    for (pattern, params), o in zip(meta["gets"], obs):
        if o in ("CRASH", "BADURL"):
            return "violation", "GET %s %s: %s" % (pattern, params, o)
        if not pattern.startswith("/v3"):
            continue
        code, errf, status = o.split(":")
        ex = e2e_expect(pattern, params, meta)
        is_status = pattern.endswith("/status") or pattern.endswith("/lag")
        if ex is True and not (code == "200" and errf == "f" and not (is_status and status in ("-", "NOTFOUND"))):
            return "violation", "storage-backed: existing resource %s %s answered %s" % (pattern, params, o)
        if ex is False:
            if is_status and not (code == "404" and status == "NOTFOUND"):
                return "violation", "storage-backed: unknown group on %s %s answered %s" % (pattern, params, o)
            if not is_status and not (code == "404" and errf == "t"):
                return "violation", "storage-backed: unknown resource %s %s answered %s" % (pattern, params, o)
    return "ok", "e2e-same"


# ------------------------------------------------------------------------------------------------
# case line -> python structures (corpus cases and replays carry their own configuration and world)
# ------------------------------------------------------------------------------------------------

def _parse_tree(f, i):
    if f[i] == "L":
        k = f[i + 1]
        if k == "s":
            return ("s", unhx(f[i + 2]).decode("utf-8", "replace")), i + 3
        if k == "n":
            return ("n", int(f[i + 2])), i + 3
        if k == "b":
            return ("b", f[i + 2] == "1"), i + 3
        if k == "l":
            n = int(f[i + 2])
            return ("l", [unhx(x).decode("utf-8", "replace") for x in f[i + 3:i + 3 + n]]), i + 3 + n
        if k == "p":
            return ("p", int(f[i + 2])), i + 3
        raise ValueError("leaf kind " + k)
    if f[i] == "N":
        n = int(f[i + 1])
        i += 2
        d = {}
        for _ in range(n):
            key = unhx(f[i]).decode("utf-8", "replace")
            v, i = _parse_tree(f, i + 1)
            d.setdefault(key, v)
        return d, i
    raise ValueError("tree token " + f[i])


def parse_cfg_world(case):
    """(cfg, world) of a `req` line in the structures gen_config / gen_world produce."""
    f = case.split()
    i = f.index("C")
    cfg, i = _parse_tree(f, i + 1)
    assert f[i] == "W"
    i += 1
    n = int(f[i])
    i += 1
    world = []
    for _ in range(n):
        nm = unhx(f[i]).decode("utf-8", "replace")
        nt = int(f[i + 1])
        i += 2
        topics = []
        for _ in range(nt):
            t = unhx(f[i]).decode("utf-8", "replace")
            no = int(f[i + 1])
            topics.append((t, [int(x) for x in f[i + 2:i + 2 + no]]))
            i += 2 + no
        ng = int(f[i])
        i += 1
        groups = []
        for _ in range(ng):
            groups.append((unhx(f[i]).decode("utf-8", "replace"), int(f[i + 1]), f[i + 2] == "1"))
            i += 3
        world.append((nm, topics, groups))
    return cfg if isinstance(cfg, dict) else {}, world


# ------------------------------------------------------------------------------------------------
# C16 file-configuration cases: the configuration is a TOML document read with viper.ReadConfig, the real coordinators
# are configured in start-up order, then every /v3/config/** and /v3/kafka/:cluster route is swept
# (probes/http/verif_http_file_probe_test.go)
# ------------------------------------------------------------------------------------------------

def toml_value(v):
    kind, x = v
    if kind == "s":
        return '"' + x.replace("\\", "\\\\").replace('"', '\\"') + '"'
    if kind == "n":
        return str(x)
    if kind == "b":
        return "true" if x else "false"
    if kind == "l":
        return "[" + ", ".join(toml_value(("s", e)) for e in x) + "]"
    raise ValueError(kind)


def toml_doc(cfg):
    """cfg: {section: {key: leaf}} or {section: {module: {key: leaf}}} -> TOML text ([section] / [section.module] tables)."""
    out = []
    for sect, body in cfg.items():
        scalars = {k: v for k, v in body.items() if not isinstance(v, dict)}
        if scalars:
            out.append("[%s]" % sect)
            out += ["%s = %s" % (k, toml_value(v)) for k, v in scalars.items()]
            out.append("")
        for mod, kv in body.items():
            if isinstance(kv, dict):
                out.append("[%s.%s]" % (sect, mod))
                out += ["%s = %s" % (k, toml_value(v)) for k, v in kv.items()]
                out.append("")
    return "\n".join(out) + "\n"


FILE_NAMES = ["local", "Local", "c1", "C2", "prod-east", "Mixed", "default", "n1", "Mail", "hook", "zk_1", "a", "X", "ProdWest"]
FILE_SECTIONS = ("storage", "evaluator", "cluster", "consumer", "notifier")


def _case_variant(rng, nm):
    return rng.choice([nm, nm, nm.lower(), nm.upper()])


def gen_filecfg(rng, i, repo_config_dir):
    def names(lo, hi):
        n = rng.randint(lo, hi)
        out = []
        for nm in rng.sample(FILE_NAMES, len(FILE_NAMES)):
            if len(out) < n and nm.lower() not in [o.lower() for o in out]:
                out.append(nm)
        return out

    cfg = {}
    if rng.random() < 0.6:
        cfg["general"] = {"pidfile": ("s", "burrow.pid"), "access-control-allow-origin": ("s", "*")}
    cfg["storage"] = {nm: {"class-name": ("s", "inmemory"), "intervals": ("n", rng.randint(2, 15)), "expire-group": ("n", 604800)}
                      for nm in names(1, 1)}
    cfg["evaluator"] = {nm: {"class-name": ("s", "caching"), "expire-cache": ("n", 10)} for nm in names(1, 1)}
    profiles = names(0, 2)
    if profiles:
        cfg["client-profile"] = {nm: {"kafka-version": ("s", "2.0.0"), "client-id": ("s", "burrow-" + nm.lower())} for nm in profiles}
    clusters = names(1, 3)
    cfg["cluster"] = {}
    for nm in clusters:
        c = {"class-name": ("s", "kafka"), "servers": ("l", ["127.0.0.1:1"]), "topic-refresh": ("n", 60), "offset-refresh": ("n", 30)}
        if profiles and rng.random() < 0.6:
            c["client-profile"] = ("s", _case_variant(rng, rng.choice(profiles)))
        cfg["cluster"][nm] = c
    consumers = names(0, 4) if rng.random() < 0.85 else []
    if consumers:
        cfg["consumer"] = {}
        for nm in consumers:
            # the cluster is referred to as written, lower-cased or upper-cased: viper's keys are case-insensitive
            c = {"class-name": ("s", "kafka"), "cluster": ("s", _case_variant(rng, rng.choice(clusters))),
                 "servers": ("l", ["127.0.0.1:1"]), "start-latest": ("b", True)}
            if rng.random() < 0.3:
                c = {"class-name": ("s", "kafka_zk"), "cluster": ("s", _case_variant(rng, rng.choice(clusters))),
                     "servers": ("l", ["127.0.0.1:1"]), "zookeeper-path": ("s", "/kafka")}
            elif profiles and rng.random() < 0.6:
                c["client-profile"] = ("s", _case_variant(rng, rng.choice(profiles)))
            cfg["consumer"][nm] = c
    notifiers = names(1, 3) if rng.random() < 0.5 else []
    if notifiers:
        cfg["zookeeper"] = {"servers": ("l", ["127.0.0.1:1"]), "root-path": ("s", "/burrow")}
        cfg["notifier"] = {}
        for nm in notifiers:
            cls = rng.choice(["http", "email", "null"])
            n = {"class-name": ("s", cls), "interval": ("n", 60), "send-close": ("b", False)}
            if cls == "http":
                n.update({"url-open": ("s", "http://127.0.0.1:1/open"),
                          "template-open": ("s", repo_config_dir + "/default-http-post.tmpl")})
            elif cls == "email":
                n.update({"server": ("s", "127.0.0.1"), "port": ("n", 25), "from": ("s", "burrow@example.com"),
                          "to": ("s", "oncall@example.com"), "template-open": ("s", repo_config_dir + "/default-email.tmpl")})
            else:
                n.update({"template-open": ("s", repo_config_dir + "/default-http-post.tmpl")})
            cfg["notifier"][nm] = n
    # the sweep
    reqs = [("/v3/config", None, None)]
    for sect in FILE_SECTIONS:
        reqs.append(("/v3/config/" + sect, sect, None))
        pats = ["/v3/config/%s/%%s" % sect] + (["/v3/kafka/%s"] if sect == "cluster" else [])
        for nm in list(cfg.get(sect, {})) + ["nosuch"]:
            variants = {nm, nm.lower(), nm.upper(), nm + "x", nm + ".class-name"} if nm != "nosuch" else {nm}
            if nm != "nosuch" and any(c in nm for c in "kKiI"):
                variants |= {nm.replace("k", "\u212a").replace("K", "\u212a"), nm.replace("i", "\u0130").replace("I", "\u0130")}
            for v in sorted(variants):
                for pat in pats:
                    reqs.append((pat % escape(v.encode()), sect, v))
    rng.shuffle(reqs)
    doc = toml_doc(cfg)
    toks = ["filecfg", hx(doc), "C"] + tree_tokens(cfg) + ["Q", str(len(reqs))]
    for raw, _, _ in reqs:
        toks += ["GET", hx(raw), hx(raw if "%" not in raw else urllib.parse.unquote_to_bytes(raw))]
    meta = {"kind": "filecfg", "cfg": cfg, "doc": doc, "reqs": reqs}
    return " ".join(toks), meta


def oracle_filecfg(meta, impl):
    """The property on a configuration FILE: every module of the file is listed by its section's list route and answers
    200 error=false on its detail route (names are case-insensitive); unknown names answer 404 error=true."""
    f = impl.split()
    if len(f) < 3 or f[0] != "FILE":
        return "violation", "harness: " + impl[:200]
    if f[1] != "ok":
        parts = f[1].split(":")
        msg = unhx(parts[-1]).decode("utf-8", "replace") if len(parts) > 1 else f[1]
        return "violation", "a configuration the generator builds as valid was refused: %s: %s" % (":".join(parts[:-1]), msg[:300])
    obs = f[3:]
    if len(obs) != len(meta["reqs"]):
        return "violation", "harness: %d observations for %d requests" % (len(obs), len(meta["reqs"]))
    cfg = meta["cfg"]
    for (raw, sect, name), o in zip(meta["reqs"], obs):
        if o in ("CRASH", "BADURL"):
            return "violation", "GET %s: %s" % (raw, o)
        code, errf, lst = o.split(":")
        if sect is None:
            if not (code == "200" and errf == "f"):
                return "violation", "GET %s answered %s error=%s" % (raw, code, errf)
            continue
        have = sorted(k.lower() for k in cfg.get(sect, {}))
        if name is None:
            got = unhx(lst).decode("utf-8", "replace") if lst != "-" else None
            if not (code == "200" and errf == "f"):
                return "violation", "GET %s answered %s error=%s" % (raw, code, errf)
            if got != "[" + ",".join(have) + "]":
                return "violation", "GET %s lists %s, the configuration file has %s" % (raw, got, have)
            continue
        exists = go_lower(name).decode("utf-8", "replace") in have
        if exists and not (code == "200" and errf == "f"):
            return "violation", ("GET %s answered %s error=%s although [%s.%s] is in the configuration file"
                                 % (raw, code, errf, sect, [k for k in cfg[sect] if k.lower().encode() == go_lower(name)][0]))
        if not exists and not (code == "404" and errf == "t"):
            return "violation", "GET %s answered %s error=%s although the file has no %s module of that name" % (raw, code, errf, sect)
    return "ok", "filecfg-ok"


def filecfg_meta_from_line(case):
    """Rebuild the oracle's knowledge from a `filecfg` line (replays, corpus)."""
    f = case.split()
    doc = unhx(f[1]).decode("utf-8", "replace")
    cfg, i = _parse_tree(f, f.index("C") + 1)
    assert f[i] == "Q"
    n = int(f[i + 1])
    reqs = []
    for k in range(n):
        raw = unhx(f[i + 2 + 3 * k + 1]).decode()
        segs = [urllib.parse.unquote(s) for s in raw.split("/")[1:]]
        if segs[:2] == ["v3", "kafka"] and len(segs) == 3:
            reqs.append((raw, "cluster", segs[2]))
        elif segs[:2] == ["v3", "config"] and len(segs) == 2:
            reqs.append((raw, None, None))
        elif segs[:2] == ["v3", "config"] and len(segs) == 3:
            reqs.append((raw, segs[2], None))
        elif segs[:2] == ["v3", "config"] and len(segs) == 4:
            reqs.append((raw, segs[2], segs[3]))
        else:
            reqs.append((raw, None, None))
    return {"kind": "filecfg", "cfg": cfg, "doc": doc, "reqs": reqs}
